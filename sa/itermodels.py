"""Generic iterator models for the FDAI engine: adaptors and consumers over *materialised* item sequences.

An "items iterator" is AggV(ITEMS, {0: K(pos), 1: ItemsV(list of abstract item values)}). Adaptors (rev, enumerate,
zip, skip, take, chain, copied/cloned, map, filter, take_while, skip_while, peekable-free forms) turn any iterator the
analyser knows (byte cursor, byte-string iterator, list iterator, range, from_fn is excluded because it is lazy with
side effects) into an items iterator by materialising the remaining items; closures are run on each item by the
engine. Consumers (next, nth, last, count, all, any, position, rposition, find, fold, for_each, sum of ints, min/max
of ints) work on items iterators. With concrete data nothing forks; with symbolic closure results the usual forking
applies and an undecided boolean makes the result a fresh symbol (the caller's table then fails closed).
"""
from . import fdai
from .fdai import AggV, K, SymV, RefV, Cell, Loc, TOP, load, EnumV, mk_option, BytesV, ListV, Val

ITEMS = "items-iter"


class ItemsV(Val):
    __slots__ = ("items",)

    def __init__(self, items):
        self.items = list(items)

    def __repr__(self):
        return "<%d items>" % len(self.items)


def _deref(eng, st, v, n=4):
    v = eng.resolve(st, v)
    k = 0
    while isinstance(v, RefV) and k < n:
        v = eng.resolve(st, load(Loc(v.cell, v.path)))
        k += 1
    return v


def materialise(eng, st, v, M):
    """remaining items of any known iterator value (not advanced) or None"""
    it = _deref(eng, st, v)
    if isinstance(it, AggV) and it.kind == ITEMS:
        return list(it.fields[1].items[it.fields[0].v:])
    if isinstance(it, AggV) and it.kind == M.BYTES_ITER:
        data = M._iter_data(st, it)
        return [RefV(Cell(K(b), "byte@%d" % (it.fields[0].v + i))) for i, b in enumerate(data[it.fields[0].v:])]
    if isinstance(it, AggV) and it.kind == M.LIST_ITER:
        return [RefV(c) for c in it.fields[1].cells[it.fields[0].v:]]
    if isinstance(it, AggV) and it.kind == "array" and it.fields and all(isinstance(k_, int) for k_ in it.fields):
        # an array where an IntoIterator is expected (`a.iter().zip([x, y, z])`): its elements by value
        return [it.fields[i] for i in sorted(it.fields)]
    if isinstance(it, AggV) and it.kind == "array-into-iter" and isinstance(it.fields.get(0), K) and isinstance(it.fields.get(1), AggV):
        # `[a, b, c].into_iter()`: the elements by value, in order
        arr = it.fields[1]
        return [arr.fields[i] for i in sorted(arr.fields)][it.fields[0].v:]
    if isinstance(it, AggV) and it.kind.split("::")[-1] == "Range":
        lo, hi = eng.resolve(st, it.fields.get(0)), eng.resolve(st, it.fields.get(1))
        if isinstance(lo, K) and isinstance(hi, K) and hi.v - lo.v < 100000:
            return [K(i) for i in range(lo.v, hi.v)]
    if isinstance(it, AggV) and it.kind == "bytes-split" and isinstance(it.fields.get(2), K) and it.fields[2].v:
        return []          # a split iterator that has handed out its last piece
    if isinstance(it, AggV) and it.kind == "bytes-split" and isinstance(it.fields.get(2), K) and not it.fields[2].v:
        # slice::split(pred): pieces between the bytes for which the predicate holds (decided by folding the predicate)
        data = list(it.fields[0].b)
        off = it.fields[0].off
        pieces, cur, start = [], [], 0
        fr = st.frames[-1]
        for i, b in enumerate(data):
            res = eng.call_closure(st, fr, it.fields[1], [RefV(Cell(K(b), "item"))], None)
            if len(res) != 1 or res[0][0] is not st:
                return None
            v = eng.resolve(st, res[0][1])
            if not isinstance(v, K):
                return None
            if v.v:
                pieces.append((start, cur))
                cur, start = [], i + 1
            else:
                cur.append(b)
        pieces.append((start, cur))
        return [M._mkslice(p, None if off is None else off + s0) for s0, p in pieces]
    return None


def mk(items):
    return AggV(ITEMS, {0: K(0), 1: ItemsV(items)})


def _run_pred(eng, st, fr, t, items, clo_idx, by_ref, decide, finish):
    """sequentially apply the closure argument `clo_idx` to items; decide(i, bool, state) -> ('stop', v)|('go',)"""
    out = []
    work = [(st, 0)]
    guard = 0
    while work:
        s, i = work.pop()
        guard += 1
        if guard > 20000:
            raise fdai.TooManyPaths("iterator fold")
        if s.outcome is not None:
            out.append((s, TOP))
            continue
        if i >= len(items):
            out.append((s, finish(s)))
            continue
        f2 = s.frames[-1]
        clo = eng.operand(s, f2, t["args"][clo_idx])
        arg = RefV(Cell(items[i], "item")) if by_ref else items[i]
        for s2, v in eng.call_closure(s, f2, clo, [arg], t):
            if s2.outcome is not None:
                out.append((s2, TOP))
                continue
            v = eng.resolve(s2, v)
            if isinstance(v, fdai.SymV) and len(items) <= 40:
                # the predicate's answer for this item is not known (it asked an unknown function about an unknown value):
                # both answers are followed, each recorded as an assumption like a branch on that value
                fr2 = s2.frames[-1]
                for val in (True, False):
                    s3 = eng.fork(s2) if val else s2
                    f3 = s3.frames[-1]
                    s3.facts[v.id] = K(val)
                    s3.trace.append(fdai.Event("assume", "sym", None, (fdai.snapshot(v), val), f3.bi, (t or {}).get("line"), len(s3.frames), f3.body.npath if f3.body else "?"))
                    d = decide(i, val, s3)
                    if d[0] == "stop":
                        out.append((s3, d[1]))
                    else:
                        work.append((s3, i + 1))
                continue
            if not isinstance(v, K):
                out.append((s2, s2.fresh(("iter-undecided",))))
                continue
            d = decide(i, bool(v.v), s2)
            if d[0] == "stop":
                out.append((s2, d[1]))
            else:
                work.append((s2, i + 1))
    return out


def build(M):
    """model table; M = scpi_models module (for the concrete iterator kinds)"""

    def items_of(eng, st, v):
        return materialise(eng, st, v, M)

    def set_consumed(eng, s, t, n_total):
        """mark the iterator operand (if passed by &mut) as advanced by n_total items"""
        v = eng.resolve(s, eng.operand(s, s.frames[-1], t["args"][0]))
        it = _deref(eng, s, v)
        if isinstance(it, AggV) and it.kind in (ITEMS, M.BYTES_ITER, M.LIST_ITER) and isinstance(it.fields.get(0), K):
            it.fields[0] = K(it.fields[0].v + n_total)

    def adaptor(fn):
        def m(eng, st, fr, t, name, rname, args):
            items = items_of(eng, st, args[0])
            if items is None:
                return NotImplemented
            r = fn(eng, st, fr, t, items, args)
            return NotImplemented if r is None else r
        return m

    def a_rev(eng, st, fr, t, items, args):
        return mk(list(reversed(items)))

    def a_enumerate(eng, st, fr, t, items, args):
        return mk([AggV("tuple", {0: K(i), 1: x}) for i, x in enumerate(items)])

    def a_zip(eng, st, fr, t, items, args):
        other = items_of(eng, st, args[1])
        if other is None:
            ob = M._bytes_of(eng, st, args[1])
            if ob is not None:
                other = [RefV(Cell(K(b), "byte")) for b in ob]
        if other is None:
            return None
        return mk([AggV("tuple", {0: a, 1: b}) for a, b in zip(items, other)])

    def a_flatten(eng, st, fr, t, items, args):
        """`it.flatten()` over Option items (or references to Options): the payloads of the Some items, in order"""
        out = []
        for x in items:
            by_ref = False
            v = eng.resolve(st, x)
            if isinstance(v, RefV):
                by_ref = True
                v = eng.resolve(st, fdai.load(fdai.Loc(v.cell, v.path)))
            if not (isinstance(v, fdai.EnumV) and v.name in ("Some", "None") and (v.adt or "").endswith("Option")):
                return None
            if v.name == "Some":
                p_ = v.fields.get(0)
                out.append(RefV(Cell(p_, "flat-item")) if by_ref else p_)
        return mk(out)

    def a_chain(eng, st, fr, t, items, args):
        other = items_of(eng, st, args[1])
        return None if other is None else mk(items + other)

    def _n(eng, st, v):
        v = eng.resolve(st, v)
        return v.v if isinstance(v, K) and isinstance(v.v, int) and not isinstance(v.v, bool) else None

    def a_skip(eng, st, fr, t, items, args):
        n = _n(eng, st, args[1])
        return None if n is None else mk(items[n:])

    def a_take(eng, st, fr, t, items, args):
        n = _n(eng, st, args[1])
        return None if n is None else mk(items[:n])

    def a_copied(eng, st, fr, t, items, args):
        out = []
        for x in items:
            x = eng.resolve(st, x)
            out.append(eng.resolve(st, load(Loc(x.cell, x.path))) if isinstance(x, RefV) else x)
        return mk(out)

    def a_identity(eng, st, fr, t, items, args):
        return mk(items)

    def m_map(eng, st, fr, t, name, rname, args):
        items = items_of(eng, st, args[0])
        if items is None:
            return NotImplemented
        # eager: run the closure on every item, in order (forks multiply)
        out = []
        work = [(st, 0, [])]
        guard = 0
        while work:
            s, i, acc = work.pop()
            guard += 1
            if guard > 20000:
                raise fdai.TooManyPaths("map")
            if s.outcome is not None:
                out.append((s, TOP))
                continue
            if i >= len(items):
                out.append((s, mk(acc)))
                continue
            f2 = s.frames[-1]
            clo = eng.operand(s, f2, t["args"][1])
            for s2, v in eng.call_closure(s, f2, clo, [items[i]], t):
                work.append((s2, i + 1, acc + [v]))
        return out

    def m_map_while(eng, st, fr, t, name, rname, args):
        """map_while(f): the mapped values up to (not including) the first item for which f returns None - eager like map"""
        items = items_of(eng, st, args[0])
        if items is None:
            return NotImplemented
        out = []
        work = [(st, 0, [])]
        guard = 0
        while work:
            s, i, acc = work.pop()
            guard += 1
            if guard > 20000:
                raise fdai.TooManyPaths("map_while")
            if s.outcome is not None:
                out.append((s, TOP))
                continue
            if i >= len(items):
                out.append((s, mk(acc)))
                continue
            f2 = s.frames[-1]
            clo = eng.operand(s, f2, t["args"][1])
            for s2, v in eng.call_closure(s, f2, clo, [items[i]], t):
                v = eng.resolve(s2, v)
                if isinstance(v, EnumV) and v.name == "Some":
                    work.append((s2, i + 1, acc + [v.fields.get(0, TOP)]))
                elif isinstance(v, EnumV) and v.name == "None":
                    out.append((s2, mk(acc)))
                else:
                    out.append((s2, s2.fresh(("map_while-undecided",))))
        return out

    def m_filter(kind):
        def m(eng, st, fr, t, name, rname, args):
            items = items_of(eng, st, args[0])
            if items is None:
                return NotImplemented
            out = []
            work = [(st, 0, [], kind == "skip_while")]
            guard = 0
            while work:
                s, i, acc, skipping = work.pop()
                guard += 1
                if guard > 20000:
                    raise fdai.TooManyPaths("filter")
                if s.outcome is not None:
                    out.append((s, TOP))
                    continue
                if i >= len(items):
                    out.append((s, mk(acc)))
                    continue
                if kind == "skip_while" and not skipping:
                    out.append((s, mk(acc + items[i:])))
                    continue
                f2 = s.frames[-1]
                clo = eng.operand(s, f2, t["args"][1])
                for s2, v in eng.call_closure(s, f2, clo, [RefV(Cell(items[i], "item"))], t):
                    v = eng.resolve(s2, v)
                    if s2.outcome is not None or not isinstance(v, K):
                        out.append((s2, s2.fresh(("iter-undecided",))))
                        continue
                    keep = bool(v.v)
                    if kind == "filter":
                        work.append((s2, i + 1, acc + ([items[i]] if keep else []), False))
                    elif kind == "take_while":
                        if keep:
                            work.append((s2, i + 1, acc + [items[i]], False))
                        else:
                            out.append((s2, mk(acc)))
                    else:  # skip_while
                        if keep:
                            work.append((s2, i + 1, acc, True))
                        else:
                            work.append((s2, i, acc, False))
            return out
        return m

    # ---- consumers ------------------------------------------------------------------------------------------------
    def only_items(eng, st, v):
        it = _deref(eng, st, v)
        return it if isinstance(it, AggV) and it.kind == ITEMS else None

    def c_next(eng, st, fr, t, name, rname, args):
        it = only_items(eng, st, args[0])
        if it is None:
            return NotImplemented
        pos = it.fields[0].v
        xs = it.fields[1].items
        if pos < len(xs):
            it.fields[0] = K(pos + 1)
            return mk_option(xs[pos])
        return mk_option(None)

    def c_nth(eng, st, fr, t, name, rname, args):
        it = only_items(eng, st, args[0])
        n = _n(eng, st, args[1])
        if it is None or n is None:
            return NotImplemented
        pos = it.fields[0].v + n
        xs = it.fields[1].items
        if pos < len(xs):
            it.fields[0] = K(pos + 1)
            return mk_option(xs[pos])
        it.fields[0] = K(len(xs))
        return mk_option(None)

    def c_count(eng, st, fr, t, name, rname, args):
        xs = items_of(eng, st, args[0])
        if xs is None:
            return NotImplemented
        return K(len(xs))

    def c_last(eng, st, fr, t, name, rname, args):
        xs = items_of(eng, st, args[0])
        if xs is None:
            return NotImplemented
        return mk_option(xs[-1]) if xs else mk_option(None)

    def search(kind):
        def m(eng, st, fr, t, name, rname, args):
            xs = items_of(eng, st, args[0])
            if xs is None:
                return NotImplemented
            n = len(xs)
            if kind == "all":
                return _run_pred(eng, st, fr, t, xs, 1, False, lambda i, v, s: ("go",) if v else (set_consumed(eng, s, t, i + 1), ("stop", K(False)))[1], lambda s: (set_consumed(eng, s, t, n), K(True))[1])
            if kind == "any":
                return _run_pred(eng, st, fr, t, xs, 1, False, lambda i, v, s: (set_consumed(eng, s, t, i + 1), ("stop", K(True)))[1] if v else ("go",), lambda s: (set_consumed(eng, s, t, n), K(False))[1])
            if kind == "position":
                return _run_pred(eng, st, fr, t, xs, 1, False, lambda i, v, s: (set_consumed(eng, s, t, i + 1), ("stop", mk_option(K(i))))[1] if v else ("go",), lambda s: (set_consumed(eng, s, t, n), mk_option(None))[1])
            if kind == "rposition":
                rx = list(reversed(xs))
                return _run_pred(eng, st, fr, t, rx, 1, False, lambda i, v, s: ("stop", mk_option(K(n - 1 - i))) if v else ("go",), lambda s: mk_option(None))
            if kind == "find":
                return _run_pred(eng, st, fr, t, xs, 1, True, lambda i, v, s: (set_consumed(eng, s, t, i + 1), ("stop", mk_option(xs[i])))[1] if v else ("go",), lambda s: (set_consumed(eng, s, t, n), mk_option(None))[1])
            return NotImplemented
        return m

    def c_find_map(eng, st, fr, t, name, rname, args):
        """`it.find_map(f)`: f on each item in order; the first Some(..) it answers is the result"""
        xs = items_of(eng, st, args[0])
        if xs is None:
            return NotImplemented
        out = []
        work = [(st, 0)]
        guard = 0
        while work:
            s, i = work.pop()
            guard += 1
            if guard > 20000:
                raise fdai.TooManyPaths("iterator fold")
            if s.outcome is not None:
                out.append((s, TOP))
                continue
            if i >= len(xs):
                set_consumed(eng, s, t, len(xs))
                out.append((s, mk_option(None)))
                continue
            f2 = s.frames[-1]
            clo = eng.operand(s, f2, t["args"][1])
            for s2, v in eng.call_closure(s, f2, clo, [xs[i]], t):
                if s2.outcome is not None:
                    out.append((s2, TOP))
                    continue
                v = eng.resolve(s2, v)
                if isinstance(v, fdai.EnumV) and v.name == "Some":
                    set_consumed(eng, s2, t, i + 1)
                    out.append((s2, v))
                elif isinstance(v, fdai.EnumV) and v.name == "None":
                    work.append((s2, i + 1))
                else:
                    out.append((s2, s2.fresh(("iter-undecided",))))
        return out

    def fold_from_fn(eng, st, fr, t, args):
        """fold over core::iter::from_fn(g): g is called for the next item until it answers None (lazy, in order)"""
        ff = M._fromfn_of(eng, st, args[0])
        if ff is None:
            return None
        out = []
        work = [(st, args[1], 0)]
        while work:
            s, acc, n = work.pop()
            if n > 64:
                raise fdai.TooManyPaths("from_fn fold")
            if s.outcome is not None:
                out.append((s, TOP))
                continue
            f2 = s.frames[-1]
            ff2 = M._fromfn_of(eng, s, eng.operand(s, f2, t["args"][0]))
            for s2, item in eng.call_closure(s, f2, ff2.fields[0], [], t):
                if s2.outcome is not None:
                    out.append((s2, TOP))
                    continue
                item = eng.resolve(s2, item)
                if isinstance(item, EnumV) and item.name == "None":
                    out.append((s2, acc))
                elif isinstance(item, EnumV) and item.name == "Some":
                    f3 = s2.frames[-1]
                    clo = eng.operand(s2, f3, t["args"][2])
                    for s3, v in eng.call_closure(s2, f3, clo, [acc, item.fields.get(0, TOP)], t):
                        work.append((s3, v, n + 1))
                else:
                    out.append((s2, s2.fresh(("from_fn-fold-undecided",))))
        return out

    def c_fold(eng, st, fr, t, name, rname, args):
        ffr = fold_from_fn(eng, st, fr, t, args)
        if ffr is not None:
            return ffr
        items = items_of(eng, st, args[0])
        if items is None:
            return NotImplemented
        out = []
        work = [(st, 0, args[1])]
        guard = 0
        while work:
            s, i, acc = work.pop()
            guard += 1
            if guard > 20000:
                raise fdai.TooManyPaths("fold")
            if s.outcome is not None:
                out.append((s, TOP))
                continue
            if i >= len(items):
                out.append((s, acc))
                continue
            f2 = s.frames[-1]
            clo = eng.operand(s, f2, t["args"][2])
            for s2, v in eng.call_closure(s, f2, clo, [acc, items[i]], t):
                work.append((s2, i + 1, v))
        return out

    def c_try_fold(eng, st, fr, t, name, rname, args):
        """Iterator::try_fold(init, f) with f returning Option / Result: stops at the first None / Err"""
        items = items_of(eng, st, args[0])
        if items is None:
            return NotImplemented
        g = [str(x) for x in (t.get("callee", {}).get("gargs") or ())]
        rty = next((x for x in reversed(g) if x.startswith(("core::option::Option<", "core::result::Result<"))), None)
        if rty is None:
            return NotImplemented
        wrap = mk_option if rty.startswith("core::option") else fdai.mk_ok
        out = []
        work = [(st, 0, args[1])]
        guard = 0
        while work:
            s, i, acc = work.pop()
            guard += 1
            if guard > 20000:
                raise fdai.TooManyPaths("try_fold")
            if s.outcome is not None:
                out.append((s, TOP))
                continue
            if i >= len(items):
                set_consumed(eng, s, t, len(items))
                out.append((s, wrap(acc)))
                continue
            f2 = s.frames[-1]
            clo = eng.operand(s, f2, t["args"][2])
            for s2, v in eng.call_closure(s, f2, clo, [acc, items[i]], t):
                if s2.outcome is not None:
                    out.append((s2, TOP))
                    continue
                v = eng.resolve(s2, v)
                if not (isinstance(v, EnumV) and v.name in ("Some", "Ok", "None", "Err")):
                    out.append((s2, s2.fresh(("try-fold-undecided",))))
                    continue
                if v.name in ("Some", "Ok"):
                    work.append((s2, i + 1, v.fields.get(0, TOP)))
                else:
                    set_consumed(eng, s2, t, i + 1)
                    out.append((s2, v))
        return out

    def c_sum(eng, st, fr, t, name, rname, args):
        items = items_of(eng, st, args[0])
        if items is None:
            return NotImplemented
        tot = 0
        for x in items:
            x = _deref(eng, st, x)
            if not (isinstance(x, K) and isinstance(x.v, int)):
                return NotImplemented
            tot += x.v
        return K(tot)

    def with_fallback(primary, key, base):
        fb = base.get(key)

        def m(eng, st, fr, t, name, rname, args):
            r = primary(eng, st, fr, t, name, rname, args)
            if r is NotImplemented and fb is not None:
                return fb(eng, st, fr, t, name, rname, args)
            return r
        return m

    I = "core::iter::Iterator::"
    table = {
        I + "rev": adaptor(a_rev), I + "enumerate": adaptor(a_enumerate), I + "zip": adaptor(a_zip), I + "chain": adaptor(a_chain), I + "flatten": adaptor(a_flatten),
        I + "skip": adaptor(a_skip), I + "take": adaptor(a_take), I + "copied": adaptor(a_copied), I + "cloned": adaptor(a_copied),
        I + "peekable_items": adaptor(a_identity), I + "fuse": adaptor(a_identity), I + "by_ref": None,
        I + "map": m_map, I + "map_while": m_map_while, I + "filter": m_filter("filter"), I + "skip_while": m_filter("skip_while"),
        I + "fold": c_fold, I + "try_fold": c_try_fold, I + "sum": c_sum, I + "last": c_last,
    }
    table = {k: v for k, v in table.items() if v is not None}
    consumers = {I + "next": c_next, I + "nth": c_nth, I + "count": c_count, I + "all": search("all"), I + "any": search("any"),
                 I + "position": search("position"), I + "rposition": search("rposition"), I + "find": search("find"), I + "find_map": c_find_map}
    return table, consumers, m_filter("take_while"), with_fallback
