"""Repository-specific abstract models for the FDAI engine: the shared token stream
(`Peekable<Tokenizer>`), byte cursors (`slice::Iter<u8>`), and helpers to classify outcomes."""
from . import fdai
from .fdai import EnumV, AggV, K, SymV, RefV, Cell, Loc, Event, TOP, load, snapshot, mk_option, mk_ok, mk_err

TOK = "scpi::parser::tokenizer::token::Token"
EC = "scpi::error::ErrorCode"
DATA = ["CharacterProgramData", "DecimalNumericProgramData", "DecimalNumericSuffixProgramData", "NonDecimalNumericProgramData", "StringProgramData", "ArbitraryBlockData", "ExpressionProgramData"]
NONDATA = ["HeaderMnemonicSeparator", "HeaderQuerySuffix", "ProgramMessageUnitSeparator", "ProgramHeaderSeparator", "ProgramDataSeparator", "ProgramMnemonic"]
END = "END"
UNKNOWN = "UNKNOWN"


def token(eng, name, payload=None):
    d = eng.variant_discr(TOK, name)
    if d is None:
        raise KeyError("Token variant " + name)
    fields = {}
    nf = {"ProgramMnemonic": 1, "DecimalNumericSuffixProgramData": 2}.get(name, 1 if name in DATA else 0)
    for i in range(nf):
        fields[i] = payload[i] if payload and i < len(payload) else SymV("tok-%s-%d" % (name, i), "payload:%s.%d" % (name, i))
    return EnumV(TOK, name, d, fields)


def item(eng, name):
    """stream item for a token variant name, 'ERR' (lexer error) or END"""
    if name == END or name == UNKNOWN:
        return name
    if name == "ERR":
        return mk_err(SymV("lexerr", "lexer-error-code"))
    return mk_ok(token(eng, name))


def all_items(eng):
    return [item(eng, n) for n in NONDATA + DATA] + [item(eng, "ERR"), END]


def item_name(it):
    if it in (END, UNKNOWN):
        return it
    if isinstance(it, EnumV) and it.name == "Err":
        return "ERR"
    if isinstance(it, EnumV) and it.name == "Ok":
        t = it.fields.get(0)
        return t.name if isinstance(t, EnumV) else "?"
    return "?"


def set_stream(st, items):
    st.extra["stream"] = list(items)
    st.extra["consumed"] = []


def _stream(st):
    return st.extra.setdefault("stream", [UNKNOWN])


def _ev(st, fr, t, kind, name, args=()):
    st.trace.append(Event(kind, name, None, tuple(args), fr.bi, t.get("line", "?") if t else "?", len(st.frames), fr.body.npath if fr.body else "?"))


def m_peek(eng, st, fr, t, name, rname, args):
    s = _stream(st)
    head = s[0] if s else UNKNOWN
    if head == END:
        _ev(st, fr, t, "peek", END)
        return mk_option(None)
    if head == UNKNOWN:
        _ev(st, fr, t, "peek", UNKNOWN)
        return st.fresh(("peek-unknown",))
    _ev(st, fr, t, "peek", item_name(head))
    cell = st.extra.get("peekcell")
    if cell is None or cell.v is not head:
        cell = Cell(head, "peeked")
        st.extra["peekcell"] = cell
    return mk_option(RefV(cell))


def _pop(st):
    s = _stream(st)
    head = s[0] if s else UNKNOWN
    if head not in (END, UNKNOWN):
        s.pop(0)
        if not s:
            s.append(UNKNOWN)
    st.extra.pop("peekcell", None)
    return head


def m_next(eng, st, fr, t, name, rname, args):
    head = _pop(st)
    _ev(st, fr, t, "consume", item_name(head))
    st.extra.setdefault("consumed", []).append(item_name(head))
    if head == END:
        return mk_option(None)
    if head == UNKNOWN:
        return st.fresh(("next-unknown",))
    return mk_option(head)


def m_next_if(eng, st, fr, t, name, rname, args):
    s = _stream(st)
    head = s[0] if s else UNKNOWN
    if head == END:
        _ev(st, fr, t, "next_if", END, (False,))
        return mk_option(None)
    if head == UNKNOWN:
        # an unknown rest of the stream: either it has ended, or it holds an unknown item - on which the predicate is run, so
        # that what the predicate tests about the item (its variant) is known about the item that is handed out
        _ev(st, fr, t, "next_if", UNKNOWN, (snapshot(args[1]),))
        out = []
        s_end = eng.fork(st)
        out.append((s_end, mk_option(None)))
        item = st.fresh(("next_if-unknown-item",))
        res = eng.call_closure(st, fr, args[1], [RefV(Cell(item, "next_if-item"))], t)
        for s2, v in res:
            if s2.outcome is not None:
                out.append((s2, TOP))
                continue
            v = eng.resolve(s2, v)
            f2 = s2.frames[-1]
            if isinstance(v, K) and v.v:
                _ev(s2, f2, t, "consume", UNKNOWN, ("next_if",))
                s2.extra.setdefault("consumed", []).append(UNKNOWN)
                s2.extra.pop("peekcell", None)
                out.append((s2, mk_option(item)))
            elif isinstance(v, K):
                out.append((s2, mk_option(None)))
            else:
                out.append((s2, s2.fresh(("next_if-unknown",))))
        return out
    cell = Cell(head, "next_if-item")
    res = eng.call_closure(st, fr, args[1], [RefV(cell)], t)
    out = []
    for s2, v in res:
        if s2.outcome is not None:
            out.append((s2, TOP))
            continue
        v = eng.resolve(s2, v)
        f2 = s2.frames[-1]
        if isinstance(v, K) and v.v:
            h2 = _pop(s2)
            _ev(s2, f2, t, "consume", item_name(h2), ("next_if",))
            s2.extra.setdefault("consumed", []).append(item_name(h2))
            out.append((s2, mk_option(h2)))
        elif isinstance(v, K):
            _ev(s2, f2, t, "next_if", item_name(head), (False,))
            out.append((s2, mk_option(None)))
        else:
            _ev(s2, f2, t, "next_if", item_name(head), ("undecided",))
            out.append((s2, s2.fresh(("next_if-undecided",))))
    return out


def m_next_if_eq(eng, st, fr, t, name, rname, args):
    """Peekable::next_if_eq(&expected): next_if(|item| item == expected) on the abstract stream (variant-level comparison:
    the items of the abstract stream are token variants with symbolic payloads, compared structurally)"""
    s = _stream(st)
    head = s[0] if s else UNKNOWN
    if head == END:
        _ev(st, fr, t, "next_if", END, (False,))
        return mk_option(None)
    if head == UNKNOWN:
        _ev(st, fr, t, "next_if", UNKNOWN, ("eq",))
        return st.fresh(("next_if_eq-unknown",))
    exp = eng.resolve(st, args[1])
    n = 0
    while isinstance(exp, RefV) and n < 4:
        exp = eng.resolve(st, load(Loc(exp.cell, exp.path)))
        n += 1
    same = struct_eq(eng, st, head, exp)
    if same is True:
        h2 = _pop(st)
        _ev(st, fr, t, "consume", item_name(h2), ("next_if",))
        st.extra.setdefault("consumed", []).append(item_name(h2))
        return mk_option(h2)
    if same is False:
        _ev(st, fr, t, "next_if", item_name(head), (False,))
        return mk_option(None)
    _ev(st, fr, t, "next_if", item_name(head), ("undecided",))
    return st.fresh(("next_if_eq-undecided",))


STREAM_MODELS = {
    "core::iter::Peekable::next_if_eq": m_next_if_eq,
    "core::iter::Peekable::peek": m_peek,
    "<core::iter::Peekable<I> as core::iter::Iterator>::next": m_next,
    "core::iter::Peekable::next_if": m_next_if,
}


# ---- outcome helpers -----------------------------------------------------------------------------

def err_codes(v, depth=0):
    """ErrorCode variant names (or symbols) found inside an abstract value."""
    out = set()
    if depth > 8:
        return out
    v_ = v
    if isinstance(v_, EnumV):
        if (v_.adt or "").endswith("error::ErrorCode"):
            out.add(v_.name or "?")
        for f in v_.fields.values():
            out |= err_codes(f, depth + 1)
    elif isinstance(v_, AggV):
        for f in v_.fields.values():
            out |= err_codes(f, depth + 1)
    elif isinstance(v_, SymV):
        if v_.id == "lexerr":
            out.add("<lexer-error>")
    return out


def outcome(r):
    """Short classification of a finished path."""
    if r.outcome == "return":
        v = r.retval
        if isinstance(v, EnumV) and v.name == "Ok":
            return "Ok"
        if isinstance(v, EnumV) and v.name == "Err":
            c = sorted(err_codes(v))
            return "Err(%s)" % ",".join(c) if c else "Err(?)"
        if isinstance(v, SymV):
            d = v.desc
            if isinstance(d, tuple) and d and d[0] == "ret":
                return "ret:" + d[1].split("::")[-1]
            return "sym"
        if isinstance(v, K):
            return "K(%r)" % (v.v,)
        return type(v).__name__
    if r.outcome in ("diverge", "panic"):
        calls = [e.name for e in r.trace if e.kind in ("call", "panic")]
        last = calls[-1] if calls else ""
        return "panic(%s)" % last.split("::")[-1]
    return r.outcome


def events(r, kinds=("call", "consume")):
    return [e for e in r.trace if e.kind in kinds]


def call_names(r):
    return [e.name for e in r.trace if e.kind == "call"]


# ---- byte cursor (core::slice::Iter<u8>) over an abstract input of representative bytes ---------------------
BYTES_ITER = "bytes-iter"


def mk_bytes_iter(pos=0):
    return AggV(BYTES_ITER, {0: K(pos)})


def _iter_of(eng, st, v):
    v = eng.resolve(st, v)
    if isinstance(v, RefV):
        inner = eng.resolve(st, load(Loc(v.cell, v.path)))
        if isinstance(inner, AggV) and inner.kind == BYTES_ITER:
            return inner
    if isinstance(v, AggV) and v.kind == BYTES_ITER:
        return v
    return None


def m_bytes_next(eng, st, fr, t, name, rname, args):
    it = _iter_of(eng, st, args[0])
    if it is None:
        return NotImplemented
    data = st.extra.get("bytes", [])
    pos = it.fields[0].v
    if pos < len(data):
        it.fields[0] = K(pos + 1)
        return mk_option(RefV(Cell(K(data[pos]), "byte@%d" % pos)))
    return mk_option(None)


def m_bytes_nth(eng, st, fr, t, name, rname, args):
    it = _iter_of(eng, st, args[0])
    n = eng.resolve(st, args[1])
    if it is None or not isinstance(n, K):
        return NotImplemented
    data = st.extra.get("bytes", [])
    pos = it.fields[0].v + n.v
    if pos < len(data):
        it.fields[0] = K(pos + 1)
        return mk_option(RefV(Cell(K(data[pos]), "byte@%d" % pos)))
    it.fields[0] = K(len(data))
    return mk_option(None)


def _byte_arg(eng, st, v):
    v = eng.resolve(st, v)
    n = 0
    while isinstance(v, RefV) and n < 4:
        v = eng.resolve(st, load(Loc(v.cell, v.path)))
        n += 1
    return v.v if isinstance(v, K) and isinstance(v.v, int) and not isinstance(v.v, bool) else None


def _pred(f):
    def m(eng, st, fr, t, name, rname, args):
        b = _byte_arg(eng, st, args[0])
        if b is None:
            return NotImplemented
        return K(bool(f(b)))
    return m


BYTE_PREDICATES = {
    "is_ascii_whitespace": lambda b: b in (0x20, 0x09, 0x0A, 0x0C, 0x0D),
    "is_ascii_alphabetic": lambda b: (65 <= b <= 90) or (97 <= b <= 122),
    "is_ascii_alphanumeric": lambda b: (65 <= b <= 90) or (97 <= b <= 122) or (48 <= b <= 57),
    "is_ascii_digit": lambda b: 48 <= b <= 57,
    "is_ascii_uppercase": lambda b: 65 <= b <= 90,
    "is_ascii_lowercase": lambda b: 97 <= b <= 122,
    "is_ascii": lambda b: b < 128,
    "is_ascii_punctuation": lambda b: (33 <= b <= 47) or (58 <= b <= 64) or (91 <= b <= 96) or (123 <= b <= 126),
    "is_ascii_hexdigit": lambda b: (48 <= b <= 57) or (65 <= b <= 70) or (97 <= b <= 102),
    "is_ascii_control": lambda b: b < 32 or b == 127,
    "is_ascii_graphic": lambda b: 33 <= b <= 126,
}

def _bytemap(f):
    def m(eng, st, fr, t, name, rname, args):
        b = _byte_arg(eng, st, args[0])
        if b is None:
            return NotImplemented
        return K(f(b) & 0xFF)
    return m


BYTE_MAPS = {
    "to_ascii_lowercase": lambda b: b + 32 if 65 <= b <= 90 else b,
    "to_ascii_uppercase": lambda b: b - 32 if 97 <= b <= 122 else b,
}

BYTE_MODELS = {
    "<core::slice::Iter<'a, T> as core::iter::Iterator>::next": m_bytes_next,
    "<core::slice::Iter<'a, T> as core::iter::Iterator>::nth": m_bytes_nth,
}
for _n, _f in BYTE_PREDICATES.items():
    BYTE_MODELS["core::num::" + _n] = _pred(_f)
    BYTE_MODELS["core::num::<impl u8>::" + _n] = _pred(_f)
for _n, _f in BYTE_MAPS.items():
    BYTE_MODELS["core::num::" + _n] = _bytemap(_f)
    BYTE_MODELS["core::num::<impl u8>::" + _n] = _bytemap(_f)


# ---- constant folding over byte-string constants (program constants such as enum mnemonics) -------------------
from .fdai import BytesV, UNIT, ClosureV, FnV


def _bytes_of(eng, st, v):
    v = eng.resolve(st, v)
    n = 0
    while isinstance(v, RefV) and n < 6:
        v = eng.resolve(st, load(Loc(v.cell, v.path)))
        n += 1
    return v.b if isinstance(v, BytesV) else None


def _mkslice(b, off=None):
    return RefV(Cell(BytesV(bytes(b), off), "bytes"))


def _bytesv_of(eng, st, v):
    v = eng.resolve(st, v)
    n = 0
    while isinstance(v, RefV) and n < 6:
        v = eng.resolve(st, load(Loc(v.cell, v.path)))
        n += 1
    return v if isinstance(v, BytesV) else None


def _off(eng, st, v, delta=0):
    bv = _bytesv_of(eng, st, v)
    return None if bv is None or bv.off is None else bv.off + delta


def _iter_data(st, it):
    d = it.fields.get(1)
    if isinstance(d, BytesV):
        return list(d.b)
    return st.extra.get("bytes", [])


def m_slice_iter(eng, st, fr, t, name, rname, args):
    b = _bytes_of(eng, st, args[0])
    if b is None:
        return NotImplemented
    off = _off(eng, st, args[0])
    amb = st.extra.get("bytes")
    if off is not None and amb is not None and off + len(b) == len(amb) and list(amb[off:]) == list(b):
        return AggV(BYTES_ITER, {0: K(off)})
    return AggV(BYTES_ITER, {0: K(0), 1: BytesV(b)})


def m_slice_len(eng, st, fr, t, name, rname, args):
    b = _bytes_of(eng, st, args[0])
    if b is None:
        return NotImplemented
    return K(len(b))


def m_bytes_next2(eng, st, fr, t, name, rname, args):
    it = _iter_of(eng, st, args[0])
    if it is None or not isinstance(it.fields.get(0), K):
        return NotImplemented
    data = _iter_data(st, it)
    pos = it.fields[0].v
    if pos < len(data):
        it.fields[0] = K(pos + 1)
        return mk_option(RefV(Cell(K(data[pos]), "byte@%d" % pos)))
    return mk_option(None)


def m_bytes_nth2(eng, st, fr, t, name, rname, args):
    it = _iter_of(eng, st, args[0])
    n = eng.resolve(st, args[1])
    if it is None or not isinstance(n, K) or not isinstance(it.fields.get(0), K):
        return NotImplemented
    data = _iter_data(st, it)
    pos = it.fields[0].v + n.v
    if pos < len(data):
        it.fields[0] = K(pos + 1)
        return mk_option(RefV(Cell(K(data[pos]), "byte@%d" % pos)))
    it.fields[0] = K(len(data))
    return mk_option(None)


def _seq(eng, st, fr, t, items, closure, mkarg, decide, finish):
    """Run closure over items sequentially on every forked state.
    decide(index, value) -> ('stop', result) | ('go',) ; finish() -> result when exhausted.
    Returns list of (state, result)."""
    out = []
    work = [(st, 0)]
    guard = 0
    while work:
        s, i = work.pop()
        guard += 1
        if guard > 5000:
            raise fdai.TooManyPaths("byte fold")
        if s.outcome is not None:
            out.append((s, TOP))
            continue
        if i >= len(items):
            out.append((s, finish(s)))
            continue
        f2 = s.frames[-1]
        # the closure value must be re-read in the forked state
        clo = closure(s, f2)
        for s2, v in eng.call_closure(s, f2, clo, [mkarg(items[i])], t):
            if s2.outcome is not None:
                out.append((s2, TOP))
                continue
            v = eng.resolve(s2, v)
            if not isinstance(v, K):
                out.append((s2, s2.fresh(("fold-undecided",))))
                continue
            d = decide(i, bool(v.v), s2)
            if d[0] == "stop":
                out.append((s2, d[1]))
            else:
                work.append((s2, i + 1))
    return out


def _arg_reader(t, idx, eng):
    def rd(s, f):
        return eng.operand(s, f, t["args"][idx])
    return rd


def m_iter_all(eng, st, fr, t, name, rname, args):
    it = _iter_of(eng, st, args[0])
    if it is None:
        return NotImplemented
    data = _iter_data(st, it)[it.fields[0].v:]

    def fin(s):
        i2 = _iter_of(eng, s, eng.operand(s, s.frames[-1], t["args"][0]))
        if i2 is not None:
            i2.fields[0] = K(i2.fields[0].v + len(data))
        return K(True)

    return _seq(eng, st, fr, t, data, _arg_reader(t, 1, eng), lambda b: RefV(Cell(K(b), "item")), lambda i, v, s: ("go",) if v else ("stop", K(False)), fin)


def m_iter_rposition(eng, st, fr, t, name, rname, args):
    it = _iter_of(eng, st, args[0])
    if it is None:
        return NotImplemented
    data = _iter_data(st, it)[it.fields[0].v:]
    n = len(data)
    rev = list(reversed(data))
    return _seq(eng, st, fr, t, rev, _arg_reader(t, 1, eng), lambda b: RefV(Cell(K(b), "item")), lambda i, v, s: ("stop", mk_option(K(n - 1 - i))) if v else ("go",), lambda s: mk_option(None))


def m_iter_position(eng, st, fr, t, name, rname, args):
    it = _iter_of(eng, st, args[0])
    if it is None:
        return NotImplemented
    data = _iter_data(st, it)[it.fields[0].v:]
    return _seq(eng, st, fr, t, data, _arg_reader(t, 1, eng), lambda b: RefV(Cell(K(b), "item")), lambda i, v, s: ("stop", mk_option(K(i))) if v else ("go",), lambda s: mk_option(None))


def m_take_while(eng, st, fr, t, name, rname, args):
    it = eng.resolve(st, args[0])
    if not (isinstance(it, AggV) and it.kind == BYTES_ITER):
        return NotImplemented
    return AggV("bytes-takewhile", {0: it, 1: args[1]})


def m_iter_count(eng, st, fr, t, name, rname, args):
    tw = eng.resolve(st, args[0])
    if isinstance(tw, AggV) and tw.kind == BYTES_ITER:
        return K(len(_iter_data(st, tw)) - tw.fields[0].v)
    if not (isinstance(tw, AggV) and tw.kind == "bytes-takewhile"):
        return NotImplemented
    it = tw.fields[0]
    data = _iter_data(st, it)[it.fields[0].v:]
    clo = tw.fields[1]
    n = len(data)
    # predicate of TakeWhile takes &Item = &&u8
    return _seq(eng, st, fr, t, data, lambda s, f: clo, lambda b: RefV(Cell(RefV(Cell(K(b), "item")), "itemref")), lambda i, v, s: ("go",) if v else ("stop", K(i)), lambda s: K(n))


def m_slice_split(eng, st, fr, t, name, rname, args):
    b = _bytes_of(eng, st, args[0])
    if b is None:
        return NotImplemented
    return AggV("bytes-split", {0: BytesV(b), 1: args[1], 2: K(False)})


def m_split_next(eng, st, fr, t, name, rname, args):
    v = eng.resolve(st, args[0])
    sp = eng.resolve(st, load(Loc(v.cell, v.path))) if isinstance(v, RefV) else None
    if not (isinstance(sp, AggV) and sp.kind == "bytes-split"):
        return NotImplemented
    if sp.fields[2].v:
        return mk_option(None)
    data = list(sp.fields[0].b)
    clo = sp.fields[1]

    def upd(s, rest, done):
        v2 = eng.resolve(s, eng.operand(s, s.frames[-1], t["args"][0]))
        sp2 = eng.resolve(s, load(Loc(v2.cell, v2.path)))
        sp2.fields[0] = BytesV(bytes(rest))
        sp2.fields[2] = K(done)

    def dec(i, val, s):
        if val:
            upd(s, data[i + 1:], False)
            return ("stop", mk_option(_mkslice(data[:i])))
        return ("go",)

    def fin(s):
        upd(s, [], True)
        return mk_option(_mkslice(data))

    return _seq(eng, st, fr, t, data, lambda s, f: clo, lambda b_: RefV(Cell(K(b_), "item")), dec, fin)


def m_split_at(eng, st, fr, t, name, rname, args):
    b = _bytes_of(eng, st, args[0])
    k = eng.resolve(st, args[1])
    if b is None or not isinstance(k, K):
        return NotImplemented
    if k.v > len(b):
        st.outcome = "panic"
        st.trace.append(Event("panic", name, None, (), fr.bi, t.get("line"), len(st.frames), fr.body.npath))
        return [(st, TOP)]
    o = _off(eng, st, args[0])
    return AggV("tuple", {0: _mkslice(b[: k.v], o), 1: _mkslice(b[k.v:], None if o is None else o + k.v)})


def m_slice_index(eng, st, fr, t, name, rname, args):
    b = _bytes_of(eng, st, args[0])
    r = eng.resolve(st, args[1])
    if b is None or not isinstance(r, AggV):
        return NotImplemented
    kind = r.kind.split("::")[-1]
    f = [eng.resolve(st, r.fields.get(i)) for i in range(2)]
    lo, hi = 0, len(b)
    if kind == "RangeTo" and isinstance(f[0], K):
        hi = f[0].v
    elif kind == "RangeFrom" and isinstance(f[0], K):
        lo = f[0].v
    elif kind == "Range" and isinstance(f[0], K) and isinstance(f[1], K):
        lo, hi = f[0].v, f[1].v
    elif kind == "RangeFull":
        pass
    else:
        return NotImplemented
    if lo > hi or hi > len(b):
        st.outcome = "panic"
        st.trace.append(Event("panic", name, None, (), fr.bi, t.get("line"), len(st.frames), fr.body.npath))
        return [(st, TOP)]
    return _mkslice(b[lo:hi], _off(eng, st, args[0], lo))


def m_bytes_eq(eng, st, fr, t, name, rname, args):
    a = _bytes_of(eng, st, args[0])
    b = _bytes_of(eng, st, args[1])
    if a is None or b is None:
        return NotImplemented
    st.trace.append(Event("call", name, rname, (("bytes", a), ("bytes", b)), fr.bi, t.get("line"), len(st.frames), fr.body.npath))
    return K(a == b)


def m_bytes_eq_nocase(eng, st, fr, t, name, rname, args):
    a = _bytes_of(eng, st, args[0])
    b = _bytes_of(eng, st, args[1])
    if a is None or b is None:
        return NotImplemented
    return K(a.lower() == b.lower())


def m_u8_eq_nocase(eng, st, fr, t, name, rname, args):
    a = _byte_arg(eng, st, args[0])
    b = _byte_arg(eng, st, args[1])
    if a is None or b is None:
        return NotImplemented
    low = lambda x: x | 0x20 if 65 <= x <= 90 else x
    return K(low(a) == low(b))


def m_as_slice(eng, st, fr, t, name, rname, args):
    it = _iter_of(eng, st, args[0])
    if it is None:
        return NotImplemented
    data = _iter_data(st, it)
    if not isinstance(it.fields.get(0), K):
        return NotImplemented
    return _mkslice(data[it.fields[0].v:], it.fields[0].v if it.fields.get(1) is None else None)


RANGE = "core::ops::Range"


def _range_of(eng, st, v):
    v = eng.resolve(st, v)
    n = 0
    while isinstance(v, RefV) and n < 4:
        v = eng.resolve(st, load(Loc(v.cell, v.path)))
        n += 1
    if isinstance(v, AggV) and v.kind.split("::")[-1] == "Range" and isinstance(eng.resolve(st, v.fields.get(0)), K) and isinstance(eng.resolve(st, v.fields.get(1)), K):
        return v
    return None


def m_range_next(eng, st, fr, t, name, rname, args):
    r = _range_of(eng, st, args[0])
    if r is None:
        return NotImplemented
    lo, hi = eng.resolve(st, r.fields[0]).v, eng.resolve(st, r.fields[1]).v
    if lo < hi:
        r.fields[0] = K(lo + 1)
        return mk_option(K(lo))
    return mk_option(None)


def m_range_into_iter(eng, st, fr, t, name, rname, args):
    v = eng.resolve(st, args[0])
    if isinstance(v, AggV) and v.kind.split("::")[-1] == "Range":
        return v
    return NotImplemented


FROM_FN = "from-fn-iter"


def m_from_fn(eng, st, fr, t, name, rname, args):
    return AggV(FROM_FN, {0: args[0]})


def _fromfn_of(eng, st, v):
    v = eng.resolve(st, v)
    n = 0
    while isinstance(v, RefV) and n < 4:
        v = eng.resolve(st, load(Loc(v.cell, v.path)))
        n += 1
    return v if isinstance(v, AggV) and v.kind == FROM_FN else None


def m_fromfn_next(eng, st, fr, t, name, rname, args):
    it = _fromfn_of(eng, st, args[0])
    if it is None:
        return NotImplemented
    return eng.call_closure(st, fr, it.fields[0], [], t)


def m_for_each(eng, st, fr, t, name, rname, args):
    """iter.for_each(f) for the iterator kinds the analyser knows: items are produced one by one and handed to f"""
    out = []
    work = [(st, 0)]
    guard = 0
    while work:
        s, n = work.pop()
        guard += 1
        if guard > 4000 or n > 64:
            raise fdai.TooManyPaths("for_each")
        if s.outcome is not None:
            out.append((s, TOP))
            continue
        f2 = s.frames[-1]
        itv = eng.operand(s, f2, t["args"][0])
        fv = eng.operand(s, f2, t["args"][1])
        ff = _fromfn_of(eng, s, itv)
        if ff is not None:
            nexts = eng.call_closure(s, f2, ff.fields[0], [], t)
        else:
            bi = _iter_of(eng, s, itv)
            li = _liter_of(eng, s, itv)
            if bi is not None:
                data = _iter_data(s, bi)
                pos = bi.fields[0].v
                if pos < len(data):
                    bi.fields[0] = K(pos + 1)
                    nexts = [(s, mk_option(RefV(Cell(K(data[pos]), "byte@%d" % pos))))]
                else:
                    nexts = [(s, mk_option(None))]
            elif li is not None:
                pos = li.fields[0].v
                cells = li.fields[1].cells
                if pos < len(cells):
                    li.fields[0] = K(pos + 1)
                    nexts = [(s, mk_option(RefV(cells[pos])))]
                else:
                    nexts = [(s, mk_option(None))]
            else:
                return NotImplemented
        for s2, item in nexts:
            if s2.outcome is not None:
                out.append((s2, TOP))
                continue
            item = eng.resolve(s2, item)
            if not isinstance(item, EnumV) or item.name is None:
                out.append((s2, s2.fresh(("for_each-undecided",))))
                continue
            if item.name == "None":
                out.append((s2, fdai.UNIT))
                continue
            f3 = s2.frames[-1]
            fv2 = eng.operand(s2, f3, t["args"][1])
            for s3, _ in eng.call_closure(s2, f3, fv2, [item.fields.get(0, TOP)], t):
                work.append((s3, n + 1))
    return out


def m_into_iter(eng, st, fr, t, name, rname, args):
    v = eng.resolve(st, args[0])
    if isinstance(v, AggV) and v.kind.split("::")[-1] == "Range":
        return v
    if isinstance(v, AggV) and v.kind in (BYTES_ITER, "bytes-split", "bytes-takewhile", FROM_FN):
        return v
    if _bytes_of(eng, st, args[0]) is not None:
        return m_slice_iter(eng, st, fr, t, name, rname, args)
    return NotImplemented


def m_starts_with(eng, st, fr, t, name, rname, args):
    a = _bytes_of(eng, st, args[0])
    b = _bytes_of(eng, st, args[1])
    if a is None or b is None:
        return NotImplemented
    return K(a.startswith(b) if name.endswith("starts_with") else a.endswith(b))


def m_slice_first(eng, st, fr, t, name, rname, args):
    a = _bytes_of(eng, st, args[0])
    if a is None:
        return NotImplemented
    if not a:
        return mk_option(None)
    i = 0 if name.endswith("first") else len(a) - 1
    return mk_option(RefV(Cell(K(a[i]), "byte@%d" % i)))


def m_slice_get(eng, st, fr, t, name, rname, args):
    a = _bytes_of(eng, st, args[0])
    i = eng.resolve(st, args[1])
    if a is not None and isinstance(i, AggV) and i.kind.split("::")[-1] in ("Range", "RangeTo", "RangeFrom", "RangeFull", "RangeInclusive", "RangeToInclusive"):
        kind = i.kind.split("::")[-1]
        f = [eng.resolve(st, i.fields.get(k)) for k in range(2)]
        lo, hi = 0, len(a)
        if kind == "RangeTo" and isinstance(f[0], K):
            hi = f[0].v
        elif kind == "RangeFrom" and isinstance(f[0], K):
            lo = f[0].v
        elif kind == "Range" and isinstance(f[0], K) and isinstance(f[1], K):
            lo, hi = f[0].v, f[1].v
        elif kind == "RangeFull":
            pass
        else:
            return NotImplemented
        if lo > hi or hi > len(a):
            return mk_option(None)
        return mk_option(_mkslice(a[lo:hi], _off(eng, st, args[0], lo)))
    if a is None or not (isinstance(i, K) and isinstance(i.v, int)):
        return NotImplemented
    return mk_option(RefV(Cell(K(a[i.v]), "byte@%d" % i.v))) if i.v < len(a) else mk_option(None)


def m_slice_contains(eng, st, fr, t, name, rname, args):
    a = _bytes_of(eng, st, args[0])
    b = _byte_arg(eng, st, args[1])
    if a is None or b is None:
        return NotImplemented
    return K(b in a)


def m_slice_is_empty(eng, st, fr, t, name, rname, args):
    a = _bytes_of(eng, st, args[0])
    if a is None:
        return NotImplemented
    return K(len(a) == 0)


def m_split_first(eng, st, fr, t, name, rname, args):
    a = _bytes_of(eng, st, args[0])
    if a is None:
        return NotImplemented
    if not a:
        return mk_option(None)
    return mk_option(AggV("tuple", {0: RefV(Cell(K(a[0]), "byte@0")), 1: _mkslice(a[1:], _off(eng, st, args[0], 1))}))


def m_split_last(eng, st, fr, t, name, rname, args):
    a = _bytes_of(eng, st, args[0])
    if a is None:
        return NotImplemented
    if not a:
        return mk_option(None)
    return mk_option(AggV("tuple", {0: RefV(Cell(K(a[-1]), "byte@last")), 1: _mkslice(a[:-1], _off(eng, st, args[0], 0))}))


def struct_eq(eng, st, a, b, depth=0):
    """structural equality of two abstract values: True / False / None (unknown)"""
    a = eng.resolve(st, a)
    b = eng.resolve(st, b)
    n = 0
    while isinstance(a, RefV) and isinstance(b, RefV) and n < 6:
        if a.cell is b.cell and a.path == b.path:
            return True
        a = eng.resolve(st, load(Loc(a.cell, a.path)))
        b = eng.resolve(st, load(Loc(b.cell, b.path)))
        n += 1
    if isinstance(a, K) and isinstance(b, K):
        return a.v == b.v
    if isinstance(a, BytesV) and isinstance(b, BytesV):
        return a.b == b.b
    if isinstance(a, EnumV) and isinstance(b, EnumV) and a.name is not None and b.name is not None and depth < 6:
        if a.name != b.name:
            return False
        res = True
        for i in set(a.fields) | set(b.fields):
            if i not in a.fields or i not in b.fields:
                return None
            r = struct_eq(eng, st, a.fields[i], b.fields[i], depth + 1)
            if r is False:
                return False
            if r is None:
                res = None
        return res
    return None


def m_eq_any(eng, st, fr, t, name, rname, args):
    r = m_bytes_eq(eng, st, fr, t, name, rname, args)
    if r is not NotImplemented:
        return r
    v = struct_eq(eng, st, args[0], args[1])
    if v is None:
        return NotImplemented
    return K(v if not name.endswith("::ne") else not v)


# ---- slices of non-byte elements (e.g. the children of a tree branch) -------------------------------------------------
LIST_ITER = "list-iter"


def _list_of(eng, st, v):
    v = eng.resolve(st, v)
    n = 0
    while isinstance(v, RefV) and n < 6:
        v = eng.resolve(st, load(Loc(v.cell, v.path)))
        n += 1
    if isinstance(v, AggV) and v.kind == "array" and v.fields and all(isinstance(k, int) for k in v.fields):
        # a fixed-size array of non-byte elements (e.g. a constant table): viewed as a list
        return fdai.ListV([Cell(v.fields[i], "elem%d" % i) for i in sorted(v.fields)])
    return v if isinstance(v, fdai.ListV) else None


def _liter_of(eng, st, v):
    v = eng.resolve(st, v)
    n = 0
    while isinstance(v, RefV) and n < 6:
        v = eng.resolve(st, load(Loc(v.cell, v.path)))
        n += 1
    return v if isinstance(v, AggV) and v.kind == LIST_ITER else None


def _or(primary, fallback):
    def m(eng, st, fr, t, name, rname, args):
        r = primary(eng, st, fr, t, name, rname, args)
        if r is NotImplemented and fallback is not None:
            return fallback(eng, st, fr, t, name, rname, args)
        return r
    return m


def ml_iter(eng, st, fr, t, name, rname, args):
    if name.endswith("into_iter"):
        v0 = eng.resolve(st, args[0])
        if isinstance(v0, AggV) and v0.kind == "array":
            return NotImplemented  # an array consumed by value yields its items, not references (m_array_into_iter)
    l = _list_of(eng, st, args[0])
    if l is None:
        it = _liter_of(eng, st, args[0])
        return it if it is not None and name.endswith("into_iter") else NotImplemented
    return AggV(LIST_ITER, {0: K(0), 1: l})


def ml_len(eng, st, fr, t, name, rname, args):
    l = _list_of(eng, st, args[0])
    return NotImplemented if l is None else K(len(l.cells))


def ml_is_empty(eng, st, fr, t, name, rname, args):
    l = _list_of(eng, st, args[0])
    return NotImplemented if l is None else K(len(l.cells) == 0)


def ml_next(eng, st, fr, t, name, rname, args):
    it = _liter_of(eng, st, args[0])
    if it is None:
        return NotImplemented
    pos = it.fields[0].v
    cells = it.fields[1].cells
    if pos < len(cells):
        it.fields[0] = K(pos + 1)
        return mk_option(RefV(cells[pos]))
    return mk_option(None)


def _ml_search(kind):
    def m(eng, st, fr, t, name, rname, args):
        it = _liter_of(eng, st, args[0])
        if it is None:
            return NotImplemented
        pos = it.fields[0].v
        cells = it.fields[1].cells[pos:]

        def advance(s, k):
            i2 = _liter_of(eng, s, eng.operand(s, s.frames[-1], t["args"][0]))
            if i2 is not None:
                i2.fields[0] = K(pos + k)

        if kind == "find":
            mk = lambda c: RefV(Cell(RefV(c), "itemref"))
            dec = lambda i, v, s: (advance(s, i + 1), ("stop", mk_option(RefV(_same_cell(s, eng, t, pos + i)))))[1] if v else ("go",)
            fin = lambda s: (advance(s, len(cells)), mk_option(None))[1]
        elif kind == "position":
            mk = lambda c: RefV(c)
            dec = lambda i, v, s: (advance(s, i + 1), ("stop", mk_option(K(i))))[1] if v else ("go",)
            fin = lambda s: (advance(s, len(cells)), mk_option(None))[1]
        elif kind == "any":
            mk = lambda c: RefV(c)
            dec = lambda i, v, s: (advance(s, i + 1), ("stop", K(True)))[1] if v else ("go",)
            fin = lambda s: (advance(s, len(cells)), K(False))[1]
        else:  # all
            mk = lambda c: RefV(c)
            dec = lambda i, v, s: ("go",) if v else (advance(s, i + 1), ("stop", K(False)))[1]
            fin = lambda s: (advance(s, len(cells)), K(True))[1]
        return _seq(eng, st, fr, t, cells, _arg_reader(t, 1, eng), mk, dec, fin)
    return m


def _same_cell(s, eng, t, idx):
    """the idx-th cell of the list as it exists in (possibly forked) state s"""
    it = _liter_of(eng, s, eng.operand(s, s.frames[-1], t["args"][0]))
    return it.fields[1].cells[idx]


def ml_split_first(eng, st, fr, t, name, rname, args):
    l = _list_of(eng, st, args[0])
    if l is None:
        return NotImplemented
    if not l.cells:
        return mk_option(None)
    last = name.endswith("split_last")
    head = l.cells[-1] if last else l.cells[0]
    rest = l.cells[:-1] if last else l.cells[1:]
    return mk_option(AggV("tuple", {0: RefV(head), 1: RefV(Cell(fdai.ListV(rest), "rest"))}))


def ml_first(eng, st, fr, t, name, rname, args):
    l = _list_of(eng, st, args[0])
    if l is None:
        return NotImplemented
    if not l.cells:
        return mk_option(None)
    is_last = name.split("::")[-1].startswith("last")
    return mk_option(RefV(l.cells[-1] if is_last else l.cells[0], (), name.endswith("_mut")))


def ml_get(eng, st, fr, t, name, rname, args):
    l = _list_of(eng, st, args[0])
    i = eng.resolve(st, args[1])
    if l is None or not (isinstance(i, K) and isinstance(i.v, int)):
        return NotImplemented
    return mk_option(RefV(l.cells[i.v])) if 0 <= i.v < len(l.cells) else mk_option(None)


LIST_MODELS = {
    "core::slice::split_first": ml_split_first,
    "core::slice::split_last": ml_split_first,
    "core::slice::first": ml_first,
    "core::slice::last": ml_first,
    "core::slice::first_mut": ml_first,
    "core::slice::last_mut": ml_first,
    "core::slice::get": ml_get,
    "core::slice::get_mut": ml_get,
    "core::slice::iter": ml_iter,
    "core::iter::IntoIterator::into_iter": ml_iter,
    "core::slice::len": ml_len,
    "core::slice::is_empty": ml_is_empty,
    "core::iter::Iterator::next": ml_next,
    "<core::slice::Iter<'a, T> as core::iter::Iterator>::next": ml_next,
    "core::iter::Iterator::find": _ml_search("find"),
    "<core::slice::Iter<'a, T> as core::iter::Iterator>::find": _ml_search("find"),
    "core::iter::Iterator::position": _ml_search("position"),
    "<core::slice::Iter<'a, T> as core::iter::Iterator>::position": _ml_search("position"),
    "core::iter::Iterator::any": _ml_search("any"),
    "<core::slice::Iter<'a, T> as core::iter::Iterator>::any": _ml_search("any"),
    "core::iter::Iterator::all": _ml_search("all"),
    "<core::slice::Iter<'a, T> as core::iter::Iterator>::all": _ml_search("all"),
}


def with_lists(models):
    """models extended so that slice/iterator calls work on ListV as well as on byte strings"""
    out = dict(models)
    for k, f in LIST_MODELS.items():
        out[k] = _or(f, models.get(k))
    return out


# ---- mutable iteration over a fixed-size array: the items are references into the array itself -----------------------
ARRAY_MUT_ITER = "array-mut-iter"


def m_array_iter_mut(eng, st, fr, t, name, rname, args):
    v = eng.resolve(st, args[0])
    loc = None
    n = 0
    while isinstance(v, RefV) and n < 6:
        loc = Loc(v.cell, v.path)
        v = eng.resolve(st, load(loc))
        n += 1
    if loc is None or not (isinstance(v, AggV) and v.kind == "array" and all(isinstance(k, int) for k in v.fields)):
        return NotImplemented
    return AggV(ARRAY_MUT_ITER, {0: K(0), 1: RefV(loc.cell, loc.path, True), 2: K(len(v.fields))})


def m_array_mut_next(eng, st, fr, t, name, rname, args):
    v = eng.resolve(st, args[0])
    n = 0
    while isinstance(v, RefV) and n < 6:
        v = eng.resolve(st, load(Loc(v.cell, v.path)))
        n += 1
    if not (isinstance(v, AggV) and v.kind == ARRAY_MUT_ITER):
        return NotImplemented
    pos, base, cnt = v.fields[0].v, v.fields[1], v.fields[2].v
    if pos < cnt:
        v.fields[0] = K(pos + 1)
        return mk_option(RefV(base.cell, base.path + (pos,), True))
    return mk_option(None)


def m_array_mut_into_iter(eng, st, fr, t, name, rname, args):
    v = eng.resolve(st, args[0])
    return v if isinstance(v, AggV) and v.kind == ARRAY_MUT_ITER else NotImplemented


# ---- integer helper methods on constants (saturating / wrapping / checked arithmetic, min / max) --------------------
import re as _re


def _int_ty(t):
    m = _re.search(r"<impl ([iu](?:8|16|32|64|128|size))>", (t.get("callee") or {}).get("path") or "")
    return m.group(1) if m else None


def _int_model(op):
    def m(eng, st, fr, t, name, rname, args):
        ty = _int_ty(t)
        rng = fdai._INT_RANGE.get(ty) if ty else None
        vals = [eng.resolve(st, a) for a in args]
        if rng is None or len(vals) != 2 or not all(isinstance(v, K) and isinstance(v.v, int) and not isinstance(v.v, bool) for v in vals):
            return NotImplemented
        a, b = vals[0].v, vals[1].v
        lo, hi = rng
        kind, f = op
        try:
            x = f(a, b)
        except ZeroDivisionError:
            return NotImplemented
        inr = lo <= x <= hi
        if kind == "saturating":
            return K(min(max(x, lo), hi))
        if kind == "wrapping":
            return K((x - lo) % (hi - lo + 1) + lo)
        if kind == "checked":
            return mk_option(K(x)) if inr else mk_option(None)
        return K(x)
    return m


INT_MODELS = {}
for _k, _f in (("add", lambda a, b: a + b), ("sub", lambda a, b: a - b), ("mul", lambda a, b: a * b)):
    for _kind in ("saturating", "wrapping", "checked"):
        for _pfx in ("core::num::", "core::num::<impl usize>::", "core::num::<impl u8>::", "core::num::<impl isize>::", "core::num::<impl u32>::", "core::num::<impl i32>::", "core::num::<impl u64>::", "core::num::<impl i64>::", "core::num::<impl u16>::", "core::num::<impl i16>::"):
            INT_MODELS["%s%s_%s" % (_pfx, _kind, _k)] = _int_model((_kind, _f))
for _pfx in ("core::num::", "core::num::<impl usize>::", "core::num::<impl isize>::", "core::num::<impl u8>::"):
    INT_MODELS[_pfx + "abs_diff"] = _int_model(("plain", lambda a, b: abs(a - b)))


def m_ord_minmax(which):
    def m(eng, st, fr, t, name, rname, args):
        vals = [eng.resolve(st, a) for a in args]
        if len(vals) != 2 or not all(isinstance(v, K) and isinstance(v.v, int) and not isinstance(v.v, bool) for v in vals):
            return NotImplemented
        return K(min(vals[0].v, vals[1].v) if which == "min" else max(vals[0].v, vals[1].v))
    return m


for _w in ("min", "max"):
    INT_MODELS["core::cmp::Ord::" + _w] = m_ord_minmax(_w)
    INT_MODELS["core::cmp::" + _w] = m_ord_minmax(_w)
    INT_MODELS["core::cmp::impls::" + _w] = m_ord_minmax(_w)


FOLD_MODELS = dict(BYTE_MODELS)
FOLD_MODELS.update(INT_MODELS)
_FOLD_ARRAY_MUT = True
FOLD_MODELS.update({
    "core::slice::iter": m_slice_iter,
    "core::slice::len": m_slice_len,
    "<core::slice::Iter<'a, T> as core::iter::Iterator>::next": m_bytes_next2,
    "<core::slice::Iter<'a, T> as core::iter::Iterator>::nth": m_bytes_nth2,
    "<core::slice::Iter<'a, T> as core::iter::Iterator>::all": m_iter_all,
    "<core::slice::Iter<'a, T> as core::iter::Iterator>::rposition": m_iter_rposition,
    "<core::slice::Iter<'a, T> as core::iter::Iterator>::position": m_iter_position,
    "core::iter::Iterator::all": m_iter_all,
    "core::iter::Iterator::rposition": m_iter_rposition,
    "core::iter::Iterator::position": m_iter_position,
    "core::iter::Iterator::take_while": m_take_while,
    "core::iter::Iterator::count": m_iter_count,
    "core::slice::split": m_slice_split,
    "<core::slice::Split<'a, T, P> as core::iter::Iterator>::next": m_split_next,
    "core::slice::split_at": m_split_at,
    "core::slice::index::index": m_slice_index,
    "core::ops::Index::index": m_slice_index,
    "core::cmp::PartialEq::eq": m_eq_any,
    "core::cmp::PartialEq::ne": m_eq_any,
    "core::iter::IntoIterator::into_iter": _or(m_range_into_iter, m_into_iter) if False else m_into_iter,
    "core::iter::range::<impl core::iter::Iterator for core::ops::Range<A>>::next": m_range_next,
    "core::iter::Iterator::next": m_range_next,
    "core::iter::from_fn": m_from_fn,
    "<core::iter::FromFn<F> as core::iter::Iterator>::next": m_fromfn_next,
    "core::iter::Iterator::for_each": m_for_each,
    "core::slice::Iter::as_slice": m_as_slice,
    "core::slice::starts_with": m_starts_with,
    "core::slice::ends_with": m_starts_with,
    "core::slice::first": m_slice_first,
    "core::slice::last": m_slice_first,
    "core::slice::get": m_slice_get,
    "core::slice::is_empty": m_slice_is_empty,
    "core::slice::contains": m_slice_contains,
    "core::slice::split_first": m_split_first,
    "core::slice::split_last": m_split_last,
    "core::cmp::impls::eq": m_bytes_eq,
    "core::slice::ascii::eq_ignore_ascii_case": m_bytes_eq_nocase,
    "core::num::eq_ignore_ascii_case": m_u8_eq_nocase,
})


def outcome_inner(r):
    """error codes nested anywhere in the returned value (e.g. Some(Err(code)) of an iterator)"""
    if r.outcome != "return":
        return r.outcome
    return ",".join(sorted(err_codes(r.retval)))


# ---- bounded and reverse splits of a byte slice: the pieces, eagerly ----------------------------------------------------------
def m_slice_splitn(kind):
    """`s.splitn(n, pred)`, `s.rsplitn(n, pred)`, `s.rsplit(pred)`, `s.split_inclusive(pred)`: the predicate is folded on every
    byte (it must be decided for each), the pieces are handed out as an item sequence in the order the iterator yields them"""
    def model(eng, st, fr, t, name, rname, args):
        from . import itermodels as IT
        b = _bytes_of(eng, st, args[0])
        if b is None:
            return NotImplemented
        data = list(b)
        off = _off(eng, st, args[0])
        if kind in ("splitn", "rsplitn"):
            n = eng.resolve(st, args[1])
            if not isinstance(n, K):
                return NotImplemented
            n, clo = int(n.v), args[2]
        else:
            n, clo = None, args[1]
        hits = []
        for i, x in enumerate(data):
            res = eng.call_closure(st, fr, clo, [RefV(Cell(K(x), "item"))], None)
            if len(res) != 1 or res[0][0] is not st:
                return NotImplemented
            v = eng.resolve(st, res[0][1])
            if not isinstance(v, K):
                return NotImplemented
            if v.v:
                hits.append(i)

        def piece(lo, hi):
            return _mkslice(data[lo:hi], None if off is None else off + lo)
        out = []
        if kind == "split_inclusive":
            lo = 0
            for h in hits:
                out.append(piece(lo, h + 1))
                lo = h + 1
            if lo < len(data):
                out.append(piece(lo, len(data)))
        elif kind in ("rsplitn", "rsplit"):
            hi = len(data)
            use = list(reversed(hits))
            if n is not None:
                if n == 0:
                    return IT.mk([])
                use = use[:n - 1]
            for h in use:
                out.append(piece(h + 1, hi))
                hi = h
            out.append(piece(0, hi))
        else:
            lo = 0
            use = hits if n is None else hits[:max(n - 1, 0)]
            if n == 0:
                return IT.mk([])
            for h in use:
                out.append(piece(lo, h))
                lo = h + 1
            out.append(piece(lo, len(data)))
        return IT.mk(out)
    return model


def m_strip(kind):
    """`s.strip_prefix(p)` / `s.strip_suffix(p)` on byte slices: Some(rest) when s starts / ends with p"""
    def model(eng, st, fr, t, name, rname, args):
        a, b_ = _bytes_of(eng, st, args[0]), _bytes_of(eng, st, args[1])
        if a is None or b_ is None:
            return NotImplemented
        a, b_ = bytes(a), bytes(b_)
        off = _off(eng, st, args[0])
        if kind == "prefix":
            return mk_option(_mkslice(a[len(b_):], None if off is None else off + len(b_))) if a.startswith(b_) else mk_option(None)
        return mk_option(_mkslice(a[:len(a) - len(b_)], off)) if a.endswith(b_) else mk_option(None)
    return model


FOLD_MODELS.update({"core::slice::strip_prefix": m_strip("prefix"), "core::slice::strip_suffix": m_strip("suffix")})
FOLD_MODELS.update({"core::slice::splitn": m_slice_splitn("splitn"), "core::slice::rsplitn": m_slice_splitn("rsplitn"),
                    "core::slice::rsplit": m_slice_splitn("rsplit"), "core::slice::split_inclusive": m_slice_splitn("split_inclusive")})


# ---- predicates of f32 / f64 on concrete floats ---------------------------------------------------------------------------
import math as _math


def _float_arg(eng, st, v):
    v = eng.resolve(st, v)
    n = 0
    while isinstance(v, RefV) and n < 4:
        v = eng.resolve(st, fdai.load(fdai.Loc(v.cell, v.path)))
        n += 1
    return v if fdai.is_float(v) else None


def _fp_category(x, width):
    if x != x:
        return "Nan", 0
    if _math.isinf(x):
        return "Infinite", 1
    if x == 0:
        return "Zero", 2
    tiny = 2.2250738585072014e-308 if width == 64 else 1.1754943508222875e-38
    return ("Subnormal", 3) if abs(x) < tiny else ("Normal", 4)


def m_float_pred(kind):
    def model(eng, st, fr, t, name, rname, args):
        v = _float_arg(eng, st, args[0]) if args else None
        if v is None:
            return NotImplemented
        x, w = fdai.float_of(v), int(v.fields[1].v)
        cat = _fp_category(x, w)
        if kind == "is_nan":
            return K(x != x)
        if kind == "is_infinite":
            return K(_math.isinf(x))
        if kind == "is_finite":
            return K(not (_math.isinf(x) or x != x))
        if kind == "is_sign_negative":
            return K(_math.copysign(1.0, x) < 0)
        if kind == "is_sign_positive":
            return K(_math.copysign(1.0, x) > 0)
        if kind == "is_normal":
            return K(cat[0] == "Normal")
        if kind == "is_subnormal":
            return K(cat[0] == "Subnormal")
        if kind == "classify":
            return EnumV("core::num::FpCategory", cat[0], cat[1], {})
        if kind == "abs":
            return fdai.mk_float(abs(x), w)
        return NotImplemented
    return model


FLOAT_MODELS = {}
for _w in ("f32", "f64"):
    for _k in ("is_nan", "is_infinite", "is_finite", "is_sign_negative", "is_sign_positive", "is_normal", "is_subnormal", "classify", "abs"):
        FLOAT_MODELS["core::%s::%s" % (_w, _k)] = m_float_pred(_k)
        FLOAT_MODELS["std::%s::%s" % (_w, _k)] = m_float_pred(_k)


# ---- generic item-sequence iterator models (sa/itermodels.py) ------------------------------------------------------
def _install_itermodels():
    import sys
    from . import itermodels as IT
    me = sys.modules[__name__]
    adaptors, consumers, take_while, _wf = IT.build(me)
    for k, f in adaptors.items():
        FOLD_MODELS[k] = _or(FOLD_MODELS[k], f) if k in FOLD_MODELS else f
    for k, f in consumers.items():
        FOLD_MODELS[k] = _or(FOLD_MODELS[k], f) if k in FOLD_MODELS else f
    k = "core::iter::Iterator::take_while"
    FOLD_MODELS[k] = _or(FOLD_MODELS[k], take_while) if k in FOLD_MODELS else take_while
    k = "core::iter::IntoIterator::into_iter"
    prev = FOLD_MODELS.get(k)

    def into_iter(eng, st, fr, t, name, rname, args):
        v = eng.resolve(st, args[0])
        if isinstance(v, AggV) and v.kind == IT.ITEMS:
            return v
        return prev(eng, st, fr, t, name, rname, args) if prev else NotImplemented
    FOLD_MODELS[k] = into_iter
    # for_each over an items iterator
    k = "core::iter::Iterator::for_each"
    prevfe = FOLD_MODELS.get(k)

    def for_each(eng, st, fr, t, name, rname, args):
        v = IT._deref(eng, st, args[0])
        if isinstance(v, AggV) and v.kind == IT.ITEMS:
            items = v.fields[1].items[v.fields[0].v:]
            out = []
            work = [(st, 0)]
            while work:
                s, i = work.pop()
                if s.outcome is not None:
                    out.append((s, TOP))
                    continue
                if i >= len(items):
                    out.append((s, UNIT))
                    continue
                f2 = s.frames[-1]
                for s2, _ in eng.call_closure(s, f2, eng.operand(s, f2, t["args"][1]), [items[i]], t):
                    work.append((s2, i + 1))
            return out
        return prevfe(eng, st, fr, t, name, rname, args) if prevfe else NotImplemented
    FOLD_MODELS[k] = for_each


_install_itermodels()


from .fdai import m_array_into_iter, m_array_into_next, ARRAY_INTO_ITER


def _install_array_mut():
    k = "core::iter::IntoIterator::into_iter"
    FOLD_MODELS[k] = _or(m_array_into_iter, FOLD_MODELS.get(k))
    for k in ("core::iter::Iterator::next", "<core::array::IntoIter<T, N> as core::iter::Iterator>::next"):
        FOLD_MODELS[k] = _or(m_array_into_next, FOLD_MODELS.get(k))
    FOLD_MODELS["core::slice::iter_mut"] = _or(m_array_iter_mut, FOLD_MODELS.get("core::slice::iter_mut"))
    for k in ("core::iter::Iterator::next", "<core::slice::IterMut<'a, T> as core::iter::Iterator>::next"):
        FOLD_MODELS[k] = _or(m_array_mut_next, FOLD_MODELS.get(k))
    k = "core::iter::IntoIterator::into_iter"
    FOLD_MODELS[k] = _or(m_array_mut_into_iter, FOLD_MODELS.get(k))


_install_array_mut()


# ---- round-5 additions: more of core by contract ------------------------------------------------------------------------------
_ITYS = ("u8", "i8", "u16", "i16", "u32", "i32", "u64", "i64", "u128", "i128", "usize", "isize")


def _kint(eng, st, v):
    v = eng.resolve(st, v)
    n = 0
    while isinstance(v, RefV) and n < 4:
        v = eng.resolve(st, load(Loc(v.cell, v.path)))
        n += 1
    return v.v if isinstance(v, K) and isinstance(v.v, int) and not isinstance(v.v, bool) else None


def m_int_unary(f):
    def m(eng, st, fr, t, name, rname, args):
        x = _kint(eng, st, args[0])
        if x is None:
            return NotImplemented
        return f(x, _int_ty(t))
    return m


def _wrap(x, ty):
    rng = fdai._INT_RANGE.get(ty or "")
    if rng is None:
        return K(x)
    lo, hi = rng
    return K((x - lo) % (hi - lo + 1) + lo)


def m_int_from(eng, st, fr, t, name, rname, args):
    """`T::from(x)` / `x.into()` between integer types (lossless by construction): the same number"""
    g = [str(x) for x in eng.concrete_gargs(st, t["callee"])]
    x = _kint(eng, st, args[0])
    if x is None or not g or not all(y in _ITYS for y in g[:2]):
        return NotImplemented
    return K(x)


for _ty in _ITYS:
    _p = "core::num::<impl %s>::" % _ty
    INT_EXTRA = globals().setdefault("INT_EXTRA", {})
    INT_EXTRA[_p + "unsigned_abs"] = m_int_unary(lambda x, ty: K(abs(x)))
    INT_EXTRA[_p + "abs"] = m_int_unary(lambda x, ty: _wrap(abs(x), ty))
    INT_EXTRA[_p + "wrapping_neg"] = m_int_unary(lambda x, ty: _wrap(-x, ty))
    INT_EXTRA[_p + "wrapping_abs"] = m_int_unary(lambda x, ty: _wrap(abs(x), ty))
    INT_EXTRA[_p + "is_negative"] = m_int_unary(lambda x, ty: K(x < 0))
    INT_EXTRA[_p + "is_positive"] = m_int_unary(lambda x, ty: K(x > 0))
    INT_EXTRA[_p + "signum"] = m_int_unary(lambda x, ty: K((x > 0) - (x < 0)))
    INT_EXTRA[_p + "trailing_zeros"] = m_int_unary(lambda x, ty: K((x & -x).bit_length() - 1 if x else (fdai._INT_RANGE[ty][1].bit_length() + (1 if fdai._INT_RANGE[ty][0] < 0 else 0) if ty in fdai._INT_RANGE else 0)))
    INT_EXTRA[_p + "count_ones"] = m_int_unary(lambda x, ty: K(bin(x & ((1 << 128) - 1)).count("1")))
for _n in ("unsigned_abs", "abs", "wrapping_neg", "wrapping_abs", "is_negative", "is_positive", "signum", "trailing_zeros", "count_ones"):
    INT_EXTRA["core::num::" + _n] = INT_EXTRA["core::num::<impl i32>::" + _n]
INT_EXTRA["core::convert::From::from"] = _or(m_int_from, fdai.DEFAULT_MODELS.get("core::convert::From::from"))
INT_EXTRA["core::convert::Into::into"] = _or(m_int_from, fdai.DEFAULT_MODELS.get("core::convert::Into::into"))
INT_EXTRA["<T as core::convert::Into<U>>::into"] = _or(m_int_from, fdai.DEFAULT_MODELS.get("<T as core::convert::Into<U>>::into"))


def m_try_for_each(eng, st, fr, t, name, rname, args):
    """iter.try_for_each(f): f on every item in order until it returns Err / None (that value is the result)"""
    from . import itermodels as IM
    xs = IM.materialise(eng, st, args[0], sys.modules[__name__])
    if xs is None:
        return NotImplemented
    out = []
    work = [(st, 0)]
    guard = 0
    while work:
        s, i = work.pop()
        guard += 1
        if guard > 4000:
            raise fdai.TooManyPaths("try_for_each")
        if s.outcome is not None:
            out.append((s, TOP))
            continue
        if i >= len(xs):
            g = [str(x) for x in eng.concrete_gargs(s, t["callee"])]
            is_opt = any("option::Option" in x for x in g)
            out.append((s, mk_option(fdai.UNIT) if is_opt else fdai.mk_ok(fdai.UNIT)))
            continue
        f2 = s.frames[-1]
        fv = eng.operand(s, f2, t["args"][1])
        for s2, v in eng.call_closure(s, f2, fv, [xs[i]], t):
            if s2.outcome is not None:
                out.append((s2, TOP))
                continue
            v = eng.resolve(s2, v)
            if isinstance(v, EnumV) and v.name in ("Ok", "Some"):
                work.append((s2, i + 1))
            elif isinstance(v, EnumV) and v.name in ("Err", "None"):
                out.append((s2, v))
            else:
                parts = fdai.split_result(eng, s2, s2.frames[-1], t, v) if not (isinstance(v, EnumV) and v.adt and "Option" in v.adt) else fdai.split_option(eng, s2, s2.frames[-1], t, v)
                for s3, ev in parts:
                    if ev.name in ("Ok", "Some"):
                        work.append((s3, i + 1))
                    else:
                        out.append((s3, ev))
    return out


import sys
ROUND5_MODELS = dict(INT_EXTRA)
ROUND5_MODELS["core::iter::Iterator::try_for_each"] = m_try_for_each
FOLD_MODELS.update({k: v for k, v in ROUND5_MODELS.items() if k not in FOLD_MODELS or k.startswith("core::convert::")})


def m_int_try_from(eng, st, fr, t, name, rname, args):
    """checked integer narrowing / widening: `T::try_from(x)`, `x.try_into()` between integer types"""
    g = [str(x) for x in eng.concrete_gargs(st, t["callee"])]
    x = _kint(eng, st, args[0])
    if x is None or len(g) < 2 or not all(y in _ITYS for y in g[:2]):
        return NotImplemented
    dst = g[1] if name.endswith("try_into") else g[0]
    lo, hi = fdai._INT_RANGE[dst]
    return fdai.mk_ok(K(x)) if lo <= x <= hi else fdai.mk_err(SymV("TryFromIntError", "TryFromIntError"))


for _k in ("core::convert::TryFrom::try_from", "core::convert::TryInto::try_into"):
    FOLD_MODELS[_k] = _or(m_int_try_from, FOLD_MODELS.get(_k))


def m_array_slice_iter(eng, st, fr, t, name, rname, args):
    """`.iter()` on a (fixed-size) array value whose elements are not bytes (a table of tuples, of enum values ...): the
    elements by reference, in order"""
    from . import itermodels as IM
    v = eng.resolve(st, args[0])
    base = None
    n = 0
    while isinstance(v, RefV) and n < 6:
        base = v
        v = eng.resolve(st, load(Loc(v.cell, v.path)))
        n += 1
    if isinstance(v, AggV) and v.kind == "array" and v.fields and all(isinstance(i, int) for i in v.fields):
        items = []
        for i in sorted(v.fields):
            items.append(RefV(base.cell, tuple(base.path) + (i,)) if base is not None else RefV(Cell(v.fields[i], "elem%d" % i)))
        return IM.mk(items)
    return NotImplemented


for _k in ("core::slice::iter", "core::slice::<impl [T]>::iter"):
    FOLD_MODELS[_k] = _or(FOLD_MODELS.get(_k), m_array_slice_iter) if FOLD_MODELS.get(_k) else m_array_slice_iter
