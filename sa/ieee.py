"""Exact IEEE-754 binary arithmetic on rationals (round-to-nearest-even), for evaluating guard
thresholds exactly in the intermediate float format. Values: Fraction | 'nan' | '+inf' | '-inf'."""
from fractions import Fraction

FORMATS = {"f32": (24, -126, 127), "f64": (53, -1022, 1023)}
NAN, PINF, NINF = "nan", "+inf", "-inf"


def is_special(x):
    return isinstance(x, str)


def max_finite(fmt):
    p, emin, emax = FORMATS[fmt]
    return (Fraction(2) - Fraction(1, 2 ** (p - 1))) * Fraction(2) ** emax


def min_subnormal(fmt):
    p, emin, emax = FORMATS[fmt]
    return Fraction(1, 2 ** (-(emin - (p - 1))))


def rnd(q, fmt):
    """Round rational q to the nearest representable value (ties to even); overflow -> inf."""
    if is_special(q):
        return q
    q = Fraction(q)
    if q == 0:
        return Fraction(0)
    p, emin, emax = FORMATS[fmt]
    s = 1 if q > 0 else -1
    a = abs(q)
    # exponent e with 2^e <= a < 2^(e+1)
    e = a.numerator.bit_length() - a.denominator.bit_length()
    if Fraction(2) ** e > a:
        e -= 1
    elif Fraction(2) ** (e + 1) <= a:
        e += 1
    e = max(e, emin)
    ulp = Fraction(2) ** (e - (p - 1))
    n = a / ulp
    fl = n.numerator // n.denominator
    rem = n - fl
    if rem > Fraction(1, 2) or (rem == Fraction(1, 2) and fl % 2 == 1):
        fl += 1
    r = fl * ulp
    if r > max_finite(fmt):
        return PINF if s > 0 else NINF
    return s * r


def from_bits(bits, width):
    fmt = "f32" if width == 32 else "f64"
    p, emin, emax = FORMATS[fmt]
    ebits = width - p
    sign = -1 if (bits >> (width - 1)) & 1 else 1
    exp = (bits >> (p - 1)) & ((1 << ebits) - 1)
    man = bits & ((1 << (p - 1)) - 1)
    if exp == (1 << ebits) - 1:
        if man:
            return NAN
        return PINF if sign > 0 else NINF
    if exp == 0:
        return sign * Fraction(man) * Fraction(2) ** (emin - (p - 1))
    return sign * (Fraction(1) + Fraction(man, 2 ** (p - 1))) * Fraction(2) ** (exp - emax)


def add(a, b, fmt):
    if a == NAN or b == NAN:
        return NAN
    if is_special(a) or is_special(b):
        if is_special(a) and is_special(b):
            return a if a == b else NAN
        return a if is_special(a) else b
    return rnd(a + b, fmt)


def neg(a):
    if a == NAN:
        return NAN
    if a == PINF:
        return NINF
    if a == NINF:
        return PINF
    return -a


def sub(a, b, fmt):
    return add(a, neg(b), fmt)


def _key(a):
    if a == PINF:
        return (1, 0)
    if a == NINF:
        return (-1, 0)
    return (0, a)


def cmp(op, a, b):
    if a == NAN or b == NAN:
        return op == "Ne"
    ka, kb = _key(a), _key(b)
    return {"Lt": ka < kb, "Le": ka <= kb, "Gt": ka > kb, "Ge": ka >= kb, "Eq": ka == kb, "Ne": ka != kb}[op]


def next_up(a, fmt):
    """Smallest representable value > a (a finite rational, not necessarily representable)."""
    r = rnd(a, fmt)
    if is_special(r):
        return r
    if r > a:
        return r
    p, emin, emax = FORMATS[fmt]
    if r == 0:
        return min_subnormal(fmt)
    # step by ulp of r (towards +inf)
    ar = abs(r)
    e = ar.numerator.bit_length() - ar.denominator.bit_length()
    if Fraction(2) ** e > ar:
        e -= 1
    elif Fraction(2) ** (e + 1) <= ar:
        e += 1
    e = max(e, emin)
    ulp = Fraction(2) ** (e - (p - 1))
    if r < 0 and ar == Fraction(2) ** e and e > emin:
        ulp = ulp / 2
    cand = r + ulp
    return rnd(cand, fmt)


def next_down(a, fmt):
    x = next_up(-Fraction(a), fmt)
    return neg(x)


def floor_float(a, fmt):
    """Largest representable value <= a."""
    r = rnd(a, fmt)
    if is_special(r):
        return neg(max_finite(fmt)) if r == NINF else max_finite(fmt)
    return r if r <= a else next_down_repr(r, fmt)


def next_down_repr(r, fmt):
    """predecessor of representable r"""
    return neg(succ_repr(-r, fmt))


def succ_repr(r, fmt):
    """successor of representable r"""
    p, emin, emax = FORMATS[fmt]
    if r == 0:
        return min_subnormal(fmt)
    ar = abs(r)
    e = ar.numerator.bit_length() - ar.denominator.bit_length()
    if Fraction(2) ** e > ar:
        e -= 1
    elif Fraction(2) ** (e + 1) <= ar:
        e += 1
    e = max(e, emin)
    ulp = Fraction(2) ** (e - (p - 1))
    if r < 0 and ar == Fraction(2) ** e and e > emin:
        ulp = ulp / 2
    return rnd(r + ulp, fmt)


def ceil_float(a, fmt):
    """Smallest representable value >= a."""
    r = rnd(a, fmt)
    if is_special(r):
        return r
    return r if r >= a else succ_repr(r, fmt)


def float_below(a, fmt):
    """Largest representable value strictly < a."""
    r = floor_float(a, fmt)
    if r == a:
        return next_down_repr(r, fmt)
    return r


def float_above(a, fmt):
    r = ceil_float(a, fmt)
    if r == a:
        return succ_repr(r, fmt)
    return r


def trunc_to_int(a, lo, hi):
    """Rust `as` cast float -> int: truncation, saturating, NaN -> 0."""
    if a == NAN:
        return 0
    if a == PINF:
        return hi
    if a == NINF:
        return lo
    t = a.numerator // a.denominator if a >= 0 else -((-a).numerator // (-a).denominator)
    return max(lo, min(hi, t))
