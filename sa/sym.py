"""Symbolic expressions for MIR operands: inlines single-assignment temporaries so that rules can
pattern-match dataflow ("the value stored is esr() | err.esr_mask()") independent of how rustc
numbered the temporaries.

Expression forms (tuples):
  ('arg', n, name)                 function argument
  ('var', n, name)                 multiply-assigned / partially assigned local (loop-carried etc.)
  ('int', v, ty) ('bool', b) ('bytes', b) ('float', bits, width) ('fn', path) ('static', path)
  ('promoted', idx) ('const', ty, repr)
  ('field', e, name) ('deref', e) ('ref', e, mut) ('downcast', e, variant) ('index', e, i)
  ('call', name, rname, (args...), bi)     call result (bi = block of the call site)
  ('binop', op, a, b) ('unop', op, a) ('cast', kind, e, ty, from) ('discr', e)
  ('aggr', kind, adt, variant, (fields...)) ('closure', def, (captures...))
  ('repeat', e, count) ('other', repr)
"""
from .facts import strip_generics


def const_expr(c):
    if "promoted" in c:
        return ("promoted", c["promoted"])
    if "int" in c:
        return ("int", int(c["int"]), c["ty"])
    if "bool" in c:
        return ("bool", bool(c["bool"]))
    if "fbits" in c:
        return ("float", int(c["fbits"]), c["fwidth"])
    if "bytes" in c:
        return ("bytes", bytes(c["bytes"]))
    if "fn" in c:
        return ("fn", strip_generics(c["fn"]), tuple(c.get("gargs", [])))
    if "static" in c:
        return ("static", c["static"])
    if "zst" in c:
        return ("const", c["ty"], "zst")
    return ("const", c.get("ty"), c.get("def") or c.get("uneval") or "?")


class Sym:
    def __init__(self, mir, maxdepth=60):
        self.mir = mir
        self.maxdepth = maxdepth
        self._full = None
        self._memo = {}

    def _defs(self):
        """local -> list of whole-local definitions; locals with partial stores are marked None."""
        if self._full is None:
            d = {}
            partial = set()
            for l, lst in self.mir.assigns().items():
                for (bi, si, st) in lst:
                    place = st["dest"] if si == "term" else st["place"]
                    if place["proj"]:
                        partial.add(l)
                    else:
                        d.setdefault(l, []).append((bi, si, st))
            # locals whose address is taken mutably may be written elsewhere
            for bi in self.mir.live_blocks():
                for st in self.mir.blocks[bi]["stmts"]:
                    if st["k"] == "assign" and st["rv"]["k"] in ("ref", "rawptr") and st["rv"].get("mut", True):
                        if not st["rv"]["place"]["proj"]:
                            partial.add(st["rv"]["place"]["l"])
            self._full = (d, partial)
        return self._full

    def local(self, l, depth=0):
        key = l
        if key in self._memo:
            return self._memo[key]
        d, partial = self._defs()
        name = self.mir.local_name(l)
        defs = d.get(l, [])
        if 1 <= l <= self.mir.arg_count and not defs:
            r = ("arg", l, name)
        elif len(defs) == 1 and l not in partial and depth < self.maxdepth:
            self._memo[key] = ("var", l, name)  # cycle guard
            bi, si, st = defs[0]
            if si == "term":
                r = self.call_expr(st, bi, depth + 1)
            elif st["k"] == "assign":
                r = self.rvalue(st["rv"], depth + 1)
            else:
                r = ("var", l, name)
        else:
            r = ("var", l, name)
        self._memo[key] = r
        return r

    def defs_of(self, l):
        """Expressions of all whole-local definitions of `l` (regardless of its address being taken)."""
        d, _ = self._defs()
        out = []
        for bi, si, st in d.get(l, []):
            if si == "term":
                out.append(self.call_expr(st, bi, 1))
            elif st["k"] == "assign":
                out.append(self.rvalue(st["rv"], 1))
        return out

    def call_expr(self, term, bi, depth=0):
        c = term["callee"]
        if "indirect" in c:
            name = rname = "<indirect>"
        else:
            name = self.mir.unit.qualify(strip_generics(c["path"]), c.get("krate"))
            rname = self.mir.unit.qualify(strip_generics(c["resolved"]), c.get("resolved_krate")) if c.get("resolved") else name
        return ("call", name, rname, tuple(self.operand(a, depth + 1) for a in term["args"]), bi)

    def place(self, p, depth=0):
        e = self.local(p["l"], depth)
        for pr in p["proj"]:
            k = pr["k"]
            if k == "deref":
                e = e[1] if e[0] == "ref" else ("deref", e)
            elif k == "field":
                e = self._field(e, pr["name"], pr["i"])
            elif k == "downcast":
                e = ("downcast", e, pr["v"])
            elif k == "index":
                e = ("index", e, self.local(pr["l"], depth))
            else:
                e = (k, e)
        return e

    @staticmethod
    def _field(e, name, idx):
        # field of a known aggregate
        if e[0] == "aggr" and e[1] in ("tuple",) and idx < len(e[4]):
            return e[4][idx]
        if e[0] == "downcast" and e[1][0] == "aggr" and e[1][3] == e[2] and idx < len(e[1][4]):
            return e[1][4][idx]
        return ("field", e, name)

    def operand(self, o, depth=0):
        k = o["k"]
        if k in ("copy", "move"):
            return self.place(o["place"], depth)
        if k == "const":
            return const_expr(o["c"])
        if k == "expr":
            # a pre-computed expression (used when a site is re-examined in the context of a call site)
            return o["e"]
        return ("other", o.get("dbg", "?"))

    def rvalue(self, rv, depth=0):
        k = rv["k"]
        if k == "use":
            return self.operand(rv["a"], depth)
        if k == "ref":
            return ("ref", self.place(rv["place"], depth), rv["mut"])
        if k == "rawptr":
            return ("ref", self.place(rv["place"], depth), True)
        if k == "cast":
            inner = self.operand(rv["a"], depth)
            if rv["kind"].startswith("PointerCoercion(Unsize") or rv["kind"] == "PointerCoercion(Unsize)":
                return inner if inner[0] != "ref" else ("ref", inner[1], inner[2])
            return ("cast", rv["kind"], inner, rv["ty"], rv.get("from"))
        if k == "binop":
            return ("binop", rv["op"], self.operand(rv["a"], depth), self.operand(rv["b"], depth))
        if k == "unop":
            return ("unop", rv["op"], self.operand(rv["a"], depth))
        if k == "discr":
            return ("discr", self.place(rv["place"], depth), rv.get("adt") or "")
        if k == "aggr":
            fs = tuple(self.operand(f, depth) for f in rv["fields"])
            if rv["agg"] == "adt":
                return ("aggr", "adt", rv["adt"], rv["variant"], fs)
            if rv["agg"] == "closure":
                return ("closure", rv["def"], fs)
            return ("aggr", rv["agg"], None, None, fs)
        if k == "repeat":
            return ("repeat", self.operand(rv["a"], depth), rv["count"])
        return ("other", rv.get("dbg", k))


def walk(e):
    """Pre-order traversal of all sub-expressions."""
    yield e
    for x in e[1:]:
        if isinstance(x, tuple):
            if x and isinstance(x[0], str):
                for y in walk(x):
                    yield y
            else:
                for z in x:
                    if isinstance(z, tuple) and z and isinstance(z[0], str):
                        for y in walk(z):
                            yield y


def calls_in(e):
    return [x for x in walk(e) if x[0] == "call"]


def norm(e):
    """Remove every ref/deref node: the 'ignoring indirection' view used for matching."""
    if not isinstance(e, tuple) or not e or not isinstance(e[0], str):
        return e
    if e[0] in ("ref", "deref"):
        return norm(e[1])
    out = []
    for x in e:
        if isinstance(x, tuple) and x and isinstance(x[0], str):
            out.append(norm(x))
        elif isinstance(x, tuple):
            out.append(tuple(norm(y) for y in x))
        else:
            out.append(x)
    return tuple(out)


def strip_refs(e):
    while e[0] in ("ref", "deref"):
        e = e[1]
    return e


def show(e, depth=0):
    k = e[0]
    if depth > 12:
        return "…"
    if k in ("arg", "var"):
        return "%s%s" % (e[2] or "_", "" if e[2] else e[1])
    if k == "int":
        return str(e[1])
    if k == "bool":
        return str(e[1]).lower()
    if k == "bytes":
        return "b%r" % e[1].decode("latin1")
    if k == "field":
        return "%s.%s" % (show(e[1], depth + 1), e[2])
    if k == "deref":
        return "*%s" % show(e[1], depth + 1)
    if k == "ref":
        return "&%s" % show(e[1], depth + 1)
    if k == "downcast":
        return "(%s as %s)" % (show(e[1], depth + 1), e[2])
    if k == "call":
        return "%s(%s)" % (e[1].split("::")[-1], ", ".join(show(a, depth + 1) for a in e[3]))
    if k == "binop":
        return "(%s %s %s)" % (show(e[2], depth + 1), e[1], show(e[3], depth + 1))
    if k == "unop":
        return "%s(%s)" % (e[1], show(e[2], depth + 1))
    if k == "cast":
        return "(%s as %s)" % (show(e[2], depth + 1), e[3])
    if k == "discr":
        return "discr(%s)" % show(e[1], depth + 1)
    if k == "aggr":
        return "%s::%s(%s)" % ((e[2] or "").split("::")[-1], e[3], ", ".join(show(a, depth + 1) for a in e[4]))
    return str(e)
