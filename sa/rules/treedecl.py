"""The command tree a device declares with the library's macros, evaluated as a constant.

`witness/wiring` declares `pub const TREE: Node<Dev> = Root![ieee488_*!(), scpi_status!(), scpi_system!()]` the way the
README does. The constant's MIR (the macro expansions) is folded by the FDAI engine - constructors of the handler types are
opaque values naming their type - which yields the tree itself: node kind, mnemonic, default flag, handler type with its
generic arguments. Rules compare it with the tree IEEE 488.2 / SCPI-99 prescribe for these subsystems."""
from .. import facts, fdai, scpi_models as M
from ..fdai import EnumV, AggV, K, RefV, Cell, Loc, ListV, BytesV, load

_C = {}


def _deref(v, n=0):
    while isinstance(v, RefV) and n < 8:
        v = load(Loc(v.cell, v.path))
        n += 1
    return v


def _node(v):
    v = _deref(v)
    if not isinstance(v, EnumV) or v.name not in ("Leaf", "Branch"):
        return None
    name = _deref(v.fields.get(0))
    dflt = _deref(v.fields.get(1))
    third = _deref(v.fields.get(2))
    out = {"kind": v.name, "name": bytes(name.b) if isinstance(name, BytesV) else None, "default": dflt.v if isinstance(dflt, K) else None}
    if v.name == "Leaf":
        out["handler"] = third.kind if isinstance(third, AggV) else repr(third)
    else:
        kids = third.cells if isinstance(third, ListV) else [Cell(third.fields[i], "") for i in sorted(third.fields)] if isinstance(third, AggV) and third.kind == "array" else None
        out["children"] = [_node(c.v) for c in kids] if kids is not None else None
    return out


def witness_tree():
    """-> (tree dict, body) ; raises AnchorLost when the witness does not build or declares no TREE"""
    if "tree" in _C:
        return _C["tree"]
    P = facts.program("witness")
    us = [x for x in P.units if x.crate == "witness_wiring"]
    if not us:
        raise facts.AnchorLost("witness_wiring crate")
    u = us[0]
    bs = [b for b in u.bodies if b.path.endswith("::TREE")]
    if len(bs) != 1:
        raise facts.AnchorLost("const TREE in witness_wiring")
    eng = fdai.Engine(P, u, inline=lambda n, r: True, models=dict(M.FOLD_MODELS), loop_limit=50, max_paths=8, max_depth=30)
    res = eng.run(bs[0], [])
    if len(res) != 1 or res[0].outcome != "return":
        raise facts.AnchorLost("TREE does not evaluate to a constant (%d paths)" % len(res))
    t = _node(res[0].retval)
    if t is None or t.get("children") is None:
        raise facts.AnchorLost("TREE is not a Branch with a constant child list")
    _C["tree"] = (t, bs[0])
    return _C["tree"]


def child(node, name):
    hits = [c for c in (node.get("children") or []) if c is not None and c["name"] == name]
    return hits[0] if len(hits) == 1 else None


def handler_type(node):
    """('EventCommand', 'Operation') from 'new:scpi_contrib::scpi1999::status::EventCommand<T><scpi_contrib::...::Operation>' or a struct literal kind"""
    h = node.get("handler") or ""
    if h.startswith("new:"):
        h = h[4:]
    base = h.split("<")[0].split("::")[-1]
    garg = h.rsplit("<", 1)[-1].rstrip(">").split("::")[-1] if "<" in h else ""
    return base, ("" if garg in ("T", "") else garg)


def check_subtree(R, rule, root, path, expected, where=None):
    """expected: list of (mnemonic, kind, default, handler base type or None, garg or None), in any order; the subtree at
    `path` (list of mnemonics) must declare exactly these children"""
    node = root
    for nm in path:
        node = child(node, nm) if node is not None else None
    key = ":".join(p.decode() for p in path) or "(root)"
    if node is None or node.get("children") is None:
        R.violation(rule, "tree:" + key, "the declared command tree has no branch %s" % key, where=where)
        return None
    got = {}
    for c in node["children"]:
        if c is None:
            continue
        bt, ga = handler_type(c) if c["kind"] == "Leaf" else (None, None)
        got[c["name"]] = (c["kind"], c["default"], bt, ga)
    bad = []
    for nm, kind, dflt, bt, ga in expected:
        g = got.get(nm)
        if g is None:
            bad.append("%s missing" % nm.decode())
        elif g[0] != kind or g[1] is not dflt or (bt is not None and g[2] != bt) or (ga is not None and g[3] != ga):
            bad.append("%s is %s default=%s handler=%s<%s>, expected %s default=%s handler=%s<%s>" % (nm.decode(), g[0], g[1], g[2], g[3], kind, dflt, bt, ga or ""))
    R.check(not bad, rule, "tree:" + key, "%d nodes declared as the standard prescribes (mnemonic, default node, handler)" % len(expected), "; ".join(bad[:4]), where=where)
    return node
