"""Emission tables: what a ResponseData writer sends to the Formatter for a given (concrete or partly symbolic) value.

The writer's MIR is interpreted by the FDAI engine with
  * inherent / free helper functions of the response and error modules analysed in place (so that the result does not
    depend on how a writer is split into helpers),
  * nested ResponseData impls of the workspace analysed in place, except the numeric ones, which appear as a
    ("num", value) item (their digits are lexical-core's contract, rules R09.1/R09.2),
  * every Formatter method as an event whose result forks into Ok / Err.
The output of a path is the concatenation of its Formatter events. A writer is described by
  full(...)   the output on the path where no Formatter call fails, and
  prefixes    the outputs of the failing paths, each of which must be a prefix of the full output (nothing is
              written after a failed write) and must return an error.
"""
from .. import facts, fdai, scpi_models as M
from ..fdai import EnumV, AggV, K, SymV, RefV, Cell, Loc, TOP, load, snapshot, BytesV, ListV
from . import dispatch as D, convert as CV

NUMERIC = set(CV.INTS) | set(CV.FLOATS)
FORMATTER = "parser::response::Formatter"


def sl(b):
    return RefV(Cell(BytesV(bytes(b)), "bytes"))


def _body_of(P, rname):
    for u in P.units:
        for b in u.bodies:
            if b.npath == rname:
                return b
    return None


def make_inline(P):
    cache = {}

    def pred(n, r):
        if r in cache:
            return cache[r]
        ok = False
        b = _body_of(P, r)
        if b is not None and b.kind in ("Fn", "AssocFn"):
            if b.name == "format_response_data" and "ResponseData" in (b.impl_trait or ""):
                ok = (b.impl_self or "") not in NUMERIC and "format::Hex" not in (b.impl_self or "") and "format::Octal" not in (b.impl_self or "") and "format::Binary" not in (b.impl_self or "")
            elif not b.impl_trait and not b.in_trait:
                ok = r.startswith(("scpi::parser::response::", "scpi::error::", "scpi::parser::format::", "scpi::parser::tokenizer::", "scpi::option::"))
            elif any(x in (b.impl_trait or "") for x in ("convert::From", "convert::Into", "default::Default")) and ("error::" in r):
                ok = True
        cache[r] = ok
        return ok
    return pred


def m_write_usize(digits=None):
    def m(eng, st, fr, t, name, rname, args):
        v = eng.resolve(st, args[0])
        g = tuple((t["callee"].get("gargs") or ()))
        st.trace.append(fdai.Event("call", name, rname, tuple(snapshot(a) for a in args), fr.bi, t.get("line"), len(st.frames), fr.body.npath, extra={"gargs": g}))
        if digits is not None:
            return sl(digits)
        if isinstance(v, K) and isinstance(v.v, int) and not isinstance(v.v, bool) and g[:1] and g[0] in CV.INTS:
            return sl(str(v.v).encode())
        return NotImplemented
    return m


def m_identity(eng, st, fr, t, name, rname, args):
    return args[0]


def m_slice_is_ascii(eng, st, fr, t, name, rname, args):
    b = M._bytes_of(eng, st, args[0])
    if b is None:
        return NotImplemented
    return K(all(x < 128 for x in b))


def m_deref_list(eng, st, fr, t, name, rname, args):
    l = M._list_of(eng, st, args[0])
    if l is None:
        return NotImplemented
    v = eng.resolve(st, args[0])
    # a reference to the list value itself
    cur = v
    while isinstance(cur, RefV):
        inner = eng.resolve(st, load(Loc(cur.cell, cur.path)))
        if isinstance(inner, ListV):
            return cur
        cur = inner
    return NotImplemented


def m_concat(eng, st, fr, t, name, rname, args):
    """[a, b, c].concat() over byte slices -> the joined bytes (held as a byte string value)"""
    v = eng.resolve(st, args[0])
    n = 0
    while isinstance(v, RefV) and n < 4:
        v = eng.resolve(st, load(Loc(v.cell, v.path)))
        n += 1
    if not isinstance(v, AggV):
        return NotImplemented
    parts = []
    for i in sorted(v.fields, key=lambda k: (not isinstance(k, int), k)):
        b = M._bytes_of(eng, st, v.fields[i])
        if b is None:
            return NotImplemented
        parts.append(bytes(b))
    return BytesV(b"".join(parts))


def m_vec_as_slice(eng, st, fr, t, name, rname, args):
    b = M._bytes_of(eng, st, args[0])
    if b is None:
        return m_deref_list(eng, st, fr, t, name, rname, args)
    v = eng.resolve(st, args[0])
    return v if isinstance(v, RefV) else sl(b)


def engine(extra=None, loop_limit=150):
    P = D.prog()
    u = P.unit("scpi")
    models = M.with_lists(M.FOLD_MODELS)
    models.update({
        "lexical_core::write": m_write_usize(),
        "core::str::as_bytes": m_identity,
        "core::slice::ascii::is_ascii": m_slice_is_ascii,
        "core::ops::Deref::deref": M._or(m_deref_list, m_vec_as_slice),
        "alloc::slice::concat": m_concat,
        "alloc::vec::Vec::as_slice": m_vec_as_slice,
        "arrayvec::ArrayVec::as_slice": m_vec_as_slice,
        "arrayvec::ArrayVec::iter": M.LIST_MODELS["core::slice::iter"],
        "alloc::vec::Vec::iter": M.LIST_MODELS["core::slice::iter"],
        "arrayvec::ArrayVec::len": M.LIST_MODELS["core::slice::len"],
        "alloc::vec::Vec::len": M.LIST_MODELS["core::slice::len"],
        "arrayvec::ArrayVec::is_empty": M.LIST_MODELS["core::slice::is_empty"],
        "alloc::vec::Vec::is_empty": M.LIST_MODELS["core::slice::is_empty"],
    })
    if extra:
        models.update(extra)
    return fdai.Engine(P, u, inline=make_inline(P), models=models, loop_limit=loop_limit, max_paths=400, max_depth=12)


def _bytes_in(snap):
    def walk(t):
        if isinstance(t, tuple) and t and t[0] == "sym":
            return None      # bytes in the description of an unknown value are not the value's bytes
        if isinstance(t, tuple):
            if t and t[0] == "bytes":
                return t[1]
            for x in t:
                r = walk(x)
                if r is not None:
                    return r
        return None
    return walk(snap)


def output(r):
    """list of output items of a finished path: bytes objects (merged) and ('num', v) / ('item', tag) / ('?', what)"""
    out = []

    def put(x):
        if isinstance(x, bytes) and out and isinstance(out[-1], bytes):
            out[-1] = out[-1] + x
        elif not (isinstance(x, bytes) and not x):
            out.append(x)

    for e in r.trace:
        if e.kind != "call":
            continue
        nm = e.name.split("::")[-1]
        if "Formatter" in e.name and nm in ("push_str", "push_ascii"):
            b = _bytes_in(e.args[1]) if len(e.args) > 1 else None
            if b is not None or (len(e.args) > 1 and _is_bytes_snap(e.args[1])):
                put(bytes(b or b""))
            else:
                put(("?", "%s(%s)" % (nm, _short(e.args[1] if len(e.args) > 1 else None))))
        elif "Formatter" in e.name and nm == "push_byte":
            a = e.args[1] if len(e.args) > 1 else None
            if isinstance(a, tuple) and a and a[0] == "K" and isinstance(a[1], int):
                put(bytes([a[1]]))
            else:
                put(("?", "push_byte(%s)" % _short(a)))
        elif "Formatter" in e.name and nm == "data_separator":
            put(b",")
        elif "Formatter" in e.name and nm == "header_separator":
            put(b" ")
        elif nm == "format_response_data":
            a = e.args[0] if e.args else None
            v = _value_of(a)
            if v is not None:
                put(("num", v))
            else:
                put(("item", _tag_of(a)))
    return out


def _is_bytes_snap(s):
    return "('bytes'," in repr(s)


def _value_of(a):
    """numeric value behind a snapshot (K or ref to K)"""
    cur = a
    for _ in range(4):
        if isinstance(cur, tuple) and cur and cur[0] == "K" and isinstance(cur[1], int) and not isinstance(cur[1], bool):
            return cur[1]
        if isinstance(cur, tuple) and cur and cur[0] == "ref" and len(cur) > 3:
            cur = cur[3]
        else:
            break
    return None


def _tag_of(a):
    cur = a
    tags = []
    for _ in range(4):
        if isinstance(cur, tuple) and cur and cur[0] == "ref" and len(cur) > 3:
            tags.append(cur[1])
            cur = cur[3]
        else:
            break
    if isinstance(cur, tuple) and cur and cur[0] == "sym":
        return cur[1]
    return tags[-1] if tags else _short(a)


def _short(a):
    r = repr(a)
    return r if len(r) < 80 else r[:77] + "..."


def failed_write(r):
    """a Formatter / nested writer call returned Err on this path"""
    return any(e.kind == "assume" and e.name == "variant" and e.args[1] == "Err" and "'ret'" in repr(e.args[0]) for e in r.trace)


class Emission:
    def __init__(self, results):
        self.results = results
        self.full = []       # (outcome, output) of paths without a failed write
        self.partial = []    # (outcome, output) of paths with a failed write
        self.other = []      # cut / panic / diverge
        for r in results:
            if r.outcome != "return":
                self.other.append((r.outcome, output(r)))
            elif failed_write(r):
                self.partial.append((M.outcome(r), output(r)))
            else:
                self.full.append((M.outcome(r), output(r)))

    def describe(self):
        return "full=%s partial=%d other=%s" % (self.full[:3], len(self.partial), self.other[:2])


def emit(eng, body, selfval, extra_args=()):
    res = eng.run(body, [RefV(Cell(selfval, "self")), RefV(Cell(TOP, "fmt"), (), True)] + list(extra_args))
    return Emission(res)


def _is_prefix(a, b):
    """output a is a prefix of output b (bytes items may be cut anywhere)"""
    fa = _flatten(a)
    fb = _flatten(b)
    return len(fa) <= len(fb) and fb[:len(fa)] == fa


def _flatten(o):
    out = []
    for x in o:
        if isinstance(x, bytes):
            out.extend(x)
        else:
            out.append(x)
    return out


def check_emission(em, expected, ok_outcomes=("Ok", "ret:push_str", "ret:push_byte", "ret:push_ascii", "ret:format_response_data", "ret:data_separator")):
    """-> None if the emission is exactly `expected` (list of items) with well-behaved failure paths, else a reason"""
    if em.other:
        return "path ends in %s" % em.other[0][0]
    if len(em.full) != 1:
        return "%d complete paths (%s)" % (len(em.full), [o for o, _ in em.full][:4])
    oc, out = em.full[0]
    if _flatten(out) != _flatten(expected):
        return "writes %s, expected %s" % (out, expected)
    if not (oc in ok_outcomes or oc.startswith("ret:")):
        return "complete path returns %s" % oc
    for oc2, o2 in em.partial:
        if not _is_prefix(o2, out):
            return "after a failed write the writer went on: %s is not a prefix of %s" % (o2, out)
        if not failed_write_outcome(oc2):
            return "a failed write is swallowed or replaced (path returns %s)" % oc2
    return None


def check_refusal(em, code):
    """the value is refused with `code` and nothing is written"""
    if em.other:
        return "path ends in %s" % em.other[0][0]
    outs = em.full + em.partial
    if not outs:
        return "no path"
    for oc, out in outs:
        if oc != "Err(%s)" % code:
            return "returns %s, expected Err(%s)" % (oc, code)
        if out:
            return "writes %s before refusing" % (out,)
    return None


def failed_write_outcome(oc):
    """outcome text of a path that returned the error of a failed Formatter call: the call's own result (`ret:...`) or an
    Err carrying that call's (symbolic) error. An Err with a concrete code of the writer's own choosing means the
    failure was replaced - a full buffer would then be reported as something other than the formatter's -225."""
    return oc == "Err(?)" or oc.startswith("ret:")


WRITE_CALLS = ("Formatter::push_str", "Formatter::push_byte", "Formatter::push_ascii", "Formatter::data_separator", "ResponseData::format_response_data",
               "Formatter::push_usize", "Formatter::message_start", "Formatter::message_end")


def is_write_call(name):
    return name.endswith(WRITE_CALLS) or ("Formatter::" in name and name.split("::")[-1].startswith(("push", "write")))


def write_discipline(r):
    """How one returning path treats the results of its fallible Formatter / nested-writer calls.
    -> (n_writes, n_examined, returned_directly, failed, outcome): a write's result is *examined* when the path
    branches on its Ok/Err variant; it is *returned directly* when it is the path's return value."""
    writes = [e for e in r.trace if e.kind == "call" and is_write_call(e.name)]
    seen = set()
    failed = False
    for e in r.trace:
        if e.kind == "assume" and e.name == "variant":
            s = e.args[0]
            if isinstance(s, tuple) and len(s) >= 3 and s[0] == "sym" and isinstance(s[2], tuple) and s[2] and s[2][0] == "ret" and is_write_call(str(s[2][1])):
                seen.add(s[1])
                if e.args[1] == "Err":
                    failed = True
    oc = M.outcome(r)
    direct = oc.startswith("ret:") and is_write_call("X::" + oc[4:]) or (oc.startswith("ret:") and any(w.name.endswith(oc[4:]) for w in writes))
    return len(writes), len(seen), bool(direct), failed, oc


def check_write_discipline(results):
    """-> list of reasons why a failed write would not be returned by the function these paths belong to"""
    why = []
    for r in results:
        if r.outcome != "return":
            continue
        n, seen, direct, failed, oc = write_discipline(r)
        if n > seen + (1 if direct else 0):
            why.append("%d fallible write(s) but only %d result(s) examined%s: the failure of a write can be lost (path returns %s)" % (n, seen, " and one returned" if direct else "", oc))
        elif failed and not failed_write_outcome(oc):
            why.append("a failed write is swallowed (path returns %s)" % oc)
    return why


def list_cases(sizes=(0, 1, 2, 3, 5)):
    """representative lists of opaque elements with the expected emission: every element once, in order, joined by `,`"""
    cases = []
    for n in sizes:
        lst = fdai.ListV([Cell(SymV("el%d" % i, "el%d" % i), "el%d" % i) for i in range(n)])
        if n == 0:
            cases.append(("empty", lst, ("refuse", "DeviceSpecificError")))
        else:
            exp = []
            for i in range(n):
                if i:
                    exp.append(b",")
                exp.append(("item", "el%d" % i))
            cases.append(("n=%d" % n, lst, exp))
    return cases


def check_cases(eng, body, cases):
    """-> list of "label: reason" for the cases whose emission differs from the expectation"""
    bad = []
    for label, val, exp in cases:
        try:
            em = emit(eng, body, val)
        except (fdai.TooManyPaths, RecursionError) as e:
            bad.append("%s: undecided (%s)" % (label, type(e).__name__))
            continue
        why = check_refusal(em, exp[1]) if isinstance(exp, tuple) and exp and exp[0] == "refuse" else check_emission(em, exp)
        if why:
            bad.append("%s: %s" % (label, why))
    return bad

def check_all_writers(R, rule, P):
    """write discipline of every ResponseData writer of the workspace (lists on 1..3 opaque elements, text and error items
    on representatives, enum writers on a representative mnemonic, the rest on an unknown value): the result of each
    fallible write is branched on - its Err returned as it is - or is the return value"""
    em = engine()
    EC = "scpi::error::ErrorCode"
    by_name = {v: d for d, v in (em.enum_tables.get(EC) or {}).items()}

    def reps(self_ty):
        s = self_ty or ""
        if s == "&'a [u8]":
            return [("text", sl(b'a"b'))]
        if s.endswith("error::Error"):
            if "DeviceSpecificError" not in by_name:
                raise facts.AnchorLost("ErrorCode::DeviceSpecificError")
            cv = EnumV(EC, "DeviceSpecificError", by_name["DeviceSpecificError"], {})
            return [("plain", AggV("scpi::error::Error", {0: cv, 1: fdai.mk_option(None)})), ("extended", AggV("scpi::error::Error", {0: cv, 1: fdai.mk_option(sl(b"x"))}))]
        if s.startswith(("alloc::vec::Vec<", "arrayvec::ArrayVec<")):
            return [("n=%d" % n, fdai.ListV([Cell(SymV("el%d" % i, "el%d" % i), "el%d" % i) for i in range(n)])) for n in (1, 2, 3)]
        return [("any", TOP)]

    em_enum = engine({"scpi::option::ScpiEnum::mnemonic": (lambda eng_, st, fr, t, name, rname, args: M._mkslice(b"CHannel12"))})
    n_w = 0
    for unit in P.units:
        for b in unit.bodies:
            if b.name != "format_response_data" or "ResponseData" not in (b.impl_trait or ""):
                continue
            n_w += 1
            why = []
            eng_w = em
            if (b.impl_self or "") == "T":
                # the blanket writer of ScpiEnum types: an enum whose mnemonic is a representative constant
                eng_w = em_enum
            for label, val in reps(b.impl_self):
                try:
                    res = eng_w.run(b, [RefV(Cell(val, "self")), RefV(Cell(TOP, "fmt"), (), True)])
                    why += ["%s: %s" % (label, w) for w in check_write_discipline(res)]
                except (fdai.TooManyPaths, RecursionError) as e:
                    why.append("%s: undecided (%s)" % (label, type(e).__name__))
            key = (b.impl_self or "?").split("<(dyn")[0]
            if "uom::si::Quantity" in key:
                key = "Quantity#%s" % (b.span or "").split(":")[0].split("/")[-1]
            R.check(not why, rule, "writer:%s:%s" % (unit.crate, key), "every write's result is examined or returned: a buffer failure inside the writer reaches the handler as its error", "; ".join(why[:3]), where=b.span)
    R.floor(rule, "ResponseData writers", n_w, 45)



# ---- ResponseUnit states by history ----------------------------------------------------------------------------------
# The unit's bookkeeping (has a header been written? has a datum been written?) is private state whose representation is
# the library's business (two bools, an enum, a counter, ...). Rules obtain the four states from the library itself -
# a unit as Formatter::response_unit opens it, then header(..) and/or data(..) applied to it - and describe a final
# state by what the next header/data call writes, never by field names.
RU = "scpi::parser::response::ResponseUnit"
_UNIT_STATES = {}


def unit_layout(u):
    """field indices of ResponseUnit by role: (index of the formatter reference, index of the latched result, state indices)"""
    adt = u.adts.get(RU)
    if adt is None:
        raise facts.AnchorLost("struct ResponseUnit")
    fl = adt["variants"][0]["fields"]
    fmt = [i for i, f in enumerate(fl) if "Formatter" in f["ty"] and f["ty"].lstrip().startswith("&")]
    res = [i for i, f in enumerate(fl) if f["ty"].replace(" ", "").startswith("core::result::Result<(),")]
    if len(fmt) != 1 or len(res) != 1:
        raise facts.AnchorLost("ResponseUnit: one formatter reference and one latched Result<()> (fields %s)" % [(f["name"], f["ty"]) for f in fl])
    return fmt[0], res[0], [i for i in range(len(fl)) if i not in (fmt[0], res[0])]


def _unit_writes(r):
    return tuple(e.name.split("::")[-1] + (":%s" % (e.args[1][1],) if e.name.endswith("push_byte") and len(e.args) > 1 and e.args[1][0] == "K" else "")
                 for e in r.trace if e.kind == "call" and ("Formatter::" in e.name or "format_response_data" in e.name))


def _unit_final(r, ucell_name="unit"):
    rv = r.retval
    final = load(Loc(rv.cell, rv.path)) if isinstance(rv, RefV) else None
    return final if isinstance(final, AggV) else None


def mk_unit(u, state, result=None, fmt=None):
    """a ResponseUnit value in the given state (a dict index -> value as returned by unit_states), with the given latched
    result (default Ok(())) and formatter reference (default: an opaque formatter)"""
    import copy
    fi, ri, si = unit_layout(u)
    vals = {i: copy.deepcopy(v) for i, v in state.items()}
    vals[fi] = fmt if fmt is not None else RefV(Cell(TOP, "fmt"), (), True)
    vals[ri] = result if result is not None else fdai.mk_ok(fdai.UNIT)
    return AggV(RU, vals)


def unit_states(P=None):
    """{(has_header, has_data): {state field index: value}} as the library leaves them after the histories
    open / open,header / open,data / open,header,data (each step succeeding)"""
    P = P or D.prog()
    key = id(P)
    if key in _UNIT_STATES:
        return _UNIT_STATES[key]
    u = P.unit("scpi")
    fi, ri, si = unit_layout(u)
    eng = fdai.Engine(P, u, inline=_helpers_of_response_module(P), models={})
    opener = u.trait_method(FORMATTER, "response_unit", "arrayvec::ArrayVec")
    fresh = None
    for r in eng.run(opener, [RefV(Cell(TOP, "buf"), (), True)]):
        v = r.retval.fields.get(0) if isinstance(r.retval, EnumV) and r.retval.name == "Ok" else None
        if isinstance(v, AggV) and isinstance(v.fields.get(ri), EnumV) and v.fields[ri].name == "Ok":
            st = {i: v.fields.get(i) for i in si}
            if fresh is not None and snapshot(AggV("s", fresh)) != snapshot(AggV("s", st)):
                raise facts.AnchorLost("Formatter::response_unit opens units in different states")
            fresh = st
    if fresh is None or any(not isinstance(x, (K, EnumV)) for x in fresh.values()):
        raise facts.AnchorLost("Formatter::response_unit does not open a unit in a definite state (%s)" % fresh)

    def step(state, meth):
        b = u.body(RU + "::" + meth)
        ucell = Cell(mk_unit(u, state), "unit")
        outs = []
        for r in eng.run(b, [RefV(ucell, (), True), SymV("payload", "payload")]):
            final = _unit_final(r)
            if r.outcome == "return" and final is not None and not (isinstance(final.fields.get(ri), EnumV) and final.fields[ri].name == "Err"):
                outs.append({i: final.fields.get(i) for i in si})
        snaps = {repr(snapshot(AggV("s", o))) for o in outs}
        if len(snaps) != 1 or any(not isinstance(x, (K, EnumV)) for x in outs[0].values()):
            raise facts.AnchorLost("ResponseUnit::%s does not leave a definite state after a successful call (%s)" % (meth, sorted(snaps)[:3]))
        return outs[0]
    hdr = step(fresh, "header")
    states = {(False, False): fresh, (True, False): hdr, (False, True): step(fresh, "data"), (True, True): step(hdr, "data")}
    _UNIT_STATES[key] = states
    return states


def unit_spec_writes(meth, hh, hd):
    """what ResponseUnit::header / ::data write in the state (has_header, has_data) - IEEE 488.2 8.4/8.7: `:` between header
    mnemonics, one header separator before the first datum, `,` between data"""
    if meth == "data":
        return (("data_separator",) if hd else ("header_separator",) if hh else ()) + ("format_response_data",)
    return (("push_byte:58",) if hh else ()) + ("push_str",)


def unit_behaves_like(P, state, hh, hd):
    """does a unit in `state` (state field index -> value) write what a unit with (has_header, has_data) = (hh, hd) writes
    on its next data(..) and (when no datum was written yet) its next header(..)?"""
    u = P.unit("scpi")
    eng = fdai.Engine(P, u, inline=_helpers_of_response_module(P), models={})
    for meth in (("data", "header") if not hd else ("data",)):
        b = u.body(RU + "::" + meth)
        ucell = Cell(mk_unit(u, state), "unit")
        res = eng.run(b, [RefV(ucell, (), True), SymV("payload", "payload")])
        seqs = {_unit_writes(r) for r in res}
        exp = unit_spec_writes(meth, hh, hd)
        if not seqs or max(seqs, key=len) != exp or not all(s == exp[: len(s)] for s in seqs):
            return False
    return True


def _helpers_of_response_module(P):
    """private (non-trait) functions of scpi::parser::response - helpers ResponseUnit / the formatters are split into - are
    analysed in place; Formatter / ResponseData trait methods stay events"""
    base = D.inline_inherent(("scpi::parser::response::",))

    def pred(n, r):
        # (+ the derived / hand-written Default of the module's own types: `state: Default::default()`)
        return base(n, r) or (r.startswith("<") and "parser::response::" in r.split(" as ")[0] and r.endswith(" as core::default::Default>::default"))
    return pred
