"""Typed echo tables: a parameter of every type, from the bytes of the message to the bytes of the response.

`witness/echo` declares, the way a user of the library would, one query per parameter type: the handler pulls one
parameter with `Parameters::next_data::<T>()` (or `next_optional_data`) and answers with the value it was given through
`ResponseUnit::data`. `Node::run(&TREE, b"*U8? 255.4", ..)` is folded end to end by the FDAI engine: tokenizer, dispatcher,
`Parameters`, the typed conversion (`TryFrom<Token>` of the workspace, the derive-generated one for the witness enum, the
numeric_value builder of scpi-contrib, the list iterators and channel-spec conversions), the `ResponseData` writer of the
value's type, `ResponseUnit` and the `Vec<u8>` formatter - all analysed in place. Contract models: `Peekable`, the byte
buffer, lexical-core's integer parser / writer and its float parser (correctly rounded: python's `float()`, rounded once
more to single precision where the call is at f32), `core`.

The answer (or the error) is compared with a reference written from the properties' own statements: C07 (nearest integer
or -222, either neighbour at a tie, exactness up to the resolution of the intermediate the property names), C08 (float bit
patterns, keywords, booleans, accept lists), C09 (string / block / character / expression responses, enum mnemonics), C17
(numeric_value resolution), C19 (list entries in order), C20 (mnemonic -> variant -> mnemonic)."""
import re, struct
from fractions import Fraction as F
from decimal import Decimal
from .. import facts, fdai, scpi_models as M, ieee
from ..fdai import EnumV, AggV, K, SymV, RefV, Cell, Loc, TOP, BytesV, FnV, ListV, load, store, mk_option, mk_ok, mk_err, UNIT
from . import msgtable as MT, histtable as HT, devmodel as DM
from .c03 import ref_match

_C = {}
INTS = {"U8": (0, 255, 8), "I8": (-128, 127, 8), "U16": (0, 65535, 16), "I16": (-32768, 32767, 16), "U32": (0, 2 ** 32 - 1, 32), "I32": (-2 ** 31, 2 ** 31 - 1, 32),
        "U64": (0, 2 ** 64 - 1, 64), "I64": (-2 ** 63, 2 ** 63 - 1, 64), "USIZE": (0, 2 ** 64 - 1, 64), "ISIZE": (-2 ** 63, 2 ** 63 - 1, 64)}


def prog():
    return HT.prog()


def m_command(form):
    def m(eng, st, fr, t, name, rname, args):
        k = HT._handler_type(eng, st, args[0])
        if k is None:
            return NotImplemented
        base = k.split("<")[0]
        short = base.split("::")[-1]
        garg = k.rsplit("<", 1)[-1].rstrip(">") if "<" in k else ""
        garg = "" if garg in ("T", "") else garg
        bs = [b for b in _C["cmd_bodies"] if b.name == form and (b.impl_self or "").split("<")[0].split("::")[-1] == short]
        if not bs:
            bs = [b for b in eng.program.unit("scpi").bodies if b.name == form and b.in_trait and b.in_trait.split("<")[0].endswith("Command") and b.npath.startswith("scpi::tree::command::Command::")]
        if len(bs) != 1:
            return st.fresh(("no-handler-impl", short))
        st.extra.setdefault("calls", []).append((short + ("<%s>" % garg if garg else ""), form))
        return eng.call_closure(st, fr, FnV(bs[0].npath, (garg,) if garg else ()), list(args), t)
    return m


def m_to_bits(eng, st, fr, t, name, rname, args):
    v = eng.resolve(st, args[0])
    if fdai.is_float(v):
        return K(v.fields[0].v)
    return NotImplemented


def m_parse_float_or_int(int_model):
    def m(eng, st, fr, t, name, rname, args):
        g = [str(x) for x in eng.concrete_gargs(st, t["callee"])]
        if g and g[0] in ("f32", "f64"):
            b = M._bytes_of(eng, st, args[0])
            if b is None:
                return NotImplemented
            txt = bytes(b)
            if not re.fullmatch(rb"[+-]?(\d+\.?\d*|\.\d+)([eE][+-]?\d+)?", txt):
                from . import convert as CV
                adt, tab = CV.lexical_error_table(eng)
                d = [k_ for k_, n_ in (tab or {}).items() if n_ == "InvalidDigit"]
                return mk_err(EnumV(adt, "InvalidDigit", d[0] if d else 0, {0: K(0)}))
            x = F(Decimal(txt.decode()))
            fmt = g[0]
            r = ieee.rnd(x, fmt)
            if ieee.is_special(r):
                fv = float("inf") if r == ieee.PINF else float("-inf")
            else:
                fv = float(r)
                if fv == 0 and txt[:1] == b"-":
                    fv = -0.0          # the sign of a negative zero (or an underflowing negative literal) is kept
            return mk_ok(fdai.mk_float(fv, 32 if fmt == "f32" else 64))
        return int_model(eng, st, fr, t, name, rname, args)
    return m


def static_trait_redirect(eng, st, t, name, args):
    """`<T as Trait>::method(..)` inside generic code, T known from the instantiation under analysis: the impl for T"""
    c = (t or {}).get("callee") or {}
    tr, meth = c.get("trait"), c.get("method")
    g = [fdai._norm_ty(x) for x in eng.concrete_gargs(st, c)]
    if not tr or not meth or not g:
        return None
    tshort = fdai.strip_generics(str(tr)).split("::")[-1]
    hits = []
    for u in eng.program.units:
        for b in u.bodies:
            if b.kind == "AssocFn" and b.name == meth and b.impl_trait and tshort in b.impl_trait and fdai._norm_ty(b.impl_self or "") == g[0]:
                hits.append(b)
    return hits[0] if len(hits) == 1 else None


def m_default(eng, st, fr, t, name, rname, args):
    g = [str(x) for x in eng.concrete_gargs(st, t["callee"])]
    if g and g[0].replace("std::", "core::").startswith("core::option::Option<"):
        return mk_option(None)
    return NotImplemented


def m_into_iter_identity(eng, st, fr, t, name, rname, args):
    """`for x in it` where `it` is itself an iterator type of the workspace (blanket `impl<I: Iterator> IntoIterator for I`)"""
    v = eng.resolve(st, args[0])
    if isinstance(v, AggV) and str(v.kind).startswith(("scpi::", "scpi_contrib::", "parser::")):
        g = [str(x) for x in eng.concrete_gargs(st, t["callee"])]
        short = g[0].split("<")[0].split("::")[-1] if g else ""
        if any(b.name == "next" and b.impl_trait and "Iterator" in b.impl_trait and (b.impl_self or "").split("<")[0].split("::")[-1] == short for u in eng.program.units for b in u.bodies):
            return v
    return NotImplemented


def m_partial_ord(op):
    def m(eng, st, fr, t, name, rname, args):
        a, b = (HT.MT._loc_of(eng, st, x)[1] if isinstance(eng.resolve(st, x), RefV) else eng.resolve(st, x) for x in args[:2])
        if isinstance(a, K) and isinstance(b, K) and not isinstance(a.v, bool):
            return K({"lt": a.v < b.v, "le": a.v <= b.v, "gt": a.v > b.v, "ge": a.v >= b.v}[op])
        if fdai.is_float(a) and fdai.is_float(b):
            x, y = fdai.float_of(a), fdai.float_of(b)
            return K({"lt": x < y, "le": x <= y, "gt": x > y, "ge": x >= y}[op])
        return NotImplemented
    return m


def rd_redirect(eng, st, t, name, args):
    b = HT.rd_redirect(eng, st, t, name, args)
    if b is not None:
        return b
    idx = HT._C.get("rd_impls") or {}
    g = [fdai._norm_ty(x) for x in eng.concrete_gargs(st, (t or {}).get("callee") or {})]
    # a derived enum is written through the blanket impl for ScpiEnum types
    if g and g[0].split("::")[-1] in _C.get("enum_types", ()):
        return idx.get("T")
    return None


def engine():
    if "eng" in _C:
        return _C["eng"]
    from . import convert as CV
    base = HT.engine()
    P = prog()
    us = P.unit("scpi")
    uw = P.unit("witness_echo")
    ms = dict(base.models)
    ms["scpi::tree::command::Command::event"] = m_command("event")
    ms["scpi::tree::command::Command::query"] = m_command("query")
    ms["scpi::Device::handle_error"] = MT.m_handle_error
    ms["lexical_core::parse"] = m_parse_float_or_int(CV.m_lexical_parse_int)
    for w in ("f32", "f64"):
        ms["core::%s::<impl %s>::to_bits" % (w, w)] = m_to_bits
        ms["core::num::<impl %s>::to_bits" % w] = m_to_bits
    from . import chanspec as CS
    ms["lexical_core::parse_partial"] = CS.m_parse_partial
    ms["core::default::Default::default"] = M._or(m_default, ms.get("core::default::Default::default")) if ms.get("core::default::Default::default") else m_default
    for op in ("lt", "le", "gt", "ge"):
        ms["core::cmp::PartialOrd::" + op] = m_partial_ord(op)
    ms["core::iter::IntoIterator::into_iter"] = M._or(m_into_iter_identity, ms.get("core::iter::IntoIterator::into_iter"))
    ms["core::f32::to_bits"] = m_to_bits
    ms["core::f64::to_bits"] = m_to_bits

    def inl(n, r):
        if r.startswith(("scpi::", "scpi_contrib::", "witness_echo::")):
            return True
        return r.startswith("<") and any(x in r for x in ("scpi", "parser::", "error::", "tree::", "witness_echo", "scpi1999", "Mode as", "Dev as"))
    eng = fdai.Engine(P, us, inline=inl, models=ms, loop_limit=600, max_paths=8, max_depth=60)
    eng.inline_fn_values = True
    eng.redirect = dict(base.redirect)
    for k in list(eng.redirect):
        if k.startswith(("scpi::Device::", "scpi_contrib::")) or k.startswith("scpi::error::ErrorQueue::"):
            del eng.redirect[k]
    eng.redirect["scpi::parser::response::ResponseData::format_response_data"] = rd_redirect
    for nm in ("mnemonic", "from_mnemonic", "short_form"):
        eng.redirect["scpi::option::ScpiEnum::" + nm] = static_trait_redirect
    for nm in ("numeric_value_max", "numeric_value_min"):
        eng.redirect["scpi_contrib::scpi1999::numeric::NumericValueDefaults::" + nm] = static_trait_redirect
    _C["cmd_bodies"] = [b for b in uw.bodies if b.kind == "AssocFn" and "Command" in (b.impl_trait or "") and b.name in ("event", "query")]
    _C["enum_types"] = {p.split("::")[-1] for p, a in uw.adts.items() if len(a.get("variants", [])) > 1 or p.endswith("::Mode")}
    _C["eng"] = eng
    return eng


def tree_value():
    if "tree" in _C:
        return _C["tree"]
    P = facts.program("witness")
    u = P.unit("witness_echo")
    bs = [b for b in u.bodies if b.path.endswith("::TREE")]
    if len(bs) != 1:
        raise facts.AnchorLost("const TREE in witness_echo")
    # handler constructors stay opaque so that the value names its type with its generic argument (`Echo<T><u8>`)
    eng = fdai.Engine(P, u, inline=lambda n, r: not r.endswith("::new"), models=dict(M.FOLD_MODELS), loop_limit=50, max_paths=8, max_depth=30)
    eng.opaque_generic_ctors = True
    res = eng.run(bs[0], [])
    if len(res) != 1 or res[0].outcome != "return":
        raise facts.AnchorLost("witness_echo::TREE does not evaluate to a constant")
    _C["tree"] = res[0].retval
    return _C["tree"]


def run_message(msg):
    """-> ("Ok", response bytes) | ("Err", code names) | ("undecided", why)"""
    eng = engine()
    body = eng.unit.body("scpi::tree::Node::run")
    st = fdai.State()
    st.extra["calls"] = []
    st.extra["hook"] = []
    buf = Cell(MT.mk_buf(None), "response")
    st.extra["buf"] = buf
    args = [RefV(Cell(tree_value(), "root")), M._mkslice(msg, 0), RefV(Cell(AggV("witness_echo::Dev", {}), "device"), (), True), RefV(Cell(DM.context_value(False), "context"), (), True), RefV(buf, (), True)]
    eng.step_budget, eng._steps_used, eng._forks_used = 40000, 0, 0
    try:
        rs = eng.run(body, args, st)
    except (fdai.TooManyPaths, RecursionError) as e:
        return ("undecided", type(e).__name__)
    if len(rs) != 1:
        return ("undecided", "%d paths %s" % (len(rs), [M.outcome(r) for r in rs][:3]))
    r = rs[0]
    if r.outcome == "panic":
        return ("panic",)
    if r.outcome != "return":
        return ("undecided", r.outcome)
    res = r.retval
    if isinstance(res, EnumV) and res.name == "Ok":
        b = r.extra["buf"].v
        return ("Ok", MT._content(b) if isinstance(b, AggV) else None)
    if isinstance(res, EnumV) and res.name == "Err":
        return ("Err", tuple(sorted(M.err_codes(res))) or ("?",))
    return ("undecided", repr(res)[:80])


# ---------------------------------------------------------------------------------------------------------------------
# reference: what each echo command must answer, from the properties' statements (arguments are given as (kind, text[,
# payload]) so that nothing is re-lexed)
# ---------------------------------------------------------------------------------------------------------------------
def _nearest(x, lo, hi):
    """acceptable outcomes for exact rational x: Ok(n) for the nearest integer(s) (both at a tie), or range error"""
    fl = x.numerator // x.denominator
    frac = x - fl
    cands = [fl] if frac < F(1, 2) else [fl + 1] if frac > F(1, 2) else [fl, fl + 1]
    return {("Ok", b"%d" % c) if lo <= c <= hi else ("Err", "DataOutOfRange") for c in cands}


def _kw(defn, text):
    """character data equals a keyword in its short or long form (no suffix rule: these are not headers)"""
    m = re.match(rb"^([A-Z]+)([a-z]*)$", defn)
    short, long_ = m.group(1), m.group(1) + m.group(2)
    return text.upper() in (short.upper(), long_.upper())


def ref_int(lo, hi, bits, arg):
    kind, text = arg[0], arg[1]
    if kind == "dec":
        x = F(Decimal(text.decode()))
        if re.fullmatch(rb"[+-]?\d+", text):
            return _nearest(x, lo, hi)
        fmt = "f32" if bits <= 16 else "f64"
        r = ieee.rnd(x, fmt)
        acc = set(_nearest(x, lo, hi))
        acc |= {("Err", "DataOutOfRange")} if ieee.is_special(r) else _nearest(r, lo, hi)     # exactness up to the intermediate's resolution (C07)
        return acc
    if kind == "nondec":
        v = arg[2]
        return {("Ok", b"%d" % v)} if lo <= v <= hi else {("Err", "DataOutOfRange")}
    if kind == "char":
        if _kw(b"MAXimum", text):
            return {("Ok", b"%d" % hi)}
        if _kw(b"MINimum", text):
            return {("Ok", b"%d" % lo)}
        return {("Err", "DataTypeError")}
    if kind == "suffix":
        return {("Err", "SuffixNotAllowed")}
    return {("Err", "DataTypeError")}


F32_MAX = struct.unpack("<I", struct.pack("<f", 3.4028234663852886e38))[0]
F64_MAX = struct.unpack("<Q", struct.pack("<d", 1.7976931348623157e308))[0]


def ref_float(fmt, arg):
    kind, text = arg[0], arg[1]
    w = 32 if fmt == "f32" else 64

    def bits(x):
        return struct.unpack("<I", struct.pack("<f", x))[0] if w == 32 else struct.unpack("<Q", struct.pack("<d", x))[0]
    if kind == "dec":
        r = ieee.rnd(F(Decimal(text.decode())), fmt)
        if ieee.is_special(r):
            return {("Ok", b"%d" % bits(float("inf") if r == ieee.PINF else float("-inf")))}
        v = float(r)
        b = bits(v)
        if v == 0 and text.lstrip()[:1] == b"-":
            b |= 1 << (w - 1)
        return {("Ok", b"%d" % b)}
    if kind == "char":
        sign = 1 << (w - 1)
        inf = 0x7F800000 if w == 32 else 0x7FF0000000000000
        nan = 0x7FC00000 if w == 32 else 0x7FF8000000000000
        mx = F32_MAX if w == 32 else F64_MAX
        for defn, val in ((b"INFinity", inf), (b"NINFinity", inf | sign), (b"NAN", nan), (b"MAXimum", mx), (b"MINimum", mx | sign)):
            if _kw(defn, text):
                return {("Ok", b"%d" % val)}
        return {("Err", "DataTypeError")}
    if kind == "suffix":
        return {("Err", "SuffixNotAllowed")}
    return {("Err", "DataTypeError")}


MODE = [(b"BINary", b"BIN"), (b"REAL", b"REAL"), (b"ASCii1", b"ASC1"), (b"ASCii2", b"ASC2"), (b"CH2", b"CH2")]


def ref_echo(cmd, arg):
    """cmd: header without `*` / `?`; arg: None or (kind, text, payload...) -> set of acceptable ("Ok", response) / ("Err", code)"""
    def ok(b):
        return {("Ok", b)}
    if cmd in ("OPTU8", "OPTI32"):
        if arg is None:
            return ok(b"42")
        lo, hi, bits = (0, 255, 8) if cmd == "OPTU8" else (-2 ** 31, 2 ** 31 - 1, 32)
        return ref_int(lo, hi, bits, arg)
    if arg is None:
        return {("Err", "MissingParameter")}
    kind, text = arg[0], arg[1]
    if cmd in INTS:
        return ref_int(*INTS[cmd], arg)
    if cmd == "BOOL":
        if kind == "dec":
            lo, hi, bits = INTS["ISIZE"]
            acc = ref_int(lo, hi, bits, arg)
            return {("Ok", b"1") if a == ("Err", "DataOutOfRange") or (a[0] == "Ok" and a[1] != b"0") else ("Ok", b"0") for a in acc}
        if kind == "char":
            return ok(b"1") if text.upper() == b"ON" else ok(b"0") if text.upper() == b"OFF" else {("Err", "IllegalParameterValue")}
        return {("Err", "DataTypeError")}
    if cmd in ("F32", "F64"):
        return ref_float(cmd.lower(), arg)
    if cmd == "STR":
        return ok(b'"' + arg[2].replace(b'"', b'""') + b'"') if kind == "string" else {("Err", "DataTypeError")}
    if cmd == "ARB":
        return ok(b"#%d%d" % (len(b"%d" % len(arg[2])), len(arg[2])) + arg[2]) if kind == "block" else {("Err", "DataTypeError")}
    if cmd == "CHR":
        return ok(text) if kind == "char" else {("Err", "DataTypeError")}
    if cmd == "EXPR":
        return ok(b"(" + arg[2] + b")") if kind == "expr" else {("Err", "DataTypeError")}
    if cmd in ("NUM", "NUMND"):
        lo, hi, bits = INTS["U8"] if cmd == "NUM" else INTS["I16"]
        mx, mn, df = (100, 10, 50) if cmd == "NUM" else (1000, -1000, None)
        if kind == "char":
            if _kw(b"MAXimum", text):
                return ok(b"%d" % mx)
            if _kw(b"MINimum", text):
                return ok(b"%d" % mn)
            if _kw(b"DEFault", text):
                return ok(b"%d" % df) if df is not None else {("Err", "IllegalParameterValue")}
            if _kw(b"UP", text) or _kw(b"DOWN", text):
                return {("Err", "IllegalParameterValue")}
        out = set()
        for a in ref_int(lo, hi, bits, arg):
            if a[0] == "Ok":
                out.add(a if mn <= int(a[1]) <= mx else ("Err", "DataOutOfRange"))
            else:
                out.add(a)
        return out
    if cmd == "MODE":
        if kind != "char":
            return {("Err", "DataTypeError")}
        for defn, resp in MODE:
            if ref_match(defn, text):
                return ok(resp)
        return {("Err", "IllegalParameterValue")}
    if cmd in ("NLIST", "CLIST"):
        if kind != "expr":
            return {("Err", "DataTypeError")}
        from . import listtable as LT
        pay = arg[2]
        if cmd == "NLIST":
            ents = LT.ref_numeric(pay)
            n = s = 0
            for e in ents:
                if e == "Err":
                    return {("Err", "InvalidExpression")}
                nums = [int(x) for x in e[1:]]
                if any(not (0 <= v <= 65535) for v in nums):
                    return {("Err", "DataOutOfRange")}
                s = (s * 7 + nums[0]) if e[0] == "n" else ((s * 7 + nums[0]) * 7 + nums[1] + 1000)
                n += 1
            return ok(b"%d,%d" % (n, s))
        ents = LT.ref_channel(pay)
        if ents is None:
            return {("Err", "InvalidExpression"), ("Err", "DataTypeError")}
        n = s = 0
        for e in ents:
            if e == "Err":
                return {("Err", "InvalidExpression")}
            if e[0] == "p":
                s += 500000
            else:
                dims = [[int(x) for x in sp.split(b"!")] for sp in e[1:]]
                if any(len(d) != 2 for d in dims):
                    return {("Err", "ExpressionError")}
                flat = [v for d in dims for v in d]
                if any(v < 0 for v in flat):
                    return {("Err", "DataOutOfRange")}
                for v in flat:
                    s = s * 7 + v
                if e[0] == "r":
                    s += 1000
            n += 1
        return ok(b"%d,%d" % (n, s))
    raise KeyError(cmd)


# ---------------------------------------------------------------------------------------------------------------------
# corpora
# ---------------------------------------------------------------------------------------------------------------------
def D(text):
    return ("dec", text)


def int_args(lo, hi, bits):
    p = 24 if bits <= 16 else 53
    vals = {0, 1, -1, 7, 42, hi, hi - 1, hi + 1, lo, lo - 1, lo + 1}
    args = [D(b"%d" % v) for v in sorted(vals)] + [D(b"+7"), D(b"007"), D(b"-0"), D(b"0.0"), D(b"0.4"), D(b"0.5"), D(b"0.6"), D(b"-0.4"), D(b"-0.5"), D(b"-0.6"), D(b"1.5"), D(b"2.5"), D(b".5"), D(b"5."), D(b"1e0"),
                                                  D(b"1E2"), D(b"1.27e2"), D(b"2.5E-1"), D(b"1e400"), D(b"-1e400"), D(b"1e-400"), D(b"%d.4" % hi), D(b"%d.5" % hi), D(b"%d.6" % hi), D(b"%d.4" % lo) if lo < 0 else D(b"-0.49"),
                                                  D(b"%d.5" % lo) if lo < 0 else D(b"-0.51"), D(b"%d.0" % (hi + 1)), D(b"%de0" % hi)]
    if bits > p:
        args += [D(b"%d" % (2 ** p + 1)), D(b"%d.0" % (2 ** p + 1))]
    args += [("nondec", b"#H2A", 42), ("nondec", b"#Q52", 42), ("nondec", b"#B101010", 42), ("nondec", b"#HFFFFFFFFFFFFFFFF", 2 ** 64 - 1), ("nondec", b"#H%X" % max(hi, 0), max(hi, 0)), ("nondec", b"#h%x" % (hi + 1), hi + 1)]
    args += [("char", b"MAX"), ("char", b"min"), ("char", b"MAXIMUM"), ("char", b"Minimum"), ("char", b"MAXI"), ("char", b"MAX1"), ("char", b"DEF"), ("suffix", b"1 V"), ("suffix", b"5KHZ"),
             ("string", b'"12"', b"12"), ("block", b"#12ab", b"ab"), ("expr", b"(1)", b"1")]
    return args


def render_arg(a):
    return a[1]


def corpus(name, tier):
    """-> list of (message bytes, acceptable outcomes)"""
    rows = []

    def add(cmd, arg):
        msg = b"*" + cmd.encode() + b"?" + ((b" " + render_arg(arg)) if arg is not None else b"")
        rows.append((msg, ref_echo(cmd, arg)))
    if name == "integers":
        for cmd, (lo, hi, bits) in INTS.items():
            args = int_args(lo, hi, bits)
            if tier != "thorough" and cmd in ("USIZE", "ISIZE", "I32", "U32"):
                args = args[::3]
            for a in args:
                add(cmd, a)
        for a in (None, D(b"7"), D(b"256"), D(b"255.4"), ("char", b"MAX"), ("string", b'"x"', b"x"), ("suffix", b"1 V"), ("nondec", b"#H100", 256)):
            add("OPTU8", a)
        for a in (None, D(b"-5"), D(b"2147483648"), D(b"1e3")):
            add("OPTI32", a)
    elif name == "floats":
        decs = [b"0", b"-0", b"-0.0", b"1", b"-1", b"1.5", b"0.1", b"+.5E+2", b"5.", b"1e10", b"-2.5e-3", b"3.4028235e38", b"3.4028236e38", b"1e39", b"-1e39", b"1e308", b"1.7976931348623157e308", b"1.8e308", b"1e400", b"-1e400",
                b"1e-45", b"1.4e-45", b"7e-46", b"1e-400", b"4.9e-324", b"2e-324", b"16777217", b"16777217.000000001", b"1.0000000596046448", b"9007199254740993", b"0.30000000000000004", b"123456789012345678901234567890"]
        for cmd in ("F32", "F64"):
            for t in decs:
                add(cmd, D(t))
            for t in (b"INF", b"inf", b"INFINITY", b"NINF", b"ninfinity", b"NAN", b"nan", b"MAX", b"MIN", b"maximum", b"INFI", b"NA", b"ON"):
                add(cmd, ("char", t))
            for a in (("suffix", b"1 V"), ("nondec", b"#H10", 16), ("string", b'"1"', b"1"), ("block", b"#11x", b"x"), ("expr", b"(1)", b"1"), None):
                add(cmd, a)
        for a in [("char", t) for t in (b"ON", b"off", b"On", b"OFF", b"ONN", b"O", b"TRUE", b"MAX")] + [D(t) for t in (b"0", b"1", b"-1", b"0.4", b"0.5", b"0.6", b"-0.4", b"-0.6", b"2", b"255", b"1e30", b"-1e30", b"1e400", b"1e-400", b"0.0", b"00", b"-0")] + \
                [("nondec", b"#H1", 1), ("suffix", b"1 V"), ("string", b'"ON"', b"ON"), ("block", b"#12ON", b"ON"), ("expr", b"(1)", b"1"), None]:
            add("BOOL", a)
    elif name == "text":
        strs = [b"abc", b"", b'a"b', b"a'b", b'"', b'""', b"a;b,c", b"x" * 40, b" lead", b"#H", b"(", b"1,2"]
        for p in strs:
            if b'"' not in p:
                add("STR", ("string", b'"' + p + b'"', p))
            add("STR", ("string", b"'" + p.replace(b"'", b"''") + b"'", p.replace(b"'", b"''")))
        add("STR", ("string", b'"a""b"', b'a""b'))
        for p in (b"", b"abc", b'a"b;c,d', b"\n\xff\x00", b"x" * 9, b"y" * 10, b"z" * 100):
            add("ARB", ("block", b"#%d%d" % (len(b"%d" % len(p)), len(p)) + p, p))
        for t in (b"hello", b"A", b"a_b1", b"ABCDEFGHIJKL", b"MAX"):
            add("CHR", ("char", t))
        for p in (b"1,2", b"@1!2", b"", b"a b", b"1:3,5"):
            add("EXPR", ("expr", b"(" + p + b")", p))
        for cmd, others in (("STR", (D(b"1"), ("char", b"abc"), ("block", b"#11a", b"a"), ("expr", b"(1)", b"1"))), ("ARB", (D(b"1"), ("string", b'"a"', b"a"), ("char", b"a"))), ("CHR", (D(b"1"), ("string", b'"a"', b"a"), ("suffix", b"1 V"))),
                            ("EXPR", (D(b"1"), ("string", b'"(1)"', b"(1)"), ("char", b"a")))):
            for a in others + (None,):
                add(cmd, a)
    elif name == "numeric":
        for cmd in ("NUM", "NUMND"):
            for t in (b"MAX", b"max", b"MAXimum", b"MIN", b"minimum", b"DEF", b"default", b"DEFAULT", b"UP", b"up", b"DOWN", b"down", b"MAXI", b"DEFA", b"U", b"DOW", b"MAX1", b"UP1", b"ON"):
                add(cmd, ("char", t))
            for t in (b"10", b"9", b"100", b"101", b"50", b"0", b"-1000", b"-1001", b"1000", b"1001", b"99.5", b"100.4", b"100.6", b"9.5", b"9.4", b"300", b"1e2", b"70000"):
                add(cmd, D(t))
            for a in (("nondec", b"#H20", 32), ("suffix", b"1 V"), ("string", b'"50"', b"50"), ("expr", b"(50)", b"50"), None):
                add(cmd, a)
    elif name == "enums":
        texts = set()
        for defn, _ in MODE:
            m = re.match(rb"^([A-Z]+)([a-z]*)(\d*)$", defn)
            short, long_, suf = m.group(1), m.group(1) + m.group(2), m.group(3)
            for stem in {short, long_, short.lower(), long_.upper(), long_[:-1] if len(long_) > len(short) else short + b"X", short[:-1], long_ + b"X"}:
                for sx in {suf, b"", b"1", b"2", b"01", b"3"}:
                    if stem:
                        texts.add(stem + sx)
        for t in sorted(texts):
            if len(t) <= 12:
                add("MODE", ("char", t))
        for a in (D(b"1"), ("string", b'"BIN"', b"BIN"), ("nondec", b"#H1", 1), None):
            add("MODE", a)
    elif name == "lists":
        for p in (b"1", b"1,2", b"1:3", b"1,2:4,5", b"5:1", b"1,,2", b",1", b"1,", b"1 ,2", b"1, 2", b"1:2:3", b"1:", b"1-2", b"1;2", b"70000", b"1,70000", b"65535", b"1:65536", b"a", b"", b"0,0,0", b"+1,+2", b"10,20,30,40,50,60,70"):
            add("NLIST", ("expr", b"(" + p + b")", p))
        for p in (b"@1!2", b"@1!2,3!4", b"@1!2:3!4", b"@1!2,3!4:5!6", b"@1", b"@1!2!3", b"@1!2:3", b"@,1!2", b"@1!2,,3!4", b"@1!", b"@!1", b"@1!!2", b"@", b"1!2", b"@1!2 3!4", b"@0!0", b"@255!255,0!1", b"@1!2-3", b"@+1!+2"):
            add("CLIST", ("expr", b"(" + p + b")", p))
        for a in (D(b"1"), ("string", b'"(1)"', b"(1)"), ("char", b"a"), None):
            add("NLIST", a)
            add("CLIST", a)
    return rows


def table(name, tier):
    key = (name, tier)
    if key in _C:
        return _C[key]
    out = []
    n_und = 0
    for msg, acc in corpus(name, tier):
        if n_und > 3:
            out.append((msg, "undecided: not evaluated (the first messages are undecided)"))
            continue
        got = run_message(msg)
        if got[0] == "undecided":
            n_und += 1
            out.append((msg, "undecided: %s" % (got[1],)))
            continue
        if got[0] == "panic":
            out.append((msg, "panics"))
            continue
        if got[0] == "Ok":
            g = ("Ok", got[1][:-1] if got[1] and got[1].endswith(b"\n") else got[1])
            well = got[1] is not None and got[1].endswith(b"\n")
        else:
            g = ("Err", got[1][0]) if len(got[1]) == 1 else ("Err", got[1])
            well = True
        out.append((msg, None if (g in acc and well) else "answers %s, expected %s" % (_show(g), " or ".join(sorted(_show(a) for a in acc)))))
    _C[key] = out
    return out


def _show(a):
    return ("%r" % (a[1],))[1:] if a[0] == "Ok" else "error %s" % (a[1],)


def check(R, rule, name, tier, what, floor):
    try:
        rows = table(name, tier)
    except facts.AnchorLost as e:
        R.anchor_lost(rule, str(e))
        return
    bad = [(m, d) for m, d in rows if d]
    R.check(rows and not bad, rule, "echo:" + name, "%s (%d messages folded end to end: lexer, dispatcher, Parameters, conversion, writer, formatter)" % (what, len(rows)),
            "; ".join("%r: %s" % (m[:60], d) for m, d in bad[:4]) + (" (+%d more)" % (len(bad) - 4) if len(bad) > 4 else ""))
    R.count("echo_messages_" + name, len(rows))
    R.floor(rule, "echo messages (%s)" % name, len(rows), floor)
