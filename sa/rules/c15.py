"""C15 - status event registers latch filtered condition transitions until read."""
import itertools
from .. import facts, fdai, scpi_models as M, sym
from ..fdai import EnumV, AggV, K, SymV, RefV, Cell, Loc, TOP, load, snapshot
from . import contrib as CB

LEVEL = "other"
TECHNIQUE = "field-effect summaries by FDAI: the bitwise DAG that EventRegister::set_condition writes to `event` is canonicalised to its per-bit truth table over (event, old condition, new condition, ptr, ntr) - 32 rows, complete because bitwise operators are bit-parallel - and compared with the SCPI-99 latch formula; effect summaries of preset/clear_event/set_condition_bits/clear_condition_bits; handler tables (EVENt? read-and-clear, CONDition? read-only, enable/filter field pairing, 0x7FFF mask); who-writes census of the five register fields"
LEVEL_TEXT = "The register is five plain fields; every function that writes one of them is enumerated (census over the MIR of scpi-contrib) and the effect of each writer is summarised exactly: the latch formula as a complete 32-row truth table, PRESet/clear as field assignments, the command handlers as read/write/mask tables. Histories then follow from 'writers enumerated, each writer's effect a checked formula'."
LEVEL_NOTE = "Not decided: arbitrary histories (argued from the writer census and the per-writer formulas); device code may write the public fields directly. Trusted: rustc MIR, FDAI models."

ER = "scpi_contrib::scpi1999::EventRegister"
FIELDS5 = {"condition", "event", "enable", "ntr_filter", "ptr_filter"}


def eval_bits(desc, env):
    """Evaluate a snapshot of a bitwise expression for single-bit inputs. env: name -> 0/1."""
    if desc[0] == "K":
        # constants: only all-zeros / all-ones are bit-uniform
        if desc[1] in (0,):
            return 0
        if desc[1] in (0xFFFF, -1, 0xFFFFFFFF):
            return 1
        raise ValueError("non-uniform constant %r" % (desc[1],))
    if desc[0] == "sym":
        d = desc[2]
        if isinstance(d, str):
            if d.startswith("field:"):
                return env[d[6:]]
            if d in env:
                return env[d]
            raise ValueError("unknown leaf %r" % (d,))
        if d[0] == "binop":
            a, b = eval_bits(d[2], env), eval_bits(d[3], env)
            return {"BitAnd": a & b, "BitOr": a | b, "BitXor": a ^ b}[d[1]]
        if d[0] == "not":
            raise ValueError("not-by-id")
        if d[0] == "unop" and d[1] == "Not":
            return 1 - eval_bits(d[2], env)
    raise ValueError("unsupported node %r" % (desc[:2],))


def run(R, tier):
    R.configs.append("dflt")
    P = CB.prog()
    uc = P.unit("scpi_contrib")
    adt = uc.adts.get(ER)
    if adt is None:
        R.anchor_lost("R15.1", "struct EventRegister")
        return
    fields = [f["name"] for f in adt["variants"][0]["fields"]]
    R.check(set(fields) == FIELDS5, "R15.6", "fields", "EventRegister = %s" % fields, "EventRegister fields changed: %s" % fields)
    eng = CB.engine("scpi_contrib")

    # ---- R15.1 latch formula -----------------------------------------------------------------------
    b = uc.body(ER + "::set_condition")
    eff = CB.field_effects(eng, b, ER, fields, [SymV("new", "new")])
    good = len(eff) == 1
    bad_rows = []
    if good:
        r, vals = eff[0]
        ev = snapshot(vals["event"])
        try:
            for e_, c_, n_, p_, q_ in itertools.product((0, 1), repeat=5):
                env = {"event": e_, "condition": c_, "new": n_, "ptr_filter": p_, "ntr_filter": q_, "enable": 0}
                got = eval_bits(ev, env)
                exp = e_ | ((1 - c_) & n_ & p_) | (c_ & (1 - n_) & q_)
                if got != exp:
                    bad_rows.append((env, got, exp))
        except (ValueError, KeyError) as ex:
            bad_rows.append(("undecidable: %s" % ex, None, None))
        cond_ok = isinstance(vals["condition"], SymV) and vals["condition"].id == "new"
        others_ok = all(CB.unchanged(vals[n], n) for n in ("enable", "ntr_filter", "ptr_filter"))
        no_calls = not [e for e in r.trace if e.kind == "call"]
    R.check(good and not bad_rows, "R15.1", "set_condition:latch", "event' = event | (0->1 & ptr) | (1->0 & ntr) on all 32 rows", "set_condition does not latch filtered transitions: event' differs from event | (rise & ptr) | (fall & ntr) for %s" % (bad_rows[:3],), where=b.span)
    if good:
        R.check(cond_ok and others_ok and no_calls, "R15.1", "set_condition:state", "condition := new; enable and filters untouched", "set_condition must store the new condition and leave enable/filters alone: condition=%r enable=%r ntr=%r ptr=%r" % (vals["condition"], vals["enable"], vals["ntr_filter"], vals["ptr_filter"]), where=b.span)
        R.sample({"rule": "R15.1", "event_expression": repr(ev)[:400], "rows": 32})
    for meth, op in (("set_condition_bits", "BitOr"), ("clear_condition_bits", "BitAnd")):
        bb = uc.body(ER + "::" + meth)
        cell = Cell(AggV(ER, {i: SymV("f:" + n, "field:" + n) for i, n in enumerate(fields)}), "self")
        res = eng.run(bb, [RefV(cell, (), True), SymV("mask", "mask")])
        ok = len(res) == 1
        if ok:
            p = CB.Path(res[0])
            sc = p.call("set_condition")
            ok = p.names == ["set_condition"] and sc is not None
            if ok:
                bo = CB.binop_of(sc.args[1], op)
                ok = bo is not None and bo[0] == ("sym", "f:condition", "field:condition")
                if op == "BitOr":
                    ok = ok and bo[1] == ("sym", "mask", "mask")
                else:
                    ok = ok and bo[1][0] == "sym" and bo[1][2][0] == "unop" and bo[1][2][1] == "Not" and bo[1][2][2] == ("sym", "mask", "mask")
        R.check(ok, "R15.1", meth, "set_condition(condition %s mask)" % ("|" if op == "BitOr" else "& !"), "%s must go through set_condition(condition %s mask)" % (meth, "| " if op == "BitOr" else "& !"), where=bb.span)

    # ---- R15.5 preset / clear_event ------------------------------------------------------------------------
    b = uc.body(ER + "::preset")
    eff = CB.field_effects(eng, b, ER, fields)
    ok = len(eff) == 1
    if ok:
        _, v = eff[0]
        ok = isinstance(v["enable"], K) and v["enable"].v == 0 and isinstance(v["ptr_filter"], K) and v["ptr_filter"].v == 0xFFFF and isinstance(v["ntr_filter"], K) and v["ntr_filter"].v == 0 and CB.unchanged(v["event"], "event") and CB.unchanged(v["condition"], "condition")
        detail = {k: repr(x) for k, x in v.items()}
    R.check(ok, "R15.5", "preset", "enable := 0, ptr := 0xFFFF, ntr := 0; event and condition untouched", "EventRegister::preset must set enable 0, positive filter all ones, negative filter 0 and nothing else: %s" % (detail if eff else "?"), where=b.span)
    b = uc.body(ER + "::clear_event")
    eff = CB.field_effects(eng, b, ER, fields)
    ok = len(eff) == 1
    if ok:
        _, v = eff[0]
        ok = isinstance(v["event"], K) and v["event"].v == 0 and all(CB.unchanged(v[n], n) for n in fields if n != "event")
    R.check(ok, "R15.5", "clear_event", "event := 0 only", "clear_event must clear the event register only", where=b.span)
    # device-level preset reaches both register sets
    b = uc.body("scpi_contrib::scpi1999::ScpiDevice::preset")
    regs = sorted(tuple(c.gargs()[1:2]) for c in b.calls() if c.name.endswith("preset_register"))
    R.check(regs == [("scpi1999::status::operation::Operation",), ("scpi1999::status::questionable::Questionable",)], "R15.5", "ScpiDevice::preset", "presets OPERation and QUEStionable once each", "STATus:PRESet must preset both register sets once each: %s" % regs, where=b.span)
    b = uc.body("scpi_contrib::scpi1999::ScpiDevice::preset_register")
    e = [c.name.split("::")[-1] for c in b.calls()]
    R.check(e == ["register_mut", "preset"], "R15.5", "preset_register", "register_mut().preset()", "preset_register must be register_mut().preset(): %s" % e, where=b.span)
    b = uc.body("scpi_contrib::scpi1999::ScpiDevice::scpi_cls")
    regs = sorted(tuple(c.gargs()[1:2]) for c in b.calls() if c.name.endswith("get_register_mut"))
    n_clear = sum(1 for c in b.calls() if c.name.endswith("EventRegister::clear_event"))
    R.check(regs == [("scpi1999::status::operation::Operation",), ("scpi1999::status::questionable::Questionable",)] and n_clear == 2, "R15.5", "*CLS:event-registers", "clear_event on OPERation and QUEStionable", "*CLS must clear the event register of both register sets (found %s, %d clear_event calls)" % (regs, n_clear), where=b.span)

    # ---- R15.2-4 command handlers -----------------------------------------------------------------------------------
    def handlers(type_name, method):
        return [x for x in uc.bodies if x.name == method and (x.impl_self or "").split("<")[0].endswith(type_name) and "Command" in (x.impl_trait or "")]

    def run_handler(body, is_query):
        e = CB.engine("scpi_contrib")
        args = [RefV(Cell(TOP, "cmd")), RefV(Cell(TOP, "dev"), (), True), RefV(Cell(TOP, "ctx"), (), True), RefV(Cell(SymV("params", "params"), "params"), (), True)]
        if is_query:
            args = args[:3] + [SymV("params", "params"), SymV("response", "response")]
        else:
            args = args[:3] + [SymV("params", "params")]
        return [CB.Path(r) for r in e.run(body, args)]

    def masked_field(snap, field, via):
        """snap == (<reg>.field & 0x7FFF) where <reg> came from `via`()"""
        bo = CB.binop_of(snap, "BitAnd")
        if bo is None:
            return False
        a, b_ = bo
        if b_ != ("K", 0x7FFF):
            a, b_ = b_, a
        return b_ == ("K", 0x7FFF) and field in repr(a) and via in repr(a)

    # EVENt?
    hs = handlers("EventCommand", "query")
    if len(hs) != 1:
        R.anchor_lost("R15.2", "EventCommand::query")
    else:
        ps = run_handler(hs[0], True)
        ok = len(ps) == 1
        if ok:
            p = ps[0]
            rp = p.call("replace")
            d = p.call("data")
            ok = p.names == ["register_mut", "replace", "data", "finish"] and rp.args[1] == ("K", 0) and p.outcome == "ret:finish"
            # the place replaced is the `event` field of the register
            mir = hs[0].mir
            borrowed = CB.stores_to_fields(hs[0], FIELDS5)
            ok = ok and [x[0] for x in borrowed] == ["event"]
            bo = CB.binop_of(d.args[1], "BitAnd")
            ok = ok and bo is not None and ("K", 0x7FFF) in bo and any(CB.ret_of(x, "replace") for x in bo)
        R.check(ok, "R15.2", "EVENt?", "answers mem::replace(&mut register.event, 0) & 0x7FFF: reads and clears", "EVENt? must return the event register (masked to 15 bits) and clear it: %s" % [p.describe() for p in ps], where=hs[0].span)
    for tname, field, rule in (("ConditionCommand", "condition", "R15.2"), ("EnableCommand", "enable", "R15.4"), ("NTransitionCommand", "ntr_filter", "R15.4"), ("PTransitionCommand", "ptr_filter", "R15.4")):
        hs = handlers(tname, "query")
        if len(hs) != 1:
            R.anchor_lost(rule, tname + "::query")
            continue
        ps = run_handler(hs[0], True)
        ok = len(ps) == 1
        if ok:
            p = ps[0]
            d = p.call("data")
            reads = _field_reads(hs[0], FIELDS5)
            ok = p.names == ["register", "data", "finish"] and p.outcome == "ret:finish" and reads == [field] and not CB.stores_to_fields(hs[0], FIELDS5)
            bo = CB.binop_of(d.args[1], "BitAnd") if d else None
            ok = ok and bo is not None and ("K", 0x7FFF) in bo
        R.check(ok, rule, tname.replace("Command", "") + "?", "answers register().%s & 0x7FFF without modifying anything" % field, "%s query must report field `%s` masked with 0x7FFF through the shared (non-mut) register: %s reads=%s" % (tname, field, [p.describe() for p in ps], _field_reads(hs[0], FIELDS5)), where=hs[0].span)
        if tname == "ConditionCommand":
            continue
        hs = handlers(tname, "event")
        if len(hs) != 1:
            R.anchor_lost(rule, tname + "::event")
            continue
        st = CB.stores_to_fields(hs[0], FIELDS5)
        calls = [c.name.split("::")[-1] for c in hs[0].calls()]
        gar = [c.gargs() for c in hs[0].calls() if c.name.endswith("next_data")]
        ok = [x[0] for x in st] == [field] and calls.count("next_data") == 1 and calls.count("register_mut") == 1 and gar and gar[0][-1] == "u16"
        R.check(ok, rule, tname.replace("Command", "") + " <value>", "stores the u16 parameter into `%s`" % field, "%s must store its (u16) parameter into field `%s`: stores %s" % (tname, field, st), where=hs[0].span)

    # ---- R15.6 who writes the fields -----------------------------------------------------------------------------------------
    allowed = {
        "condition": {"EventRegister::set_condition"},
        "event": {"EventRegister::set_condition", "EventRegister::clear_event", "EventCommand"},
        "enable": {"EventRegister::preset", "EnableCommand"},
        "ntr_filter": {"EventRegister::preset", "NTransitionCommand"},
        "ptr_filter": {"EventRegister::preset", "PTransitionCommand"},
    }
    n_w = 0
    for body in uc.bodies:
        if "core::fmt::" in (body.impl_trait or "") or "core::clone::Clone" in (body.impl_trait or "") or "core::cmp::" in (body.impl_trait or ""):
            continue
        for fld, kind, line in CB.stores_to_fields(body, FIELDS5):
            # only stores into an EventRegister (field names are unique to it in this crate)
            n_w += 1
            who = body.npath + " " + (body.impl_self or "")
            ok = any(a in who for a in allowed[fld])
            R.check(ok, "R15.6", "writer:%s<-%s" % (fld, body.npath.split("::")[-1] if not body.impl_self else body.impl_self.split("::")[-1].split("<")[0] + "::" + (body.name or "")), "allowed writer", "%s writes (%s) the `%s` field: only %s may - any other store bypasses the transition latch / the command semantics" % (body.npath, kind, fld, sorted(allowed[fld])), where=line)
    R.floor("R15.6", "field writes", n_w, 5)


def _field_reads(body, names):
    out = []
    for m in body.all_mirs():
        for bi in m.live_blocks():
            for st in m.blocks[bi]["stmts"]:
                if st["k"] == "assign":
                    for o in _operands(st["rv"]):
                        if o["k"] in ("copy", "move"):
                            for pr in o["place"]["proj"]:
                                if pr["k"] == "field" and pr["name"] in names:
                                    out.append(pr["name"])
    return out


def _operands(rv):
    k = rv["k"]
    if k in ("use", "cast", "unop", "repeat"):
        return [rv["a"]]
    if k == "binop":
        return [rv["a"], rv["b"]]
    if k == "aggr":
        return rv["fields"]
    return []
