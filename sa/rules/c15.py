"""C15 - status event registers latch filtered condition transitions until read."""
import itertools
from .. import facts, fdai, scpi_models as M, sym
from ..fdai import EnumV, AggV, K, SymV, RefV, Cell, Loc, TOP, load, snapshot
from . import contrib as CB

LEVEL = "other"
TECHNIQUE = 'abstract device model (sa/rules/devmodel.py): EventRegister::set_condition / set_condition_bits / clear_condition_bits / preset / clear_event and the STATus command handlers (both register sets) are interpreted by the FDAI engine on concrete register words; set_condition is evaluated on bit-sliced inputs that place all 32 per-bit combinations of (event, old, new, ptr, ntr) on several bit positions including bit 15, and the resulting register is compared with the SCPI-99 latch formula; handlers: response value and final registers for boundary words; census of every function that writes a register field; the STATus tree the macros declare (witness device`s `const TREE` evaluated: mnemonics, default nodes, handler types and their register set); uniform words next to the bit-sliced ones; history tables (sa/rules/histtable.py): sequences of whole messages and device-side events folded through Node::run on the witness device (its evaluated `const TREE`, the real scpi-contrib handlers, provided trait methods, queue and writers analysed in place), result, response and device state compared after every step with a reference model of the IEEE 488.2 / SCPI-99 status system - condition changes interleaved with ENABle / PTRansition / NTRansition writes, [:EVENt]? / CONDition? reads, PRESet, *CLS and *STB?'
LEVEL_TEXT = "The register is five plain words. The latch is decided per bit completely (bitwise code is bit-parallel; the sliced inputs cover every combination on several positions, so position-dependent code shows as well); PRESet / *CLS / clear as final-state comparisons; every query answers its word with bit 15 clear and changes nothing except EVENt?, which clears what it returns; ENABle/PTR/NTR store the 16-bit parameter in their own word of the addressed set only. Histories then follow from 'writers enumerated (census), each writer's effect exactly known'."
LEVEL_NOTE = "Not decided: histories beyond the enumerated ones (12 x 14 steps quick, 150 x 24 thorough); device code may write the public fields directly. Trusted: rustc MIR, FDAI models."

ER = "scpi_contrib::scpi1999::EventRegister"
FIELDS5 = {"condition", "event", "enable", "ntr_filter", "ptr_filter"}


def latch_spec(event, old, new, ptr, ntr):
    """IEEE 488.2 / SCPI-99 20.1.3-5: the event bit latches a 0->1 transition passed by the positive filter or a
    1->0 transition passed by the negative filter"""
    rise = ~old & new & ptr
    fall = old & ~new & ntr
    return (event | rise | fall) & 0xFFFF


# Bit-sliced inputs: the five 16-bit words below put every combination of (old, new, ptr, ntr) - 16 combinations - on
# one of the 16 bit positions, so one evaluation per value of the previous event word covers the whole per-bit truth
# table; further words (shifted / complemented) put each combination on other bit positions as well, bit 15 included.
SLICE = {"old": 0xAAAA, "new": 0xCCCC, "ptr": 0xF0F0, "ntr": 0xFF00}


def sliced_inputs(thorough):
    rots = range(16) if thorough else (0, 1, 5, 15)
    out = []
    for r in rots:
        rot = lambda x: ((x << r) | (x >> (16 - r))) & 0xFFFF
        for event in (0x0000, 0xFFFF, 0x5A5A):
            out.append((rot(event), rot(SLICE["old"]), rot(SLICE["new"]), rot(SLICE["ptr"]), rot(SLICE["ntr"])))
    # uniform words: every bit position carries the same combination, so that tests on the *whole word* (say, "no selected
    # bit changed" short cuts) meet each combination with nothing else going on
    for m in range(32):
        out.append(tuple(0xFFFF if (m >> k) & 1 else 0 for k in range(5)))
    out += [(0, 0x0005, 0x0000, 0xFF00, 0x00F0), (0x0100, 0x0000, 0x0005, 0x0F00, 0xF000)]
    out += [(0, 0, 0xFFFF, 0xFFFF, 0), (0, 0xFFFF, 0, 0, 0xFFFF), (0, 0, 0xFFFF, 0, 0xFFFF), (0, 0xFFFF, 0, 0xFFFF, 0), (0x8000, 0x7FFF, 0x8000, 0x8000, 0x7FFF), (0, 0x1234, 0x1234, 0xFFFF, 0xFFFF)]
    return out


def run(R, tier):
    R.configs.append("dflt")
    P = CB.prog()
    uc = P.unit("scpi_contrib")
    adt = uc.adts.get(ER)
    if adt is None:
        R.anchor_lost("R15.1", "struct EventRegister")
        return
    fields = [f["name"] for f in adt["variants"][0]["fields"]]
    R.check(set(fields) == FIELDS5, "R15.6", "fields", "EventRegister = %s" % fields, "EventRegister fields changed: %s" % fields)
    from . import devmodel as DM
    deng = DM.engine()
    thorough = tier == "thorough"

    # ---- R15.1 latch formula -----------------------------------------------------------------------
    b = uc.body(ER + "::set_condition")
    bad = []
    n = 0
    for event, old, new, ptr, ntr in sliced_inputs(thorough):
        for enable in (0x0000, 0xA5A5):
            n += 1
            cell = DM.mk_register(uc, condition=old, event=event, enable=enable, ntr_filter=ntr, ptr_filter=ptr)
            rs = DM.run(deng, b, DM.Dev(), [RefV(cell, (), True), K(new)], {"regcell": cell})
            exp = {"condition": new, "event": latch_spec(event, old, new, ptr, ntr), "enable": enable, "ntr_filter": ntr, "ptr_filter": ptr}
            got = DM.reg_values(uc, cell) if len(rs) == 1 else None
            # the register cell lives in the returned state
            if len(rs) == 1 and rs[0][0].outcome == "return":
                got = _reg_after(DM, uc, rs[0][0], cell)
            if got != exp and len(bad) < 3:
                diff = (got or {}).get("event")
                bad.append("event=%#06x condition %#06x -> %#06x ptr=%#06x ntr=%#06x: register becomes %s, expected %s%s" % (event, old, new, ptr, ntr, got, exp, "" if diff is None else " (event bits differing: %#06x)" % (diff ^ exp["event"])))
    R.check(not bad, "R15.1", "set_condition:latch", "event' = event | (0->1 & ptr) | (1->0 & ntr), condition := new, enable/filters untouched - bit-sliced over all 32 per-bit combinations on several bit positions (%d evaluations)" % n, "; ".join(bad), where=b.span)
    R.count("latch_evaluations", n)
    for meth, fn in (("set_condition_bits", lambda c_, m_: c_ | m_), ("clear_condition_bits", lambda c_, m_: c_ & ~m_ & 0xFFFF)):
        bb = uc.body(ER + "::" + meth)
        bad = []
        for old, mask in ((0x0000, 0x00FF), (0xFFFF, 0x0F0F), (0xAAAA, 0xCCCC), (0x8001, 0x8000), (0x1234, 0x0000)):
            for ptr, ntr in ((0xFFFF, 0x0000), (0x0000, 0xFFFF), (0xF0F0, 0xFF00)):
                cell = DM.mk_register(uc, condition=old, event=0x0101, enable=0x0033, ntr_filter=ntr, ptr_filter=ptr)
                rs = DM.run(deng, bb, DM.Dev(), [RefV(cell, (), True), K(mask)], {"regcell": cell})
                new = fn(old, mask)
                exp = {"condition": new, "event": latch_spec(0x0101, old, new, ptr, ntr), "enable": 0x0033, "ntr_filter": ntr, "ptr_filter": ptr}
                got = _reg_after(DM, uc, rs[0][0], cell) if len(rs) == 1 and rs[0][0].outcome == "return" else None
                if got != exp:
                    bad.append("condition=%#06x mask=%#06x ptr=%#06x ntr=%#06x: %s, expected %s" % (old, mask, ptr, ntr, got, exp))
        R.check(not bad, "R15.1", meth, "condition %s mask, with the transition latched like set_condition" % ("|" if "set_" in meth else "& !"), "; ".join(bad[:2]), where=bb.span)

    # ---- R15.5 preset / clear_event ------------------------------------------------------------------------
    for meth, change in (("preset", {"enable": 0, "ptr_filter": 0xFFFF, "ntr_filter": 0}), ("clear_event", {"event": 0})):
        bb = uc.body(ER + "::" + meth)
        bad = []
        for vals in ({"condition": 0x1111, "event": 0x2222, "enable": 0x3333, "ntr_filter": 0x4444, "ptr_filter": 0x5555}, {"condition": 0xFFFF, "event": 0xFFFF, "enable": 0xFFFF, "ntr_filter": 0xFFFF, "ptr_filter": 0x0000}, {"condition": 0, "event": 0, "enable": 0, "ntr_filter": 0, "ptr_filter": 0}):
            cell = DM.mk_register(uc, **vals)
            rs = DM.run(deng, bb, DM.Dev(), [RefV(cell, (), True)], {"regcell": cell})
            exp = dict(vals)
            exp.update(change)
            got = _reg_after(DM, uc, rs[0][0], cell) if len(rs) == 1 and rs[0][0].outcome == "return" else None
            if got != exp:
                bad.append("%s -> %s, expected %s" % (vals, got, exp))
        R.check(not bad, "R15.5", meth, " / ".join("%s := %#06x" % kv for kv in change.items()) + "; every other field untouched", "; ".join(bad[:2]), where=bb.span)
    # STATus:PRESet and *CLS reach both register sets
    def both(**vals):
        return {"Operation": DM.mk_register(uc, **vals), "Questionable": DM.mk_register(uc, **{k: v ^ 0x0F0F for k, v in vals.items()})}
    hb = DM.find_handler(uc, "StatPresetCommand", "event")
    start = {"condition": 0x1111, "event": 0x2222, "enable": 0x3333, "ntr_filter": 0x4444, "ptr_filter": 0x5555}
    dev = DM.Dev(esr=0x12, ese=0x34, sre=0x56, queue=[SymV("e0", "e0")], regs=both(**start))
    rs = DM.run(deng, hb, dev, DM.handler_args(event=True))
    ok = len(rs) == 1 and M.outcome(rs[0][0]) == "Ok"
    if ok:
        d = rs[0][1]
        exp_o = dict(start, enable=0, ptr_filter=0xFFFF, ntr_filter=0)
        exp_q = dict({k: v ^ 0x0F0F for k, v in start.items()}, enable=0, ptr_filter=0xFFFF, ntr_filter=0)
        ok = DM.reg_values(uc, d.regs["Operation"]) == exp_o and DM.reg_values(uc, d.regs["Questionable"]) == exp_q and d.r8 == {"esr": 0x12, "ese": 0x34, "sre": 0x56} and len(d.queue) == 1
    R.check(ok, "R15.5", "STATus:PRESet", "both register sets: enable 0, positive filter all ones, negative filter 0; events, conditions, ESR/ESE/SRE and the queue untouched", "STATus:PRESet: %s" % [(M.outcome(r), {k: DM.reg_values(uc, c_) for k, c_ in d.regs.items()}, d.r8) for r, d in rs], where=hb.span)
    hb = DM.find_handler(uc, "ClsCommand", "event")
    dev = DM.Dev(esr=0x12, ese=0x34, sre=0x56, queue=[SymV("e0", "e0")], regs=both(**start))
    rs = DM.run(deng, hb, dev, DM.handler_args(event=True))
    ok = len(rs) == 1 and M.outcome(rs[0][0]) == "Ok"
    if ok:
        d = rs[0][1]
        ok = DM.reg_values(uc, d.regs["Operation"]) == dict(start, event=0) and DM.reg_values(uc, d.regs["Questionable"]) == dict({k: v ^ 0x0F0F for k, v in start.items()}, event=0)
    R.check(ok, "R15.5", "*CLS:event-registers", "event registers of both sets cleared; enable, filters and conditions untouched", "*CLS: %s" % [(M.outcome(r), {k: DM.reg_values(uc, c_) for k, c_ in d.regs.items()}) for r, d in rs], where=hb.span)

    # ---- R15.2-4 command handlers (both register sets) -----------------------------------------------------------------------------------
    vals16 = [0x0000, 0xFFFF, 0x8000, 0x7FFF, 0x8001, 0x1234, 0xA5A5]
    for tname, field, rule, clears in (("EventCommand", "event", "R15.2", True), ("ConditionCommand", "condition", "R15.2", False), ("EnableCommand", "enable", "R15.4", False), ("NTransitionCommand", "ntr_filter", "R15.4", False), ("PTransitionCommand", "ptr_filter", "R15.4", False)):
        try:
            hb = DM.find_handler(uc, tname, "query")
        except facts.AnchorLost as e:
            R.anchor_lost(rule, str(e))
            continue
        bad = []
        for which in ("Operation", "Questionable"):
            for v in vals16:
                start = {"condition": 0x0101, "event": 0x0202, "enable": 0x0404, "ntr_filter": 0x0808, "ptr_filter": 0x1010}
                start[field] = v
                other = {k: x ^ 0x00F0 for k, x in start.items()}
                regs = {which: DM.mk_register(uc, **start), ("Questionable" if which == "Operation" else "Operation"): DM.mk_register(uc, **other)}
                dev = DM.Dev(esr=0x12, ese=0x34, sre=0x56, queue=[SymV("e0", "e0")], regs=regs)
                st0 = fdai.State()
                rs = _run_on(DM, deng, hb, dev, which, DM.handler_args())
                ok = len(rs) == 1 and M.outcome(rs[0][0]) in ("Ok", "ret:finish")
                if ok:
                    d = rs[0][1]
                    exp_reg = dict(start)
                    if clears:
                        exp_reg[field] = 0
                    ok = len(d.data) == 1 and isinstance(d.data[0], K) and d.data[0].v == (v & 0x7FFF) and DM.reg_values(uc, d.regs[which]) == exp_reg
                    ok = ok and DM.reg_values(uc, d.regs["Questionable" if which == "Operation" else "Operation"]) == other and d.r8 == {"esr": 0x12, "ese": 0x34, "sre": 0x56} and len(d.queue) == 1
                if not ok and len(bad) < 3:
                    bad.append("%s %s=%#06x: answers %s, register %s" % (which, field, v, [d.data for _, d in rs], [DM.reg_values(uc, d.regs[which]) for _, d in rs]))
        R.check(not bad, rule, tname.replace("Command", "") + "?", "answers `%s` with bit 15 clear%s; nothing else changes (both register sets, %d values)" % (field, " and clears it" if clears else "", len(vals16)), "; ".join(bad), where=hb.span)
        if tname in ("EventCommand", "ConditionCommand"):
            continue
        hb = DM.find_handler(uc, tname, "event")
        gar = [c.gargs() for c in hb.calls() if c.name.endswith("next_data")]
        bad = [] if (gar and gar[0][-1] == "u16") or not gar else ["the parameter is not read as a u16: %s" % gar]
        for which in ("Operation", "Questionable"):
            for v in vals16:
                start = {"condition": 0x0101, "event": 0x0202, "enable": 0x0404, "ntr_filter": 0x0808, "ptr_filter": 0x1010}
                other = {k: x ^ 0x00F0 for k, x in start.items()}
                regs = {which: DM.mk_register(uc, **start), ("Questionable" if which == "Operation" else "Operation"): DM.mk_register(uc, **other)}
                dev = DM.Dev(esr=0x12, ese=0x34, sre=0x56, queue=[SymV("e0", "e0")], regs=regs)
                dev.params = [v]
                rs = _run_on(DM, deng, hb, dev, which, DM.handler_args(event=True))
                exp_reg = dict(start)
                exp_reg[field] = v
                ok = len(rs) == 1 and M.outcome(rs[0][0]) == "Ok" and DM.reg_values(uc, rs[0][1].regs[which]) == exp_reg and DM.reg_values(uc, rs[0][1].regs["Questionable" if which == "Operation" else "Operation"]) == other
                if not ok and len(bad) < 3:
                    bad.append("%s %s := %#06x: %s" % (which, field, v, [(M.outcome(r), DM.reg_values(uc, d.regs[which])) for r, d in rs]))
            # a conversion error stores nothing
            regs = {which: DM.mk_register(uc, **start), ("Questionable" if which == "Operation" else "Operation"): DM.mk_register(uc, **other)}
            dev = DM.Dev(regs=regs)
            dev.params = [("err", SymV("conversion-error", "conversion-error"))]
            rs = _run_on(DM, deng, hb, dev, which, DM.handler_args(event=True))
            ok = len(rs) == 1 and M.outcome(rs[0][0]).startswith("Err(") and DM.reg_values(uc, rs[0][1].regs[which]) == start
            if not ok:
                bad.append("%s conversion error: %s" % (which, [(M.outcome(r), DM.reg_values(uc, d.regs[which])) for r, d in rs]))
        R.check(not bad, rule, tname.replace("Command", "") + " <value>", "stores the 16-bit parameter in `%s` of the addressed register set and nothing else; a conversion error stores nothing" % field, "; ".join(bad[:3]), where=hb.span)

    # ---- R15.6 who writes the fields -----------------------------------------------------------------------------------------
    allowed = {
        "condition": {"EventRegister::set_condition"},
        "event": {"EventRegister::set_condition", "EventRegister::clear_event", "EventCommand"},
        "enable": {"EventRegister::preset", "EnableCommand"},
        "ntr_filter": {"EventRegister::preset", "NTransitionCommand"},
        "ptr_filter": {"EventRegister::preset", "PTransitionCommand"},
    }
    # *CLS is one of the two ways the statement lets an event register be cleared ("since the event register was last read
    # or cleared"): its effect on both register sets is evaluated here, so it may clear the field by a store of its own as
    # well as through clear_event
    from . import c16 as C16
    cls_ok = False
    try:
        hb = C16.handler(uc, "ClsCommand", "event")
        cls_bad = []
        for ev_o, ev_q in ((0xFFFF, 0x0001), (0x8000, 0x7FFF), (0x0000, 0x0000)):
            regs = {"Operation": DM.mk_register(uc, condition=0xA5A5, event=ev_o, enable=0x0FF0, ntr_filter=0x3333, ptr_filter=0xCCCC),
                    "Questionable": DM.mk_register(uc, condition=0x5A5A, event=ev_q, enable=0xF00F, ntr_filter=0x00FF, ptr_filter=0xFF00)}
            dev = DM.Dev(esr=0x3C, ese=0x11, sre=0x22, queue=[SymV("e0", "e0")], regs=regs)
            before = {k: DM.reg_values(uc, c_) for k, c_ in dev.regs.items()}
            rs = DM.run(deng, hb, dev, DM.handler_args(event=True))
            after = {k: DM.reg_values(uc, c_) for k, c_ in rs[0][1].regs.items()} if len(rs) == 1 and M.outcome(rs[0][0]) == "Ok" else None
            if after != {k: dict(v, event=0) for k, v in before.items()}:
                cls_bad.append("events %#06x/%#06x: %s" % (ev_o, ev_q, after))
        cls_ok = not cls_bad
        R.check(cls_ok, "R15.6", "*CLS:registers", "*CLS sets both event registers to 0 and leaves condition, enable and both filters as they were", "; ".join(cls_bad[:2]), where=hb.span)
    except facts.AnchorLost as e:
        R.anchor_lost("R15.6", str(e))
    if cls_ok:
        allowed["event"] = allowed["event"] | {"ScpiDevice::scpi_cls", "::scpi_cls"}
    n_w = 0
    for body in uc.bodies:
        if "core::fmt::" in (body.impl_trait or "") or "core::clone::Clone" in (body.impl_trait or "") or "core::cmp::" in (body.impl_trait or ""):
            continue
        for fld, kind, line in CB.stores_to_fields(body, FIELDS5):
            # only stores into an EventRegister (field names are unique to it in this crate)
            n_w += 1
            who = body.npath + " " + (body.impl_self or "")
            ok = any(a in who for a in allowed[fld])
            if not ok and body.j.get("vis") == "Restricted":
                # a crate-private helper that only the allowed writers of this field reach (EVENt?'s read-and-clear moved
                # into a method next to the register, say): its effect is part of their tables, which analyse it in place
                roots = tuple(sorted({x.npath for x in uc.bodies if any(a in (x.npath + " " + (x.impl_self or "")) for a in allowed[fld])}))
                from . import dispatch as D_
                ok = D_.only_reached_from(P, body.npath, roots)
            R.check(ok, "R15.6", "writer:%s<-%s" % (fld, body.npath.split("::")[-1] if not body.impl_self else body.impl_self.split("::")[-1].split("<")[0] + "::" + (body.name or "")), "allowed writer", "%s writes (%s) the `%s` field: only %s may - any other store bypasses the transition latch / the command semantics" % (body.npath, kind, fld, sorted(allowed[fld])), where=line)
    R.floor("R15.6", "field writes", n_w, 5)

    # ---- R15.7 the STATus tree the macros declare (sa/rules/treedecl.py) ------------------------------------------------------------
    # SCPI-99 vol.2 20.1-20.3: STATus:OPERation and :QUEStionable each with [:EVENt]? (the default node), :CONDition?,
    # :ENABle, :NTRansition, :PTRansition - every handler instantiated for its own register set - and STATus:PRESet.
    from . import treedecl as TD
    try:
        tree, tb = TD.witness_tree()
    except facts.AnchorLost as e:
        R.anchor_lost("R15.7", str(e))
        tree = None
    if tree is not None:
        R.configs.append("witness")
        TD.check_subtree(R, "R15.7", tree, [b"STATus"], [(b"OPERation", "Branch", False, None, None), (b"QUEStionable", "Branch", False, None, None), (b"PRESet", "Leaf", False, "StatPresetCommand", None)], where=tb.span)
        for reg, ga in ((b"OPERation", "Operation"), (b"QUEStionable", "Questionable")):
            TD.check_subtree(R, "R15.7", tree, [b"STATus", reg], [(b"EVENt", "Leaf", True, "EventCommand", ga), (b"CONDition", "Leaf", False, "ConditionCommand", ga), (b"ENABle", "Leaf", False, "EnableCommand", ga),
                                                                    (b"NTRansition", "Leaf", False, "NTransitionCommand", ga), (b"PTRansition", "Leaf", False, "PTransitionCommand", ga)], where=tb.span)

    # ---- R15.8 histories: condition changes and STATus commands on one device, end to end -----------------------------------
    from . import histtable as HT
    HT.check(R, "R15.8", "registers", tier, "histories of device-side condition changes (set_condition folded) and STATus:OPERation / QUEStionable commands (ENABle, PTRansition, NTRansition, [:EVENt]?, CONDition?, PRESet), *CLS and *STB? through Node::run on the witness device: after every step the event registers hold exactly the filtered transitions since their last read or clear and every answer is the register's word with bit 15 clear", 80)


def _reg_after(DM, uc, r, cell):
    """values of a register that was passed by reference: the cell travels in the state as argument 1 of the frame;
    states are deep-copied on forks, so it is looked up through the result's recorded cells"""
    c2 = r.extra.get("regcell")
    return DM.reg_values(uc, c2 if c2 is not None else cell)


def _run_on(DM, eng, body, dev, which, args):
    """run a generic register command with `which` as the register set its type parameter names"""
    st = fdai.State()
    st.extra["dev"] = dev
    st.extra["only_register"] = which
    out = []
    for r in eng.run(body, args, st):
        out.append((r, r.extra.get("dev")))
    return out


def _field_reads(body, names):
    out = []
    for m in body.all_mirs():
        for bi in m.live_blocks():
            for st in m.blocks[bi]["stmts"]:
                if st["k"] == "assign":
                    for o in _operands(st["rv"]):
                        if o["k"] in ("copy", "move"):
                            for pr in o["place"]["proj"]:
                                if pr["k"] == "field" and pr["name"] in names:
                                    out.append(pr["name"])
    return out


def _operands(rv):
    k = rv["k"]
    if k in ("use", "cast", "unop", "repeat"):
        return [rv["a"]]
    if k == "binop":
        return [rv["a"], rv["b"]]
    if k == "aggr":
        return rv["fields"]
    return []
