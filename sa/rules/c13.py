"""C13 - every failed message is queued once, flagged in ESR, and read back in order."""
from .. import facts, fdai, scpi_models as M, sym
from ..fdai import EnumV, AggV, K, SymV, RefV, Cell, Loc, TOP, load, snapshot
from . import contrib as CB, dispatch as D

LEVEL = "other"
TECHNIQUE = 'abstract device model (sa/rules/devmodel.py): ScpiDevice::push_error / scpi_opc, the SYSTem:ERRor handlers and *ESR? are interpreted by the FDAI engine on an abstract device (8-bit registers, queue of distinct entries, two event register sets) with the trait methods they call interpreted on that state; the final state and the response data are compared with SCPI-99 21.8 / IEEE 488.2 11.5 for every standard error class, custom codes on class boundaries, several prior ESR values and queue lengths 0..4; who-may-call census for queue/ESR writers; documented wiring (example device); the hook table of Node::run (C05) and the queue state tables (C12); every Command impl of scpi-contrib on the abstract device: a successful path queues nothing and sets no ESR bit (*OPC excepted); the SYSTem:ERRor subtree the macro declares, from the witness device`s evaluated tree constant; history tables (sa/rules/histtable.py): sequences of whole messages and device-side events folded through Node::run on the witness device (its evaluated `const TREE`, the real scpi-contrib handlers, provided trait methods, queue and writers analysed in place), result, response and device state compared after every step with a reference model of the IEEE 488.2 / SCPI-99 status system - failing messages of every kind, *OPC, *CLS, SYSTem:ERRor[:NEXT]? / :COUNt? / :ALL?, *ESR?, incl. runs beyond the queue`s capacity'
LEVEL_TEXT = 'The chain run -> handle_error -> push_error -> queue/ESR -> SYST:ERR / *ESR? is decided link by link: the error returned by run is handed to the hook once (path table of Node::run); for each error class push_error leaves ESR = old | class bit and the queue = old + [that error] with nothing else changed; *OPC accumulates bit 0 and queues -800; only push_error/scpi_opc append, only the NEXT/ALL handlers remove, only four functions write ESR (census); NEXT? answers and removes the oldest entry or answers 0,"No error", COUNt? answers the length, ALL? answers all entries oldest first and empties the queue, *ESR? answers the bits and clears them - each computed as final state + response from the handler\'s MIR.'
LEVEL_NOTE = "Not decided: devices wired differently from the documented example; histories beyond the enumerated ones (12 x 14 steps quick, 150 x 24 thorough, pseudo-random with fixed seeds). Trusted: rustc MIR, FDAI models."

SD = "scpi_contrib::scpi1999::ScpiDevice::"


def run(R, tier):
    R.configs.append("dflt")
    P = CB.prog()
    uc = P.unit("scpi_contrib")
    us = P.unit("scpi")
    eng = CB.engine("scpi_contrib")

    # ---- R13.1 / R13.8 on the abstract device (sa/rules/devmodel.py) ----------------------------------------------------
    from . import devmodel as DM
    import json, os
    from ..report import VERIF
    deng = DM.engine()
    EC = "scpi::error::ErrorCode"
    ecodes = {v: k for k, v in (deng.enum_tables.get(EC) or {}).items()}
    oracle = json.load(open(os.path.join(VERIF, "oracle", "errors.json")))
    by_variant = {e["variant"]: e for e in oracle["errors"]}

    def class_bit(code):
        for cl in oracle["classes"]:
            if cl["lo"] <= code <= cl["hi"]:
                return int(cl["mask"])
        return int(oracle["default_mask"])

    def mk_err(variant, ext=None):
        return AggV("scpi::error::Error", {0: EnumV(EC, variant, ecodes[variant], {}), 1: fdai.mk_option(ext)})

    def regs():
        return {"Operation": DM.mk_register(uc, condition=0x0101, event=0x0202, enable=0x0404), "Questionable": DM.mk_register(uc, condition=0x1010, event=0x2020, enable=0x4040)}

    def state_of(d):
        return (dict(d.r8), [_ident(x) for x in d.queue], {k: DM.reg_values(uc, c_) for k, c_ in d.regs.items()})

    # push_error: ESR |= the error's class bit, the error appended once, nothing else
    b = uc.body(SD + "push_error")
    reps = [v for v in ("CommandError", "SyntaxError", "UndefinedHeader", "ParameterNotAllowed", "MissingParameter", "DataTypeError", "ExecutionError", "DataOutOfRange", "IllegalParameterValue",
                        "DeviceSpecificError", "QueueOverflow", "QueryError", "QueryInterrupted", "PowerOn", "UserRequest", "RequestControl", "OperationComplete", "NoError") if v in ecodes and v in by_variant]
    bad = []
    n = 0
    for v in reps:
        bit = class_bit(int(by_variant[v]["code"]))
        for esr in (0x00, 0xFF ^ bit, 0x81):
            n += 1
            dev = DM.Dev(esr=esr, ese=0x12, sre=0x34, queue=[SymV("e0", "e0")], regs=regs())
            before = state_of(dev)
            rs = DM.run(deng, b, dev, [RefV(Cell(SymV("device", "device"), "dev"), (), True), mk_err(v)])
            ok = len(rs) == 1 and rs[0][0].outcome == "return"
            if ok:
                d = rs[0][1]
                ok = d.r8 == {"esr": esr | bit, "ese": 0x12, "sre": 0x34} and [_ident(x) for x in d.queue] == ["e0", v] and state_of(d)[2] == before[2]
            if not ok and len(bad) < 3:
                bad.append("%s (%d, class bit %#04x) with ESR=%#04x: %s" % (v, int(by_variant[v]["code"]), bit, esr, [(r.outcome, d.r8, [_ident(x) for x in d.queue]) for r, d in rs]))
    R.floor("R13.1", "error classes evaluated", len(reps), 12)
    R.check(not bad, "R13.1", "push_error", "ESR |= the class bit of the error (IEEE 488.2 11.5.1 / SCPI-99 21.8), the error appended once at the back, nothing else changed (%d error/ESR combinations)" % n, "; ".join(bad), where=b.span)

    # custom (device-defined) codes are classified by their number as well
    if "Custom" in ecodes:
        bad = []
        # (incl. the ends of the i16 range: `-code` does not exist for -32768 - seed C13-P)
        for code in (-100, -199, -200, -299, -300, -399, -400, -499, -500, -600, -700, -800, 1, 100, -1, -99, -899, -900, -32767, -32768, 32767):
            errv = AggV("scpi::error::Error", {0: EnumV(EC, "Custom", ecodes["Custom"], {0: K(code), 1: RefV(Cell(fdai.BytesV(b"custom"), "msg"))}), 1: fdai.mk_option(None)})
            dev = DM.Dev(esr=0, regs=regs())
            rs = DM.run(deng, b, dev, [RefV(Cell(SymV("device", "device"), "dev"), (), True), errv])
            exp = class_bit(code)
            if not (len(rs) == 1 and rs[0][1].r8["esr"] == exp and len(rs[0][1].queue) == 1):
                bad.append("Custom(%d): ESR %s, expected %#04x" % (code, [d.r8["esr"] for _, d in rs], exp))
        R.check(not bad, "R13.1", "push_error:custom-codes", "device-defined codes set the class bit of their numeric range", "; ".join(bad[:3]), where=b.span)

    # scpi_opc: bit 0 accumulates, one -800 event queued
    b = uc.body(SD + "scpi_opc")
    bad = []
    for esr in (0x00, 0x80, 0xFE, 0xFF, 0x3C):
        dev = DM.Dev(esr=esr, ese=0x12, sre=0x34, queue=[SymV("e0", "e0")], regs=regs())
        before = state_of(dev)
        rs = DM.run(deng, b, dev, [RefV(Cell(SymV("device", "device"), "dev"), (), True)])
        ok = len(rs) == 1 and M.outcome(rs[0][0]) == "Ok" and state_of(rs[0][1]) == ({"esr": esr | 0x01, "ese": 0x12, "sre": 0x34}, ["e0", "OperationComplete"], before[2])
        if not ok:
            bad.append("ESR=%#04x: %s" % (esr, [(M.outcome(r), state_of(d)[:2]) for r, d in rs]))
    R.check(not bad, "R13.8", "scpi_opc", "ESR |= bit 0 (accumulating), OperationComplete appended once, nothing else changed", "; ".join(bad[:2]), where=b.span)

    # ---- R13.3 who may call ----------------------------------------------------------------------------------
    allowed = {
        "push_back_error": {SD + "push_error", SD + "scpi_opc"},
        "pop_front_error": {"SystErrNextCommand", "SystErrAllCommand"},
        "set_esr": {SD + "push_error", SD + "scpi_opc", SD + "scpi_cls", "EsrCommand"},
        "clear_errors": {SD + "scpi_cls"},
    }
    seen = {k: set() for k in allowed}
    for unit in (uc, us):
        for body in unit.bodies:
            for c in body.calls(with_promoted=True):
                m = c.method or c.name.split("::")[-1]
                if m in allowed and (c.trait or "").split("::")[-1] in ("ErrorQueue", "IEEE4882"):
                    if "ErrorQueue" in (body.impl_trait or ""):
                        continue
                    seen[m].add(body.npath)
    def _is_allowed(c, m):
        return any(c == a or (not a.startswith("scpi_contrib::") and a in c) for a in allowed[m])

    for m, callers in seen.items():
        # a crate-private helper all of whose callers are allowed callers (the read-and-clear of *ESR? moved next to the
        # trait, say) acts for them: its effect is part of their tables, which analyse it in place
        roots = tuple(sorted({x.npath for unit in (uc, us) for x in unit.bodies if _is_allowed(x.npath, m)}))
        bad = [c for c in callers if not _is_allowed(c, m) and not D.only_reached_from(P, c, roots)]
        R.check(not bad and callers, "R13.3", "callers:" + m, "%s called only from %s" % (m, sorted(x.split("::")[-1] if "::" in x else x for x in allowed[m])), "%s is called from %s: only %s may (every queued item must be a reported failure or an *OPC event; ESR bits must come from errors)" % (m, sorted(bad) or "nowhere", sorted(allowed[m])))

    # ---- R13.4-7 SYSTem:ERRor handlers and *ESR? on the abstract device ----------------------------------------------------
    def is_noerror(v):
        return isinstance(v, (AggV, EnumV)) and M.err_codes(v) == {"NoError"}

    def query(tname, dev):
        hb = DM.find_handler(uc, tname, "query")
        before = state_of(dev)
        return hb, before, DM.run(deng, hb, dev, DM.handler_args())

    def entries(k):
        return [SymV("e%d" % i, "e%d" % i) for i in range(k)]

    # NEXT?: returns and removes the oldest entry; 0,"No error" on an empty queue
    bad = []
    for k in range(0, 8 if tier == "thorough" else 4):
        hb, before, rs = query("SystErrNextCommand", DM.Dev(esr=0x24, ese=1, sre=2, queue=entries(k), regs=regs()))
        ok = len(rs) == 1 and M.outcome(rs[0][0]) in ("Ok", "ret:finish") and rs[0][1].finished == 1 and len(rs[0][1].data) == 1
        if ok:
            d = rs[0][1]
            got = d.data[0]
            ok = (is_noerror(got) if k == 0 else _ident(got) == "e0") and state_of(d) == (before[0], before[1][1:], before[2])
        if not ok:
            bad.append("%d queued: answers %s, leaves %s" % (k, [[_ident(x) for x in d.data] for _, d in rs], [state_of(d)[1] for _, d in rs]))
    R.check(not bad, "R13.4", "SYST:ERR:NEXT?", "answers and removes the oldest entry, 0,\"No error\" when empty; registers untouched (queue lengths 0..3)", "; ".join(bad[:3]), where=hb.span)
    # Error::default() is NoError (the empty-queue answer of NEXT?)
    db = [x for x in us.bodies if x.name == "default" and (x.impl_self or "").endswith("error::Error")]
    if len(db) == 1:
        rs = deng.run(db[0], [])
        ok = len(rs) == 1 and M.err_codes(rs[0].retval) == {"NoError"} and not _has_ext(rs[0].retval)
        R.check(ok, "R13.4", "Error::default", "= 0,\"No error\" without extended text", "Error::default() is %s" % [r.retval for r in rs], where=db[0].span)
    else:
        R.anchor_lost("R13.4", "impl Default for Error")
    # COUNt?
    bad = []
    for k in range(0, 8 if tier == "thorough" else 4):
        hb, before, rs = query("SystErrCountCommand", DM.Dev(esr=0x24, queue=entries(k), regs=regs()))
        ok = len(rs) == 1 and M.outcome(rs[0][0]) in ("Ok", "ret:finish") and len(rs[0][1].data) == 1 and isinstance(rs[0][1].data[0], K) and rs[0][1].data[0].v == k and state_of(rs[0][1]) == before
        if not ok:
            bad.append("%d queued: %s" % (k, [(d.data, state_of(d)[1]) for _, d in rs]))
    R.check(not bad, "R13.5", "SYST:ERR:COUNt?", "answers the number of unread entries and removes nothing (0..3 entries)", "; ".join(bad[:3]), where=hb.span)
    # ALL?
    bad = []
    for k in range(0, 9 if tier == "thorough" else 5):
        hb, before, rs = query("SystErrAllCommand", DM.Dev(esr=0x24, queue=entries(k), regs=regs()))
        ok = len(rs) == 1 and M.outcome(rs[0][0]) in ("Ok", "ret:finish") and rs[0][1].finished == 1
        if ok:
            d = rs[0][1]
            got = [_ident(x) for x in d.data]
            ok = (len(d.data) == 1 and is_noerror(d.data[0])) if k == 0 else got == ["e%d" % i for i in range(k)]
            ok = ok and state_of(d) == (before[0], [], before[2])
        if not ok:
            bad.append("%d queued: answers %s, leaves %s" % (k, [[_ident(x) for x in d.data] for _, d in rs], [state_of(d)[1] for _, d in rs]))
    R.check(not bad, "R13.6", "SYST:ERR:ALL?", "answers every entry oldest first and empties the queue; a single 0,\"No error\" when empty (0..4 entries)", "; ".join(bad[:3]), where=hb.span)
    # *ESR?
    bad = []
    for esr in (0x00, 0x01, 0x80, 0xFF, 0x3C):
        hb, before, rs = query("EsrCommand", DM.Dev(esr=esr, ese=0x5A, sre=0xA5, queue=entries(2), regs=regs()))
        ok = len(rs) == 1 and M.outcome(rs[0][0]) in ("Ok", "ret:finish") and len(rs[0][1].data) == 1 and isinstance(rs[0][1].data[0], K) and rs[0][1].data[0].v == esr
        ok = ok and state_of(rs[0][1]) == (dict(before[0], esr=0), before[1], before[2])
        if not ok:
            bad.append("ESR=%#04x: answers %s, leaves %s" % (esr, [d.data for _, d in rs], [d.r8 for _, d in rs]))
    R.check(not bad, "R13.7", "*ESR?", "answers the accumulated bits and clears the register; ESE/SRE, queue and event registers untouched", "; ".join(bad[:3]), where=hb.span)

    # ---- R13.11 a handler that succeeds records nothing ----------------------------------------------------------------
    # Every Command impl of scpi-contrib is interpreted on the abstract device; on each path that returns Ok the queue
    # has gained no entry and ESR no bit. The single exception the property names is the *OPC event.
    EXEMPT = {("OpcCommand", "event"): "records the operation-complete event (R13.8)"}
    n_h = 0
    bad = []
    undec = []
    for hb in uc.bodies:
        if hb.name not in ("event", "query") or "Command" not in (hb.impl_trait or "") or hb.in_trait:
            continue
        tname = (hb.impl_self or "?").split("<")[0].split("::")[-1].lstrip("&")
        if (tname, hb.name) in EXEMPT:
            continue
        n_h += 1
        # (start ESR, queued entries, outcome of the device's self-test: passes / fails - a failing self-test is *answered* by
        # *TST?, it is not an error of the message)
        for esr, k, tst_fails in ((0x00, 0, False), (0x24, 2, False), (0x00, 1, True)):
            dev = DM.Dev(esr=esr, ese=0x12, sre=0x34, queue=entries(k), regs=regs(), tst=(SymV("selftest-error", "selftest-error") if tst_fails else None))
            dev.params = [K(1), K(1)]
            try:
                rs = DM.run(deng, hb, dev, DM.handler_args(event=(hb.name == "event")), extra={"only_register": "Operation"})
            except (fdai.TooManyPaths, RecursionError) as e:
                undec.append("%s::%s (%s)" % (tname, hb.name, type(e).__name__))
                break
            for r, d in rs:
                if r.outcome != "return" or not (M.outcome(r) == "Ok" or M.outcome(r).startswith("ret:")):
                    continue
                q_after = [_ident(x) for x in d.queue]
                q_before = ["e%d" % i for i in range(k)]
                e_after = d.r8.get("esr")
                grew = any(x not in q_before for x in q_after) or len(q_after) > len(q_before)
                bits = (e_after & ~esr & 0xFF) if isinstance(e_after, int) else None
                if grew or bits is None or bits:
                    bad.append("%s::%s from ESR=%#04x, %d queued: succeeds with queue %s, ESR %s" % (tname, hb.name, esr, k, q_after, ("%#04x" % e_after) if isinstance(e_after, int) else repr(e_after)))
    R.check(not bad and not undec, "R13.11", "handlers:success-records-nothing", "on every successful path of the %d scpi-contrib command handlers the queue gains no entry and ESR no bit (*OPC excepted)" % n_h,
            "; ".join((bad + ["undecided: " + x for x in undec])[:3]))
    R.floor("R13.11", "scpi-contrib command handlers", n_h, 20)

    # ---- R13.12 a queue item is answered as code,"message[;device-dependent text]" ------------------------------------------
    from . import c09, emit as E
    c09.check_error_writer(R, P, us, E.engine(), E, rule="R13.12")

    # ---- R13.9 links shared with C05 / C12 ----------------------------------------------------------------------------
    paths = D.run_paths()
    bad = []
    n_err = 0
    for p in paths:
        v = p.r.retval
        hooks = [e for e in p.calls if e.name.endswith("Device::handle_error")]
        if isinstance(v, EnumV) and v.name == "Err":
            n_err += 1
            if not (len(hooks) == 1 and hooks[0].args[1] == snapshot(v.fields.get(0)) and "run_tokens" in repr(hooks[0].args[1])):
                bad.append(p.describe())
        elif hooks:
            bad.append(p.describe())
    R.check(not bad and n_err >= 1, "R13.9", "run->hook", "every error returned by Node::run went through Device::handle_error exactly once; successful messages never do", "a failing message can return without being reported to the device (or a successful one is reported): %s" % bad)
    from . import c12
    c12.check_queues(R, "R13.10", tier)

    # ---- R13.13 the SYSTem:ERRor tree the macro declares (sa/rules/treedecl.py) ---------------------------------------------------
    from . import treedecl as TD
    try:
        tree, tb = TD.witness_tree()
        R.configs.append("witness")
        TD.check_subtree(R, "R13.13", tree, [b"SYSTem", b"ERRor"], [(b"NEXT", "Leaf", True, "SystErrNextCommand", None), (b"ALL", "Leaf", False, "SystErrAllCommand", None), (b"COUNt", "Leaf", False, "SystErrCountCommand", None)], where=tb.span)
        TD.check_subtree(R, "R13.13", tree, [], [(b"*ESR", "Leaf", False, "EsrCommand", None), (b"*OPC", "Leaf", False, "OpcCommand", None), (b"*CLS", "Leaf", False, "ClsCommand", None), (b"SYSTem", "Branch", False, None, None)], where=tb.span)
    except facts.AnchorLost as e:
        R.anchor_lost("R13.13", str(e))

    # ---- R13.14 histories: failing and succeeding messages, queue read-out and *ESR? on one device, end to end ----------------
    from . import histtable as HT
    HT.check(R, "R13.14", "errors", tier, "histories of failing messages (undefined header, missing / surplus parameter, out of range, wrong type), *OPC, *CLS, SYSTem:ERRor[:NEXT]? / :COUNt? / :ALL? and *ESR? through Node::run on the witness device with the real handlers: every failed message appends exactly its error (the overflow marker at capacity 8) and sets its class bit, successes add nothing, the read-out commands return and remove what the standard says", 120)

    # ---- R13.2 documented wiring ------------------------------------------------------------------------------------------
    check_wiring(R, "R13.2")


def check_wiring(R, rule):
    """The example device forwards handle_error -> push_error, cls -> scpi_cls, opc -> scpi_opc, stb -> scpi_stb unchanged:
    the wiring the abstract device of sa/rules/devmodel.py assumes."""
    try:
        PE = facts.program("examples")
        R.configs.append("examples")
        ue = PE.unit("minimal_scpi")
        for meth, trait, target, nargs in (("handle_error", "Device", "ScpiDevice::push_error", 2), ("cls", "IEEE4882", "ScpiDevice::scpi_cls", 1), ("opc", "IEEE4882", "ScpiDevice::scpi_opc", 1), ("stb", "IEEE4882", "ScpiDevice::scpi_stb", 1)):
            hs = [x for x in ue.bodies if x.name == meth and trait in (x.impl_trait or "")]
            if len(hs) != 1:
                R.anchor_lost(rule, "%s::%s in examples/minimal_scpi.rs" % (trait, meth))
                continue
            S = sym.Sym(hs[0].mir)
            calls = [c for c in hs[0].calls() if not c.name.startswith("core::")]
            ok = len(calls) == 1 and calls[0].name.endswith(target) and sym.norm(S.operand(calls[0].args[0])) == ("arg", 1, "self")
            if ok and nargs == 2:
                ok = sym.norm(S.operand(calls[0].args[1]))[:2] == ("arg", 2)
            if ok and meth != "handle_error":
                ret = sym.norm(S.local(0))
                ok = ret[0] == "call" and ret[1].endswith(target)
            R.check(ok, rule, "documented-wiring:" + meth, "example device: %s forwards to %s unchanged" % (meth, target.split("::")[-1]), "the documented wiring (examples/minimal_scpi.rs) must forward %s to %s unchanged: %s" % (meth, target, [c.name for c in calls]), where=hs[0].span)
    except SystemExit as e:
        R.violation(rule, "documented-wiring:build", "examples do not build: %s" % e)


def _ident(v):
    if isinstance(v, SymV):
        return v.id
    cs = M.err_codes(v)
    return sorted(cs)[0] if cs else repr(v)


def _has_ext(v):
    if isinstance(v, AggV):
        x = v.fields.get(1)
        return isinstance(x, EnumV) and x.name == "Some"
    return False
