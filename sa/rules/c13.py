"""C13 - every failed message is queued once, flagged in ESR, and read back in order."""
from .. import facts, fdai, scpi_models as M, sym
from ..fdai import EnumV, AggV, K, SymV, RefV, Cell, Loc, TOP, load, snapshot
from . import contrib as CB, dispatch as D

LEVEL = "other"
TECHNIQUE = "FDAI/dataflow tables of ScpiDevice::push_error and scpi_opc (ESR |= class bit, one queue append with the same error), of the SYSTem:ERRor handlers and *ESR?, who-may-call census for queue/ESR writers, documented wiring (example device), plus the hook table of Node::run (C05) and the queue op tables (C12)"
LEVEL_TEXT = "The chain run -> handle_error -> push_error -> queue/ESR -> SYST:ERR / *ESR? is decided link by link on all paths of each function: the error returned by run is handed to the hook once; push_error ORs exactly that error's class bit into ESR and appends exactly that error once; only push_error/scpi_opc append, only the NEXT/ALL handlers remove, only four functions write ESR; NEXT pops once and answers NoError on an empty queue, COUNt reports the length, ALL pops until empty in pop order; *ESR? reads before it clears."
LEVEL_NOTE = "Not decided: devices wired differently from the documented example; ordering over histories (container contracts, C12). Trusted: rustc MIR, FDAI models."

SD = "scpi_contrib::scpi1999::ScpiDevice::"


def run(R, tier):
    R.configs.append("dflt")
    P = CB.prog()
    uc = P.unit("scpi_contrib")
    us = P.unit("scpi")
    eng = CB.engine("scpi_contrib")

    # ---- R13.1 push_error ---------------------------------------------------------------------------
    b = uc.body(SD + "push_error")
    res = eng.run(b, [RefV(Cell(TOP, "dev"), (), True), SymV("err", "err")])
    ps = [CB.Path(r) for r in res]
    good = len(ps) == 1
    for p in ps:
        se = p.call("set_esr")
        pb = p.call("push_back_error")
        em = p.call("esr_mask")
        if not (p.count("set_esr") == 1 and p.count("push_back_error") == 1 and p.count("esr") == 1 and p.count("esr_mask") == 1):
            good = False
            continue
        bo = CB.binop_of(se.args[1], "BitOr")
        ok = bo is not None and ((CB.ret_of(bo[0], "esr") and CB.ret_of(bo[1], "esr_mask")) or (CB.ret_of(bo[1], "esr") and CB.ret_of(bo[0], "esr_mask")))
        ok = ok and "'err'" in repr(em.args[0]) and pb.args[1] == ("sym", "err", "err")
        ok = ok and set(p.names) == {"esr", "esr_mask", "set_esr", "push_back_error"}
        good = good and ok
    R.check(good, "R13.1", "push_error", "set_esr(esr() | err.esr_mask()) and push_back_error(err), once each", "push_error must OR exactly the error's class bit into ESR and append exactly that error once: %s" % [(p.describe(), [e.args[1:] for e in p.calls if e.name.endswith(('set_esr', 'push_back_error'))]) for p in ps], where=b.span)

    # ---- R13.8 scpi_opc --------------------------------------------------------------------------------
    b = uc.body(SD + "scpi_opc")
    eng_i = CB.engine("scpi_contrib", inline=lambda n, r: r.endswith(("Error::new",)) or "From<scpi::error::ErrorCode>>::from" in r or "From<error::ErrorCode>>::from" in r)
    res = eng_i.run(b, [RefV(Cell(TOP, "dev"), (), True)])
    ps = [CB.Path(r) for r in res]
    good = len(ps) == 1
    for p in ps:
        se = p.call("set_esr")
        pb = p.call("push_back_error")
        em = p.call("esr_mask")
        if not (se and pb and em and p.count("set_esr") == 1 and p.count("push_back_error") == 1):
            good = False
            continue
        bo = CB.binop_of(se.args[1], "BitOr")
        ok = bo is not None and {CB.ret_of(bo[0], "esr"), CB.ret_of(bo[1], "esr_mask")} == {True} or (bo is not None and CB.ret_of(bo[1], "esr") and CB.ret_of(bo[0], "esr_mask"))
        ok = ok and "OperationComplete" in repr(em.args[0]) and "OperationComplete" in repr(pb.args[1])
        ok = ok and M.outcome(p.r) == "Ok"
        good = good and ok
    R.check(good, "R13.8", "scpi_opc", "ESR |= OperationComplete class bit (accumulating), OperationComplete appended once", "scpi_opc must OR the operation-complete bit into the existing ESR (not overwrite it) and queue OperationComplete once: %s" % [(p.describe(), [e.args[1:] for e in p.calls if e.name.endswith('set_esr')]) for p in ps], where=b.span)

    # ---- R13.3 who may call ----------------------------------------------------------------------------------
    allowed = {
        "push_back_error": {SD + "push_error", SD + "scpi_opc"},
        "pop_front_error": {"SystErrNextCommand", "SystErrAllCommand"},
        "set_esr": {SD + "push_error", SD + "scpi_opc", SD + "scpi_cls", "EsrCommand"},
        "clear_errors": {SD + "scpi_cls"},
    }
    seen = {k: set() for k in allowed}
    for unit in (uc, us):
        for body in unit.bodies:
            for c in body.calls(with_promoted=True):
                m = c.method or c.name.split("::")[-1]
                if m in allowed and (c.trait or "").split("::")[-1] in ("ErrorQueue", "IEEE4882"):
                    if "ErrorQueue" in (body.impl_trait or ""):
                        continue
                    seen[m].add(body.npath)
    for m, callers in seen.items():
        bad = [c for c in callers if not any(c == a or (not a.startswith("scpi_contrib::") and a in c) for a in allowed[m])]
        R.check(not bad and callers, "R13.3", "callers:" + m, "%s called only from %s" % (m, sorted(x.split("::")[-1] if "::" in x else x for x in allowed[m])), "%s is called from %s: only %s may (every queued item must be a reported failure or an *OPC event; ESR bits must come from errors)" % (m, sorted(bad) or "nowhere", sorted(allowed[m])))

    # ---- R13.4-6 SYSTem:ERRor handlers ------------------------------------------------------------------------------
    def handler(name):
        bs = [x for x in uc.bodies if x.name == "query" and name in (x.impl_self or "") and "Command" in (x.impl_trait or "")]
        if len(bs) != 1:
            raise facts.AnchorLost("Command::query for %s" % name)
        return bs[0]

    def run_query(body, loop_limit=3):
        e = CB.engine("scpi_contrib", inline=lambda n, r: r.endswith("Error::new"), loop_limit=loop_limit)
        args = [RefV(Cell(TOP, "cmd")), RefV(Cell(TOP, "dev"), (), True), RefV(Cell(TOP, "ctx"), (), True), SymV("params", "params"), SymV("response", "response")]
        return [CB.Path(r) for r in e.run(body, args)]

    b = handler("SystErrNextCommand")
    ps = run_query(b)
    good = bool(ps)
    kinds = set()
    for p in ps:
        if p.count("pop_front_error") != 1 or p.count("data") != 1 or p.names[-1] != "finish" or p.outcome != "ret:finish":
            good = False
            continue
        v = p.assumed_variant("pop_front_error", 0)
        d = p.call("data").args[1]
        if v == "Some":
            kinds.add("item")
            good = good and "pop_front_error" in repr(d) and ("field0" in repr(d) or "payload" in repr(d))
        elif v == "None":
            kinds.add("empty")
            good = good and d[:2] == ("agg", "default")
        else:
            good = False
    R.check(good and kinds == {"item", "empty"}, "R13.4", "SYST:ERR:NEXT?", "pops once; answers the popped item, or Error::default() when the queue is empty", "NEXT? must pop exactly one item and answer it (or the default error on an empty queue): %s" % [p.describe() for p in ps], where=b.span)
    # Error::default() is NoError
    db = [x for x in us.bodies if x.name == "default" and (x.impl_self or "").endswith("error::Error")]
    if len(db) == 1:
        e = sym.norm(sym.Sym(db[0].mir).local(0))
        ok = e[0] == "call" and e[1].endswith("Error::new") and e[3][0][0] == "aggr" and e[3][0][3] == "NoError"
        R.check(ok, "R13.4", "Error::default", "= Error::new(NoError): 0,\"No error\"", "Error::default() must be NoError: %s" % sym.show(e), where=db[0].span)
    else:
        R.anchor_lost("R13.4", "impl Default for Error")

    b = handler("SystErrCountCommand")
    ps = run_query(b)
    good = len(ps) == 1 and ps[0].names == ["num_errors", "data", "finish"] and CB.ret_of(ps[0].call("data").args[1], "num_errors") and ps[0].outcome == "ret:finish"
    R.check(good, "R13.5", "SYST:ERR:COUNt?", "answers num_errors(), removes nothing", "COUNt? must answer num_errors() and nothing else: %s" % [p.describe() for p in ps], where=b.span)

    b = handler("SystErrAllCommand")
    ps = run_query(b, loop_limit=4)
    good = bool(ps)
    kinds = set()
    for p in ps:
        if p.r.outcome == "cut":
            continue
        emp = p.assumed_ret("is_empty", 0)
        if p.names[:1] != ["is_empty"]:
            good = False
            continue
        if emp is True:
            kinds.add("empty")
            d = p.call("data")
            good = good and p.names == ["is_empty", "data", "finish"] and "NoError" in repr(d.args[1]) and p.outcome == "ret:finish"
        else:
            kinds.add("drain")
            # alternating pop / data(popped) ... final pop returns None, then finish
            seq = p.calls[1:]
            ok = seq and seq[-1].name.endswith("finish") and p.outcome == "ret:finish"
            body_ = seq[:-1]
            pops = [e for e in body_ if e.name.endswith("pop_front_error")]
            datas = [e for e in body_ if e.name.endswith("::data")]
            ok = ok and len(pops) == len(datas) + 1 and len(body_) == len(pops) + len(datas)
            for i, dcall in enumerate(datas):
                # i-th data follows the i-th pop and carries its payload
                ok = ok and body_[2 * i] is pops[i] and body_[2 * i + 1] is dcall and "pop_front_error" in repr(dcall.args[1])
            good = good and ok
    R.check(good and kinds == {"empty", "drain"}, "R13.6", "SYST:ERR:ALL?", "empty: one NoError item; otherwise pop until None, one datum per popped item in pop order", "ALL? must answer NoError on an empty queue, otherwise report every popped item in order until the queue is empty: %s" % [p.describe() for p in ps][:6], where=b.span)

    # ---- R13.7 *ESR? -----------------------------------------------------------------------------------------------
    b = handler("EsrCommand")
    ps = run_query(b)
    good = len(ps) == 1
    for p in ps:
        names = p.names
        ok = names == ["esr", "set_esr", "data", "finish"] and p.call("set_esr").args[1] == ("K", 0) and CB.ret_of(p.call("data").args[1], "esr") and p.outcome == "ret:finish"
        good = good and ok
    R.check(good, "R13.7", "*ESR?", "reads ESR, then clears it, answers the value read", "*ESR? must read the register before clearing it and answer the value read: %s" % [(p.describe(), [e.args[1:] for e in p.calls if e.name.endswith(('set_esr', '::data'))]) for p in ps], where=b.span)

    # ---- R13.9 links shared with C05 / C12 ----------------------------------------------------------------------------
    paths = D.run_paths()
    bad = []
    n_err = 0
    for p in paths:
        v = p.r.retval
        hooks = [e for e in p.calls if e.name.endswith("Device::handle_error")]
        if isinstance(v, EnumV) and v.name == "Err":
            n_err += 1
            if not (len(hooks) == 1 and hooks[0].args[1] == snapshot(v.fields.get(0)) and "run_tokens" in repr(hooks[0].args[1])):
                bad.append(p.describe())
        elif hooks:
            bad.append(p.describe())
    R.check(not bad and n_err >= 1, "R13.9", "run->hook", "every error returned by Node::run went through Device::handle_error exactly once; successful messages never do", "a failing message can return without being reported to the device (or a successful one is reported): %s" % bad)
    from . import c12
    c12.check_queues(R, "R13.10")

    # ---- R13.2 documented wiring ------------------------------------------------------------------------------------------
    try:
        PE = facts.program("examples")
        R.configs.append("examples")
        ue = PE.unit("minimal_scpi")
        hs = [x for x in ue.bodies if x.name == "handle_error" and "Device" in (x.impl_trait or "")]
        if len(hs) != 1:
            R.anchor_lost("R13.2", "Device::handle_error in examples/minimal_scpi.rs")
        else:
            S = sym.Sym(hs[0].mir)
            calls = list(hs[0].calls())
            ok = len(calls) == 1 and calls[0].name.endswith("ScpiDevice::push_error") and sym.norm(S.operand(calls[0].args[1])) == ("arg", 2, "err")
            R.check(ok, "R13.2", "documented-wiring", "example device: handle_error(err) = self.push_error(err)", "the documented wiring (examples/minimal_scpi.rs) must forward handle_error to push_error unchanged: %s" % [c.name for c in calls], where=hs[0].span)
    except SystemExit as e:
        R.violation("R13.2", "documented-wiring:build", "examples do not build: %s" % e)
