"""C17 - numeric_value parameters resolve MIN/MAX/DEF and never leave [min,max]."""
from .. import facts, fdai, scpi_models as M, sym
from ..fdai import EnumV, AggV, K, SymV, RefV, Cell, Loc, TOP, load, snapshot
from . import contrib as CB, convert as CV
from .c08 import keyword_paths, ok_value

LEVEL = "other"
TECHNIQUE = "FDAI tables: keyword table of TryFrom<Token> for NumericValue<T> (literal -> variant through mnemonic_compare, everything else to T::try_from), decision table of NumericBuilder::finish over the six variants with the inclusive NaN-safe guard form (t <= max and t >= min in positive form dominate Ok(t)), plumbing of finish_with/max/min/default, type defaults of integers, floats and unit quantities by evaluation; construction routes: builders obtained from the real constructors and setters in every order, then finish(); typed echo tables (sa/rules/echotable.py, witness/echo): `Node::run` folded end to end on messages to a witness command that pulls one parameter of the type (`next_data::<T>()` / `next_optional_data`) and writes it back - lexer, dispatcher, Parameters, the conversion, the ResponseData writer and the formatter analysed in place, lexical-core's parsers / integer writer by contract - the answer compared with a reference written from the property's statement: a u8 numeric_value resolved against 10..100 with default 50 and an i16 one against -1000..1000 without default: the five keywords in short and long form, look-alikes, values at and beyond the bounds, conversion errors"
LEVEL_TEXT = "The resolution function is enumerated over all six NumericValue variants with symbolic bounds: MAXimum/MINimum return the configured bounds, DEFault the configured default or -224, UP/DOWN -224, and a plain value is returned only on the path where both `t <= max` and `t >= min` were answered true by PartialOrd (positive form, so NaN - for which both are false - can never pass), -222 otherwise. Keyword recognition and builder plumbing are tabulated the same way."
LEVEL_NOTE = "Not decided: PartialOrd impls of user types; the underlying numeric conversions (C07/C08/C18). Trusted: rustc MIR, FDAI models."

NV = "scpi_contrib::scpi1999::numeric::NumericValue"
NB = "scpi_contrib::scpi1999::numeric::NumericBuilder"
KW = {"MAXimum": "Maximum", "MINimum": "Minimum", "DEFault": "Default", "UP": "Up", "DOWN": "Down"}


def inline_nb(n, r):
    return r == "scpi::error::Error::new" or "numeric::NumericBuilder" in r or "numeric::NumericValue" in r and not r.endswith("try_from")


def run(R, tier):
    R.configs.append("dflt")
    P = CB.prog()
    uc = P.unit("scpi_contrib")
    from . import dispatch as D_
    # private helpers of the numeric module are analysed in place
    _inh = D_.inline_inherent(("scpi_contrib::scpi1999::numeric::",))
    # (the constructor of the error value is analysed in place too: an error built with Error::new(code) is read like code.into())
    eng = CB.engine("scpi_contrib", inline=lambda n, r: r == "scpi::error::Error::new" or _inh(n, r) and (next((x for x in uc.bodies if x.npath == r), None) is not None and next((x for x in uc.bodies if x.npath == r)).j.get("vis") == "Restricted"), loop_limit=8)

    # ---- R17.1 keyword table --------------------------------------------------------------------------
    bs = [b for ty, b in CV.conversions(uc) if "NumericValue<" in ty]
    if len(bs) != 1:
        R.anchor_lost("R17.1", "TryFrom<Token> for NumericValue<T>")
    else:
        b = bs[0]
        res = eng.run(b, [M.token(eng, "CharacterProgramData")])
        seen = {}
        dflt = None
        for lit, order, r, ok in keyword_paths(res):
            v = ok_value(r)
            if lit is None:
                conv = [e for e in r.trace if e.kind == "call" and e.name.endswith("TryFrom::try_from")]
                dflt = (len(conv) == 1 and "CharacterProgramData" in repr(conv[0].args[0]), M.outcome(r), repr(snapshot(v)) if v is not None else None)
                continue
            seen.setdefault(lit.decode(), set()).add(v.name if isinstance(v, EnumV) else repr(v))
        if seen != {k: {v} for k, v in KW.items()} or dflt is None:
            # the keywords are not a chain of guards (e.g. a table that is searched): decide the same table by folding the
            # conversion on every keyword in its short and its long form, and the delegation on a text that is no keyword
            feng = CV.fold_engine("dflt", "scpi_contrib")
            seen2 = {}
            for kw in KW:
                short = "".join(c for c in kw if not c.islower())
                for text in {kw, short, kw.lower(), short.lower(), kw.upper()}:
                    rs = CV.fold_character(feng, b, text.encode()) or []
                    for r in rs:
                        v = ok_value(r)
                        seen2.setdefault(kw, set()).add(v.name if isinstance(v, EnumV) else M.outcome(r))
            rs = CV.fold_character(feng, b, b"NOKEYWORD") or []
            if seen2 == {k: {v} for k, v in KW.items()} and rs:
                seen = seen2
                dflt = (all(len([e for e in r.trace if e.kind == "call" and e.name.endswith("TryFrom::try_from")]) == 1 and "CharacterProgramData" in repr([e for e in r.trace if e.kind == "call" and e.name.endswith("TryFrom::try_from")][0].args[0]) for r in rs), None, None)
        R.check(seen == {k: {v} for k, v in KW.items()}, "R17.1", "keywords", "MAXimum/MINimum/DEFault/UP/DOWN -> the five special values (mnemonic_compare: short and long form)", "keyword table of NumericValue is %s, expected %s" % (seen, KW), where=b.span)
        # non-keyword character data and every other element type: the underlying conversion decides
        good = dflt is not None and dflt[0]
        for name in M.DATA:
            if name == "CharacterProgramData":
                continue
            rs = eng.run(b, [M.token(eng, name)])
            for r in rs:
                conv = [e for e in r.trace if e.kind == "call" and e.name.endswith("TryFrom::try_from")]
                v = ok_value(r)
                if not (len(conv) == 1 and CB.holds(conv[0].args[0], "tok-%s-0" % name)):
                    good = False
                if v is not None and not (isinstance(v, EnumV) and v.name == "Value" and "try_from" in repr(snapshot(v.fields.get(0)))):
                    good = False
                if v is None and M.outcome(r) != "Err(?)":
                    good = False
        R.check(good, "R17.1", "delegation", "anything that is not a keyword converts as the underlying type (Value(T::try_from(token)?))", "non-keyword elements must be converted by the underlying type unchanged", where=b.span)

    # ---- R17.2 / R17.3 finish table ---------------------------------------------------------------------------
    fb = uc.body(NB + "::finish")
    nb_fields = [f["name"] for f in uc.adts[NB]["variants"][0]["fields"]]
    nv_tab = {v["name"]: int(v["discr"]) for v in uc.adts[NV]["variants"]}

    def builder(variant, default):
        """the builder as the library's own constructor and setter leave it (how `no default yet` is stored is private)"""
        val = EnumV(NV, variant, nv_tab[variant], {0: SymV("T", "value")} if variant == "Value" else {})
        engb = CB.engine("scpi_contrib", inline=inline_nb, max_depth=8)
        rs = engb.run(uc.body(NB + "::new"), [val, SymV("MAX", "max"), SymV("MIN", "min")])
        bld = rs[0].retval if len(rs) == 1 and rs[0].outcome == "return" else None
        if bld is not None and isinstance(default, EnumV) and default.name == "Some":
            rs = engb.run(uc.body(NB + "::default"), [bld, default.fields[0]])
            bld = rs[0].retval if len(rs) == 1 and rs[0].outcome == "return" else None
        if bld is None:
            vals = {"value": val, "max": SymV("MAX", "max"), "min": SymV("MIN", "min"), "default": default}
            return AggV(NB, {i: vals.get(n, TOP) for i, n in enumerate(nb_fields)})
        return bld

    def outcomes(variant, default):
        res = eng.run(fb, [builder(variant, default)])
        out = []
        for r in res:
            v = ok_value(r)
            out.append((M.outcome(r), snapshot(v) if v is not None else None, CB.Path(r)))
        return out

    oc = outcomes("Maximum", fdai.mk_option(None))
    R.check([o[:2] for o in oc] == [("Ok", ("sym", "MAX", "max"))], "R17.2", "finish(Maximum)", "-> max", "MAXimum must resolve to the configured maximum: %s" % [o[:2] for o in oc], where=fb.span)
    oc = outcomes("Minimum", fdai.mk_option(None))
    R.check([o[:2] for o in oc] == [("Ok", ("sym", "MIN", "min"))], "R17.2", "finish(Minimum)", "-> min", "MINimum must resolve to the configured minimum: %s" % [o[:2] for o in oc], where=fb.span)
    oc = outcomes("Default", fdai.mk_option(SymV("DEF", "default")))
    R.check([o[:2] for o in oc] == [("Ok", ("sym", "DEF", "default"))], "R17.2", "finish(Default,configured)", "-> default", "DEFault must resolve to the configured default: %s" % [o[:2] for o in oc], where=fb.span)
    oc = outcomes("Default", fdai.mk_option(None))
    R.check([o[0] for o in oc] == ["Err(IllegalParameterValue)"], "R17.2", "finish(Default,none)", "-> -224 Illegal parameter value", "DEFault without a configured default must be -224: %s" % [o[:2] for o in oc], where=fb.span)
    for var in ("Up", "Down"):
        oc = outcomes(var, fdai.mk_option(SymV("DEF", "default")))
        R.check([o[0] for o in oc] == ["Err(IllegalParameterValue)"], "R17.2", "finish(%s)" % var, "-> -224", "%s must be -224: %s" % (var.upper(), [o[:2] for o in oc]), where=fb.span)
    oc = outcomes("Value", fdai.mk_option(None))
    good = bool(oc)
    n_ok = 0
    for o, v, p in oc:
        cmps = [e for e in p.calls if "PartialOrd" in e.name or e.name.split("::")[-1] in ("le", "ge", "lt", "gt", "contains")]
        asg = [e for e in p.r.trace if e.kind == "assume" and e.name == "sym"]
        if o == "Ok":
            n_ok += 1
            # exactly the two positive-form comparisons, both answered true
            names = sorted(e.name.split("::")[-1] for e in cmps)
            ok = names == ["ge", "le"] and v == ("sym", "T", "value")
            for e in cmps:
                nm = e.name.split("::")[-1]
                a0, a1 = repr(e.args[0]), repr(e.args[1])
                if nm == "le":
                    ok = ok and "'T'" in a0 and "'MAX'" in a1
                else:
                    ok = ok and "'T'" in a0 and "'MIN'" in a1
            ok = ok and len(asg) == 2 and all(a.args[1] is True for a in asg)
            good = good and ok
        elif o == "Err(DataOutOfRange)":
            good = good and any(a.args[1] is False for a in asg)
        else:
            good = False
    R.check(good and n_ok == 1, "R17.3", "finish(Value)", "Ok(t) only where `t <= max` and `t >= min` both hold (positive form: NaN cannot pass); -222 otherwise", "a plain value must be accepted exactly when t <= max && t >= min (inclusive, in positive form) and be -222 otherwise: %s" % [(o, [e.name.split('::')[-1] for e in p.calls]) for o, v, p in oc], where=fb.span)

    # ---- R17.4 plumbing ------------------------------------------------------------------------------------------
    eng_i = CB.engine("scpi_contrib", inline=inline_nb, max_depth=8)
    fw = uc.body(NV + "::finish_with")
    for variant, exp in (("Maximum", ("sym", "A_MAX", "amax")), ("Minimum", ("sym", "A_MIN", "amin"))):
        val = EnumV(NV, variant, nv_tab[variant], {})
        res = eng_i.run(fw, [val, SymV("A_MAX", "amax"), SymV("A_MIN", "amin")])
        got = [(M.outcome(r), snapshot(ok_value(r)) if ok_value(r) is not None else None) for r in res]
        R.check(bool(got) and set(got) == {("Ok", exp)}, "R17.4", "finish_with(%s)" % variant, "first argument is the maximum, second the minimum", "finish_with(max, min) routes its arguments wrongly: %s resolves to %s" % (variant, got), where=fw.span)
    val = EnumV(NV, "Value", nv_tab["Value"], {0: SymV("T", "value")})
    res = eng_i.run(fw, [val, SymV("A_MAX", "amax"), SymV("A_MIN", "amin")])
    good = bool(res)
    for r in res:
        for e in r.trace:
            if e.kind == "call" and e.name.split("::")[-1] == "le":
                good = good and "'A_MAX'" in repr(e.args[1])
            if e.kind == "call" and e.name.split("::")[-1] == "ge":
                good = good and "'A_MIN'" in repr(e.args[1])
    R.check(good, "R17.4", "finish_with(Value)", "value compared against the given max / min", "finish_with compares a value against the wrong bound", where=fw.span)
    # ---- R17.5 construction routes: the builder as the API hands it out, then finish() ------------------------------------------
    # (decided on values the real constructors and setters produce, in every order of the setters - not on a struct literal
    # assembled by the checker, which would miss a constructor that swaps or forgets a field)
    import itertools

    def run1(body, args):
        rs = eng_i.run(body, args)
        return rs[0].retval if len(rs) == 1 and rs[0].outcome == "return" else None

    def nv(variant):
        return EnumV(NV, variant, nv_tab[variant], {0: SymV("T", "value")} if variant == "Value" else {})

    def finish_of(bld):
        rs = eng_i.run(fb, [bld]) if bld is not None else []
        return sorted({(M.outcome(r), repr(snapshot(ok_value(r))) if ok_value(r) is not None else "") for r in rs})

    try:
        build_b = uc.body(NV + "::build")
        new_b = uc.body(NB + "::new")
        setters = {k: uc.body(NB + "::" + k) for k in ("max", "min", "default")}
    except facts.AnchorLost as e:
        R.anchor_lost("R17.5", str(e))
        build_b = None
    if build_b is not None:
        bad = []
        n_routes = 0
        # build(): limits are the type's own defaults
        for variant, want, unwanted in (("Maximum", "numeric_value_max", "numeric_value_min"), ("Minimum", "numeric_value_min", "numeric_value_max")):
            n_routes += 1
            got = finish_of(run1(build_b, [nv(variant)]))
            if not (len(got) == 1 and got[0][0] == "Ok" and want in got[0][1] and unwanted not in got[0][1]):
                bad.append("build().finish() of %s gives %s, expected the type's %s()" % (variant, got, want))
        # new(value, max, min)
        for variant, want in (("Maximum", "'NMAX'"), ("Minimum", "'NMIN'")):
            n_routes += 1
            got = finish_of(run1(new_b, [nv(variant), SymV("NMAX", "nmax"), SymV("NMIN", "nmin")]))
            if not (len(got) == 1 and got[0][0] == "Ok" and want in got[0][1]):
                bad.append("new(v, max, min).finish() of %s gives %s" % (variant, got))
        # build() followed by the three setters in every order
        for order in itertools.permutations(("max", "min", "default")):
            for variant, want in (("Maximum", "'SMAX'"), ("Minimum", "'SMIN'"), ("Default", "'SDEF'")):
                n_routes += 1
                bld = run1(build_b, [nv(variant)])
                for k in order:
                    bld = run1(setters[k], [bld, SymV({"max": "SMAX", "min": "SMIN", "default": "SDEF"}[k], k)]) if bld is not None else None
                got = finish_of(bld)
                if not (len(got) == 1 and got[0][0] == "Ok" and want in got[0][1]):
                    bad.append("build().%s.finish() of %s gives %s" % (".".join(order), variant, got))
        # a plain value through build(): accepted only between the type defaults, compared the right way round
        bld = run1(build_b, [nv("Value")])
        rs = eng_i.run(fb, [bld]) if bld is not None else []
        n_routes += 1
        okv = bool(rs)
        n_okv = 0
        for r in rs:
            if M.outcome(r) == "Ok":
                n_okv += 1
                cm = {e.name.split("::")[-1]: repr(e.args[1]) for e in r.trace if e.kind == "call" and e.name.split("::")[-1] in ("le", "ge")}
                okv = okv and "numeric_value_max" in cm.get("le", "") and "numeric_value_min" in cm.get("ge", "")
            elif M.outcome(r) != "Err(DataOutOfRange)":
                okv = False
        if not (okv and n_okv >= 1):
            bad.append("build().finish() of a plain value: %s" % [(M.outcome(r)) for r in rs])
        R.check(not bad, "R17.5", "routes", "MAXimum / MINimum / DEFault resolve to what the constructors and setters were given, in every order of the setters (%d routes)" % n_routes, "; ".join(bad[:3]), where=build_b.span)

    # setters write the like-named field
    for setter in ("max", "min", "default"):
        sb = uc.body(NB + "::" + setter)
        base = AggV(NB, {i: SymV("old:" + n, n) for i, n in enumerate(nb_fields)})
        res = eng.run(sb, [base, SymV("NEW", "new")])
        ok = len(res) == 1 and isinstance(res[0].retval, AggV)
        if ok:
            f = res[0].retval.fields
            for i, n in enumerate(nb_fields):
                v = f.get(i)
                if n == setter:
                    if setter == "default":
                        # (stored in whatever wrapper the private field uses - Some(v), Ok(v) ...; that DEFault then resolves
                        # to it is decided by the routes of R17.5)
                        ok = ok and isinstance(v, EnumV) and v.name in ("Some", "Ok") and isinstance(v.fields.get(0), SymV) and v.fields[0].id == "NEW"
                    else:
                        ok = ok and isinstance(v, SymV) and v.id == "NEW"
                else:
                    ok = ok and isinstance(v, SymV) and v.id == "old:" + n
        R.check(ok, "R17.4", "NumericBuilder::" + setter, "sets `%s` only" % setter, "NumericBuilder::%s must set field `%s` and keep the others" % (setter, setter), where=sb.span)
    # type defaults = T::MAX / T::MIN - by evaluating the function (helpers in place; num_traits::Bounded by contract)
    from .c08 import F_CONST
    import re as _re2

    def m_bounded(which):
        def m(eng_, st, fr, t, name, rname, args):
            g = [str(x) for x in eng_.concrete_gargs(st, t["callee"])]
            ty_ = next((x for x in g if x in CV.INTS or x in CV.FLOATS), None)
            if ty_ is None:
                return NotImplemented
            if ty_ in CV.INTS:
                lo_, hi_, _ = CV.INTS[ty_]
                return K(hi_ if which == "max" else lo_)
            return AggV("float", {0: K(F_CONST[ty_]["MAXimum" if which == "max" else "MINimum"]), 1: K(32 if ty_ == "f32" else 64)})
        return m

    deng = fdai.Engine(P, uc, inline=lambda n_, r_: r_.startswith("scpi_contrib::scpi1999::numeric::") and not r_.endswith(("numeric_value_max", "numeric_value_min")),
                       models={pre + "Bounded::" + w + "_value": m_bounded(w) for w in ("max", "min")
                               for pre in ("num_traits::", "num_traits::bounds::", "scpi::units::uom::num_traits::", "uom::num_traits::", "scpi::units::uom::num_traits::bounds::")}, max_paths=8)
    n_def = 0
    for b in uc.bodies:
        if b.name in ("numeric_value_max", "numeric_value_min") and "NumericValueDefaults" in (b.impl_trait or ""):
            ty = b.impl_self
            if ty in CV.INTS or ty in CV.FLOATS:
                n_def += 1
                try:
                    rs = deng.run(b, [])
                except (fdai.TooManyPaths, RecursionError):
                    rs = []
                v = rs[0].retval if len(rs) == 1 and rs[0].outcome == "return" else None
                if ty in CV.INTS:
                    lo, hi, _ = CV.INTS[ty]
                    exp = hi if b.name.endswith("max") else lo
                    R.check(isinstance(v, K) and v.v == exp, "R17.4", "%s::%s" % (ty, b.name), "= %d" % exp, "%s::%s() = %r, expected %d" % (ty, b.name, v, exp), where=b.span)
                else:
                    exp = F_CONST[ty]["MAXimum" if b.name.endswith("max") else "MINimum"]
                    got = v.fields.get(0).v if isinstance(v, AggV) and v.kind == "float" and isinstance(v.fields.get(0), K) else None
                    R.check(got == exp, "R17.4", "%s::%s" % (ty, b.name), "= type %s" % ("MAX" if b.name.endswith("max") else "MIN"), "%s::%s() has bits %r" % (ty, b.name, got if got is not None else v), where=b.span)
            elif "Quantity<" in (ty or ""):
                # a unit quantity's type default is the storage type's default of the same kind, as the stored value
                n_def += 1
                qeng = fdai.Engine(P, uc, inline=lambda n_, r_: r_.startswith("scpi_contrib::scpi1999::numeric::") and not r_.endswith(("numeric_value_max", "numeric_value_min")), models={}, max_paths=16)
                try:
                    rs = qeng.run(b, [])
                except (fdai.TooManyPaths, RecursionError):
                    rs = []
                import re as _re
                srcs = set()
                okq = len(rs) == 1 and rs[0].outcome == "return"
                if okq:
                    srcs = set(_re.findall(r"numeric_value_(?:max|min)", repr(fdai.snapshot(rs[0].retval))))
                R.check(okq and srcs == {b.name}, "R17.4", "Quantity::%s" % b.name, "wraps the storage type's %s()" % b.name, "Quantity::%s() is built from %s" % (b.name, sorted(srcs) or "nothing recognisable"), where=b.span)
    R.floor("R17.4", "type default impls", n_def, 26)

    # ---- R17.6 typed echo tables: a numeric_value parameter resolved by the builder, end to end --------------------------------------
    from . import echotable as ET
    ET.check(R, "R17.6", "numeric", tier, "`*NUM? <x>` (u8, 10..100, default 50) and `*NUMND? <x>` (i16, -1000..1000, no default) through Node::run on the echo witness: MAXimum / MINimum / DEFault / UP / DOWN in short and long form and look-alikes, values at and beyond both bounds, conversion errors of the underlying type", 70)
