"""C09 - response data is well-formed and denotes exactly the value that was formatted (framing and tables)."""
import re
from .. import facts, fdai, scpi_models as M, sym
from ..fdai import EnumV, AggV, K, SymV, RefV, Cell, Loc, TOP, load, snapshot, BytesV
from . import dispatch as D, convert as CV, contrib as CB
from .c08 import C_bytes

LEVEL = "other"
TECHNIQUE = "FDAI write tables of every ResponseData impl: 40 integer writers (writer instantiated at Self, returned slice pushed, buffer >= digits needed, prefix<->radix), real sentinels, bool, block header dataflow, string quoting, error item, list separators (Vec/ArrayVec siblings); writer/reader agreement (first emitted byte class vs the accept matrix; radix prefix vs the lexer's radix table); enum response text by constant folding (shared with C20)"
LEVEL_TEXT = "For every formattable type the sequence of formatter writes is enumerated on all abstract paths and compared with the IEEE 488.2 section 8 / SCPI-99 response syntax: which writer produces the digits (instantiated at the value's own type, on the value itself), that the slice returned by the writer is what gets pushed, prefixes and sentinels as constants, the block header built from the same slice whose length it announces, quotes opened/closed/doubled with the same byte, separators between list elements only. For types that are also parameters the lexical class of the first emitted byte is mapped through the lexer's dispatch to a token kind the type's own converter accepts."
LEVEL_NOTE = "Not decided: the digit strings lexical-core produces (shortest round-trip is its contract) and round-trip equality over all values; finite floats are written with lower-case `e` and unsigned exponent as pinned by the existing tests. Trusted: rustc MIR, lexical-core write contracts, FDAI models."

RD = "parser::response::ResponseData"
DIGITS = {"u8": 3, "i8": 4, "u16": 5, "i16": 6, "u32": 10, "i32": 11, "u64": 20, "i64": 20, "usize": 20, "isize": 20}
WRAP = {"Hex": (16, b"#H"), "Octal": (8, b"#Q"), "Binary": (2, b"#B")}


def fmt_impls(u, pred):
    return [b for b in u.bodies if b.name == "format_response_data" and RD in (b.impl_trait or "") and pred(b.impl_self or "")]


def run_fmt(eng, body, selfval):
    res = eng.run(body, [RefV(Cell(selfval, "self")), RefV(Cell(TOP, "fmt"), (), True)])
    return [CB.Path(r) for r in res]


def writes(p):
    """formatter writes on a path: list of (method, arg snapshot)"""
    out = []
    for e in p.calls:
        nm = e.name.split("::")[-1]
        if nm in ("push_str", "push_byte", "push_ascii", "data_separator", "header_separator") and ("Formatter" in e.name):
            out.append((nm, e.args[1] if len(e.args) > 1 else None, e))
        elif nm == "format_response_data":
            out.append((nm, e.args[0], e))
    return out


def complete(p):
    """path on which no formatter write failed"""
    return not any(e.kind == "assume" and e.name == "variant" and e.args[1] == "Err" and "'ret'" in repr(e.args[0]) for e in p.r.trace) and p.r.outcome == "return"


def array_len(ty):
    m = re.match(r"\[u8; (\d+)\]", ty)
    return int(m.group(1)) if m else None


def run(R, tier):
    R.configs.append("dflt")
    P = D.prog()
    u = P.unit("scpi")
    eng = fdai.Engine(P, u, inline=lambda n, r: False, models={}, loop_limit=3)

    # ---- R09.1 integer writers ---------------------------------------------------------------------
    n_int = 0
    for ity, nd in sorted(DIGITS.items()):
        bs = fmt_impls(u, lambda s, ity=ity: s == ity)
        if len(bs) != 1:
            R.anchor_lost("R09.1", "ResponseData for %s" % ity)
            continue
        b = bs[0]
        n_int += 1
        ps = [p for p in run_fmt(eng, b, SymV("value", "value"))]
        good = len(ps) == 1
        for p in ps:
            w = p.call("write")
            ws = writes(p)
            g = ((w.extra or {}).get("gargs") or ()) if w else ()
            ok = w is not None and w.name == "lexical_core::write" and tuple(g[:1]) == (ity,) and w.args[0] == ("sym", "value", "value")
            ok = ok and len(ws) == 1 and ws[0][0] == "push_str" and CB.ret_of(ws[0][1], "write") and p.outcome == "ret:push_str"
            good = good and ok
        bufs = [array_len(l["ty"]) for l in b.mir.locals if array_len(l["ty"])]
        R.check(good and bufs and min(bufs) >= nd, "R09.1", "%s:decimal" % ity, "lexical_core::write::<%s>(*self) into a %s-byte stack buffer (>= %d); the returned slice is pushed" % (ity, bufs, nd), "decimal writer of %s: must format *self with write::<%s> into a buffer of at least %d bytes and push the slice the writer returns (buffers %s): %s" % (ity, ity, nd, bufs, [p.describe() for p in ps]), where=b.span)
        for wname, (radix, prefix) in WRAP.items():
            bs2 = fmt_impls(u, lambda s, ity=ity, wname=wname: s.endswith("format::%s<%s>" % (wname, ity)))
            if len(bs2) != 1:
                R.anchor_lost("R09.1", "ResponseData for %s<%s>" % (wname, ity))
                continue
            b2 = bs2[0]
            n_int += 1
            ps = run_fmt(eng, b2, AggV("wrapper", {0: SymV("value", "value")}))
            good = bool(ps)
            for p in ps:
                if not complete(p):
                    continue
                w = p.call("write_with_options")
                ws = writes(p)
                g = ((w.extra or {}).get("gargs") or ()) if w else ()
                rad = (int(g[1]) >> 104) & 0xFF if len(g) > 1 and g[1].isdigit() else None
                ok = w is not None and tuple(g[:1]) == (ity,) and rad == radix and w.args[0] == ("sym", "value", "value")
                ok = ok and [x[0] for x in ws] == ["push_str", "push_str"] and C_bytes(ws[0][1]) == prefix and CB.ret_of(ws[1][1], "write_with_options")
                good = good and ok
            bufs = [array_len(l["ty"]) for l in b2.mir.locals if array_len(l["ty"])]
            need = C_bits(ity) + (1 if ity.startswith("i") else 0)
            R.check(good and bufs and min(bufs) >= need, "R09.1", "%s:%s" % (ity, wname), "prefix %r then write_with_options::<%s, radix %d>(self.0); buffer %s >= %d" % (prefix.decode(), ity, radix, bufs, need), "%s<%s> writer: prefix %r, radix %d, value self.0, returned slice pushed, buffer >= %d bytes required: %s buffers %s" % (wname, ity, prefix.decode(), radix, need, [p.describe() for p in ps], bufs), where=b2.span)
    R.floor("R09.1", "integer writers", n_int, 40)
    # prefix letter <-> radix agrees with the lexer's radix table (writer/reader agreement)
    rb = u.body("scpi::parser::tokenizer::Tokenizer::read_nondecimal_data")
    engl = fdai.Engine(P, u, inline=lambda n, r: False, models={})
    reader = {}
    for letter in b"HhQqBbXx":
        res = engl.run(rb, [RefV(Cell(TOP, "tok"), (), True), K(letter)])
        rad = set()
        for r in res:
            for e in r.trace:
                if e.kind == "call" and "parse_partial_with_options" in e.name:
                    g = (e.extra or {}).get("gargs") or ()
                    if len(g) > 1 and g[1].isdigit():
                        rad.add((int(g[1]) >> 104) & 0xFF)
            if not any(e.kind == "call" and "parse_partial" in e.name for e in r.trace):
                rad.add(M.outcome(r))
        reader[chr(letter)] = rad
    exp_reader = {"H": {16}, "h": {16}, "Q": {8}, "q": {8}, "B": {2}, "b": {2}, "X": {"Err(NumericDataError)"}, "x": {"Err(NumericDataError)"}}
    R.check(reader == exp_reader, "R09.8", "radix-letters", "reader: H/h->16, Q/q->8, B/b->2, other -> -120; writers use the same letters", "lexer radix table %s disagrees with the #H/#Q/#B writers" % reader, where=rb.span)

    # ---- R09.2 reals -------------------------------------------------------------------------------------
    for fty in ("f32", "f64"):
        bs = fmt_impls(u, lambda s, fty=fty: s == fty)
        if len(bs) != 1:
            R.anchor_lost("R09.2", "ResponseData for %s" % fty)
            continue
        b = bs[0]
        ps = run_fmt(eng, b, SymV("value", "value"))
        table = {}
        good = bool(ps)
        for p in ps:
            nan = p.assumed_ret("is_nan", 0)
            inf = p.assumed_ret("is_infinite", 0)
            neg = p.assumed_ret("is_sign_negative", 0)
            if p.assumed_ret("is_sign_positive", 0) is not None:
                neg = not p.assumed_ret("is_sign_positive", 0)
            ws = writes(p)
            if len(ws) != 1 or ws[0][0] not in ("push_str", "push_ascii"):
                good = False
                continue
            lit = C_bytes(ws[0][1])
            if nan is True:
                table["nan"] = lit
            elif inf is True:
                table["-inf" if neg else "+inf"] = lit
            elif nan is False and inf is False:
                w = p.call("write")
                g = ((w.extra or {}).get("gargs") or ()) if w else ()
                table["finite"] = "write" if (w is not None and tuple(g[:1]) == (fty,) and w.args[0] == ("sym", "value", "value") and CB.ret_of(ws[0][1], "write")) else "bad:%s" % p.describe()
            else:
                good = False
        exp = {"nan": b"9.91E+37", "+inf": b"9.9E+37", "-inf": b"-9.9E+37", "finite": "write"}
        R.check(good and table == exp, "R09.2", fty, "NaN -> 9.91E+37, +inf -> 9.9E+37, -inf -> -9.9E+37 (SCPI-99 7.2.1.4/5); finite -> lexical_core::write::<%s>(*self)" % fty, "%s response table is %s, expected %s" % (fty, table, exp), where=b.span)

    # ---- R09.3 bool -------------------------------------------------------------------------------------------
    bs = fmt_impls(u, lambda s: s == "bool")
    if len(bs) == 1:
        tab = {}
        for v in (True, False):
            ps = run_fmt(eng, bs[0], K(v))
            ws = [writes(p) for p in ps]
            tab[v] = [(w[0][0], w[0][1]) for w in ws if len(w) == 1]
        R.check(tab == {True: [("push_byte", ("K", 49))], False: [("push_byte", ("K", 48))]}, "R09.3", "bool", "true -> '1', false -> '0'", "bool response table %s" % tab, where=bs[0].span)
    else:
        R.anchor_lost("R09.3", "ResponseData for bool")

    # ---- R09.4 block ---------------------------------------------------------------------------------------------
    bs = fmt_impls(u, lambda s: s.endswith("format::Arbitrary<'a>"))
    if len(bs) != 1:
        R.anchor_lost("R09.4", "ResponseData for Arbitrary")
    else:
        b = bs[0]
        ps = run_fmt(eng, b, AggV("Arbitrary", {0: SymV("payload", "payload")}))
        good = bool(ps)
        kinds = set()
        for p in ps:
            w = p.call("write")
            if w is None or p.calls[0] is not None and p.count("write") != 1:
                good = False
                continue
            g = ((w.extra or {}).get("gargs") or ())
            # the number formatted is the payload's length
            if tuple(g[:1]) != ("usize",) or not ("len" in repr(w.args[0]) and "payload" in repr(w.args[0])):
                good = False
            gt = [e for e in p.r.trace if e.kind == "assume" and e.name == "sym" and isinstance(e.args[0][2], tuple) and e.args[0][2][0] == "binop" and e.args[0][2][1] in ("Gt", "Ge", "Lt", "Le")]
            ws = writes(p)
            if p.outcome == "Err(ExecutionError)":
                kinds.add("too-long")
                if ws or not gt:
                    good = False
                else:
                    d = gt[0].args[0][2]
                    lim_ok = d[1] == "Gt" and ("len" in repr(d[2]) and "write" in repr(d[2])) and d[3] == ("K", 9) and gt[0].args[1] is True
                    good = good and lim_ok
                continue
            if not complete(p):
                continue
            kinds.add("ok")
            seq = [x[0] for x in ws]
            ok = seq == ["push_byte", "format_response_data", "push_str", "push_str"] and ws[0][1] == ("K", 35)
            if ok:
                # digit count = length of the very slice that is then pushed as the length digits
                dc = ws[1][1]
                ok = "len" in repr(dc) and "write" in repr(dc) and CB.ret_of(ws[2][1], "write") and ("sym", "payload", "payload") in _flat(ws[3][1])
                ok = ok and p.outcome == "ret:push_str"
            good = good and ok
        R.check(good and kinds == {"ok", "too-long"}, "R09.4", "Arbitrary", "'#', digit count (= length of the length digits), the length digits (decimal of payload.len()), payload - in this order; more than 9 length digits -> error", "definite-length block writer must emit '#', the number of length digits, the length digits and the payload, all derived from the same payload/digit slice: %s" % [(p.outcome, [x[0] for x in writes(p)]) for p in ps], where=b.span)
    bs = fmt_impls(u, lambda s: s == "&'a str")
    if len(bs) == 1:
        ps = run_fmt(eng, bs[0], SymV("s", "s"))
        ok = len(ps) == 1 and ps[0].names == ["as_bytes", "format_response_data"] and "Arbitrary" in (ps[0].calls[1].extra or {}).get("self_ty", "") and ps[0].outcome == "ret:format_response_data"
        R.check(ok, "R09.4", "&str", "delegates to the block writer on its bytes", "&str must be written as a definite-length block of its bytes: %s" % [p.describe() for p in ps], where=bs[0].span)

    # ---- character / expression ---------------------------------------------------------------------------------------
    bs = fmt_impls(u, lambda s: s.endswith("format::Character<'a>"))
    if len(bs) == 1:
        ps = run_fmt(eng, bs[0], AggV("Character", {0: SymV("payload", "payload")}))
        ws = [writes(p) for p in ps]
        ok = len(ps) == 1 and [(x[0], x[1]) for x in ws[0]] == [("push_ascii", ("sym", "payload", "payload"))]
        R.check(ok, "R09.5", "Character", "the mnemonic bytes, unquoted", "Character must be written as its bytes: %s" % [p.describe() for p in ps], where=bs[0].span)
    bs = fmt_impls(u, lambda s: s.endswith("format::Expression<'a>"))
    if len(bs) == 1:
        ps = [p for p in run_fmt(eng, bs[0], AggV("Expression", {0: SymV("payload", "payload")})) if complete(p)]
        ws = [writes(p) for p in ps]
        ok = len(ps) == 1 and [(x[0], x[1]) for x in ws[0]] == [("push_byte", ("K", 40)), ("push_ascii", ("sym", "payload", "payload")), ("push_byte", ("K", 41))]
        R.check(ok, "R09.5", "Expression", "'(' payload ')'", "Expression must be written in parentheses: %s" % [p.describe() for p in ps], where=bs[0].span)

    # ---- R09.5 string ----------------------------------------------------------------------------------------------------
    check_string_writer(R, P, u)

    # ---- R09.6 error item ----------------------------------------------------------------------------------------------------
    check_error_writer(R, P, u)

    # ---- R09.7 lists --------------------------------------------------------------------------------------------------------------
    for who in ("alloc::vec::Vec<T>", "arrayvec::ArrayVec<T, N>"):
        bs = fmt_impls(u, lambda s, who=who: s == who)
        if len(bs) != 1:
            R.anchor_lost("R09.7", "ResponseData for %s" % who)
            continue
        b = bs[0]
        engl = fdai.Engine(P, u, inline=lambda n, r: r.endswith("error::Error::new"), models={}, loop_limit=3)
        ps = run_fmt(engl, b, SymV("list", "list"))
        kinds = set()
        good = bool(ps)
        for p in ps:
            if p.r.outcome == "cut":
                continue
            ws = writes(p)
            if p.outcome == "Err(DeviceSpecificError)":
                kinds.add("empty")
                good = good and not ws
                continue
            if not complete(p):
                continue
            seq = [(x[0], x[1] if x[0] == "push_byte" else None) for x in ws]
            # element (',' element)*
            ok = len(seq) >= 1 and seq[0] == ("format_response_data", None)
            rest = seq[1:]
            ok = ok and len(rest) % 2 == 0 and all(rest[i] == ("push_byte", ("K", 44)) and rest[i + 1] == ("format_response_data", None) for i in range(0, len(rest), 2))
            # every element written is an item drawn from the iterator, in order, each once
            items = [repr(x[1]) for x in ws if x[0] == "format_response_data"]
            ok = ok and len(set(items)) == len(items) and all("next" in it for it in items)
            kinds.add("n=%d" % len(items))
            good = good and ok and M.outcome(p.r) == "Ok"
        R.check(good and {"empty", "n=1", "n=2"} <= kinds, "R09.7", who.split("<")[0].split("::")[-1], "elements joined by ',' (none leading or trailing); empty list -> error", "list writer for %s must emit element (',' element)* and reject an empty list: %s" % (who, [(p.outcome, [x[0] for x in writes(p)]) for p in ps]), where=b.span)

    # ---- R09.8 writer/reader agreement ------------------------------------------------------------------------------------------------
    rows = CV.matrix("dflt", "scpi")
    first_class = {
        "bool": ("decimal", "DecimalNumericProgramData"), "f32": ("decimal", "DecimalNumericProgramData"), "f64": ("decimal", "DecimalNumericProgramData"),
        "&'a [u8]": ("quote", "StringProgramData"), "&'a str": ("block", "ArbitraryBlockData"),
        "parser::format::Arbitrary<'a>": ("block", "ArbitraryBlockData"), "parser::format::Character<'a>": ("alpha", "CharacterProgramData"), "parser::format::Expression<'a>": ("paren", "ExpressionProgramData"),
    }
    for ity in DIGITS:
        first_class[ity] = ("decimal", "DecimalNumericProgramData")
    n_ag = 0
    for ty, (cls, tok) in sorted(first_class.items()):
        if (ty, tok) not in rows:
            R.anchor_lost("R09.8", "TryFrom<Token> for %s" % ty)
            continue
        n_ag += 1
        oc = rows[(ty, tok)][0]
        R.check("Ok" in oc, "R09.8", "agree:%s" % ty, "written as %s data, which its own converter accepts" % tok, "%s is written as %s but its TryFrom<Token> never accepts that element type (%s): the response cannot be read back" % (ty, tok, sorted(oc)))
    R.floor("R09.8", "types that are both response data and parameter", n_ag, 18)

    # ---- R09.9 enum response text (constant folding; same analysis as C20/R20.4) --------------------------------------------------------
    from . import c20
    PW = facts.program("witness")
    R.configs.append("witness")
    prog = facts.Merged(PW, P)
    n = 0
    for uu, self_ty, fm, mn, tf in c20.derived_enums(prog):
        adt_path, adt = c20.enum_adt(uu, self_ty)
        if adt is None:
            continue
        for v in adt["variants"]:
            n += 1
            texts = c20.response_text(prog, uu, adt_path, v["name"], int(v["discr"]), len(v["fields"]))
            key = "%s::%s" % (self_ty.split("::")[-1], v["name"])
            if len(texts) != 1 or not isinstance(next(iter(texts)), bytes):
                R.violation("R09.9", key, "response text of %s cannot be determined: %s" % (key, sorted(map(str, texts))))
                continue
            text = next(iter(texts))
            sel = c20.select(prog, uu, fm, text)
            wf = re.fullmatch(rb"[A-Za-z][A-Za-z0-9_]{0,11}", text) is not None
            R.check(sel == {v["name"]} and wf, "R09.9", key, "written as %r (character data) which selects the same variant" % text.decode("latin1"), "enum variant %s is written as %r which %s" % (key, text.decode("latin1"), "selects %s" % sorted(map(str, sel)) if sel != {v["name"]} else "is not valid character response data"))
    R.floor("R09.9", "enum variants", n, 19)


def C_bits(ity):
    return CV.INTS[ity][2]


def _flat(t):
    out = []
    if isinstance(t, tuple):
        out.append(t)
        for x in t:
            out.extend(_flat(x))
    return out


def check_string_writer(R, P, u):
    bs = fmt_impls(u, lambda s: s == "&'a [u8]")
    if len(bs) != 1:
        R.anchor_lost("R09.5", "ResponseData for &[u8]")
        return
    b = bs[0]
    eng = fdai.Engine(P, u, inline=lambda n, r: "push_escaped" in r or "push_quoted" in r, models={}, loop_limit=3)
    ps = run_fmt(eng, b, SymV("text", "text"))
    good = bool(ps)
    kinds = set()
    split_closure = None
    for p in ps:
        if p.r.outcome == "cut":
            continue
        asc = p.assumed_ret("is_ascii", 0)
        ws = writes(p)
        if asc is False:
            kinds.add("non-ascii")
            good = good and p.outcome == "Err(ExecutionError)" and not ws
            continue
        if asc is None:
            good = False
            continue
        sp = p.call("split")
        if sp is not None:
            for a in sp.args:
                if isinstance(a, tuple) and a and a[0] == "closure":
                    split_closure = a[1]
            if "'text'" not in repr(sp.args[0]):
                good = False
        if not complete(p):
            continue
        seq = [(x[0], C_bytes(x[1]) if x[0] == "push_str" else (x[1] if x[0] == "push_byte" else "piece")) for x in ws]
        if not seq or seq[0] != ("push_byte", ("K", 34)) or seq[-1] != ("push_byte", ("K", 34)):
            good = False
            continue
        inner = seq[1:-1]
        if not inner:
            continue  # zero pieces: excluded by the contract of slice::Split (yields at least one item)
        # piece ( '""' piece )*
        ok = len(inner) >= 1 and inner[0][0] == "push_ascii"
        rest = inner[1:]
        ok = ok and len(rest) % 2 == 0 and all(rest[i] == ("push_str", b'""') and rest[i + 1][0] == "push_ascii" for i in range(0, len(rest), 2))
        pieces = [repr(x[1]) for x in ws if x[0] == "push_ascii"]
        ok = ok and all("next" in pc for pc in pieces) and len(set(pieces)) == len(pieces)
        kinds.add("pieces=%d" % len(pieces))
        good = good and ok
    R.check(good and {"non-ascii", "pieces=1", "pieces=2"} <= kinds, "R09.5", "&[u8]", "non-ASCII -> error; '\"' piece ('\"\"' piece)* '\"' with the pieces of split(text, == '\"')", "string writer must reject non-ASCII, open and close with '\"' and double every embedded quote: %s" % [(p.outcome, [x[0] for x in writes(p)]) for p in ps], where=b.span)
    if split_closure:
        cb = eng.find_body(split_closure)
        ok = True
        for byte, exp in ((34, True), (39, False), (65, False), (44, False)):
            rr = eng.run(cb, [RefV(Cell(AggV("closure-env", {}), "env"), (), True), RefV(Cell(K(byte), "b"))])
            ok = ok and len(rr) == 1 and isinstance(rr[0].retval, K) and bool(rr[0].retval.v) == exp
        R.check(ok, "R09.5", "&[u8]:split-byte", "pieces are split at '\"' (the byte that is doubled and that delimits the string)", "the string writer splits at a byte other than '\"'", where=cb.span)
    else:
        R.anchor_lost("R09.5", "split predicate of the string writer")


def check_error_writer(R, P, u):
    bs = [b for b in u.bodies if b.name == "format_response_data" and RD in (b.impl_trait or "") and (b.impl_self or "").endswith("error::Error")]
    if len(bs) != 1:
        R.anchor_lost("R09.6", "ResponseData for Error")
        return
    b = bs[0]
    eng = fdai.Engine(P, u, inline=lambda n, r: "push_escaped" in r or "push_quoted" in r, models={}, loop_limit=3)
    ps = run_fmt(eng, b, SymV("err", "err"))
    good = bool(ps)
    kinds = set()
    detail = []
    for p in ps:
        if not complete(p) or p.r.outcome == "cut":
            continue
        ws = writes(p)
        ext = p.assumed_variant("get_extended", 0)
        seq = [x[0] for x in ws]
        if p.outcome == "Err(ExecutionError)" and (p.assumed_ret("is_ascii", 0) is False or p.assumed_ret("is_ascii", 1) is False):
            # non-ASCII text is refused before the quoted part is started (only the code may have been written)
            good = good and len(ws) <= 2
            continue
        # code first, then the data separator
        ok = len(ws) >= 3 and ws[0][0] == "format_response_data" and "get_code" in repr(ws[0][1]) and "'err'" in repr(ws[0][1]) and ws[1][0] == "data_separator"
        body = ws[2:]
        if ext == "None":
            kinds.add("plain")
            # message through the string writer (quotes doubled, ASCII checked)
            ok = ok and len(body) == 1 and body[0][0] == "format_response_data" and "get_message" in repr(body[0][1]) and "[u8]" in ((body[0][2].extra or {}).get("self_ty") or "")
        elif ext == "Some":
            kinds.add("extended")
            # "message;extended" inside ONE pair of quotes, each text part written through the quote-doubling writer
            flat = [(x[0], C_bytes(x[1]) if x[0] == "push_str" else x[1]) for x in body]
            raw_parts = [x for x in body if x[0] in ("push_str", "push_ascii") and ("get_message" in repr(x[1]) or "get_extended" in repr(x[1]) or "payload" in repr(x[1]))]
            esc_calls = [e for e in p.calls if e.name.split("::")[-1] in ("push_escaped", "push_quoted")]
            ok = ok and body and body[0][:2] == ("push_byte", ("K", 34)) and body[-1][:2] == ("push_byte", ("K", 34))
            ok = ok and ("push_byte", ("K", 59)) in [(x[0], x[1]) for x in body]
            # no text part may be pushed raw: it must go through the escaping helper (pieces of a split at '"')
            text_pushes = [x for x in body if x[0] in ("push_str", "push_ascii") and C_bytes(x[1]) is None]
            raw = [x for x in text_pushes if "next" not in repr(x[1])]
            if raw:
                ok = False
                detail.append("message/extended text pushed raw (embedded '\"' not doubled): %s" % [sym_short(x[1]) for x in raw])
        else:
            ok = False
        good = good and ok
        if not ok:
            detail.append("%s: %s" % (ext, seq))
    R.check(good and kinds == {"plain", "extended"}, "R09.6", "Error", "code ',' then the quoted message[;extended] with embedded quotes doubled", "error-queue item must be written as code,\"message[;extended]\" with every text part quote-doubled: %s" % detail[:3], where=b.span)


def sym_short(s):
    r = repr(s)
    for k in ("get_message", "get_extended", "payload"):
        if k in r:
            return k
    return r[:60]
