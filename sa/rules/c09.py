"""C09 - response data is well-formed and denotes exactly the value that was formatted (framing and tables)."""
import re, json, os
VERIF = os.path.dirname(os.path.dirname(os.path.dirname(os.path.abspath(__file__))))
from .. import facts, fdai, scpi_models as M, sym
from ..fdai import EnumV, AggV, K, SymV, RefV, Cell, Loc, TOP, load, snapshot, BytesV
from . import dispatch as D, convert as CV, contrib as CB
from .c08 import C_bytes

LEVEL = "other"
TECHNIQUE = "emission tables: each non-numeric ResponseData writer (block, &str, character, expression, quoted string, error item, Vec/ArrayVec lists) is interpreted by the FDAI engine on representative values - helpers and nested workspace writers analysed in place, Formatter calls as events - and everything it sends to the Formatter is compared with the IEEE 488.2 section 8.7 encoding computed independently, including the failure paths (prefix-only output, error returned); FDAI write tables for the 40 integer writers, real sentinels and bool; writer/reader agreement (first emitted byte class vs the accept matrix; radix prefix vs the lexer's radix table); enum response text by constant folding (shared with C20); custom error items with standard numbers keep their own text; typed echo tables (sa/rules/echotable.py, witness/echo): `Node::run` folded end to end on messages to a witness command that pulls one parameter of the type (`next_data::<T>()` / `next_optional_data`) and writes it back - lexer, dispatcher, Parameters, the conversion, the ResponseData writer and the formatter analysed in place, lexical-core's parsers / integer writer by contract - the answer compared with a reference written from the property's statement: string / block / character / expression data read and written back (quotes doubled, block header stating the payload length); the decimal text of MIN / MAX of every integer type folded through the type's own reader; float writers folded on values of each class (NaN, +/-inf, negative zero, +0, subnormal, ordinary, extreme) with the sign of a negative zero demanded in front of the digits lexical-core writes (R09.2, F24); the unit-level latch and finish() idempotence tables (R09.13); the largest value of each non-decimal writer read back through the lexer's table (R09.8)"
LEVEL_TEXT = "For strings, blocks (payload lengths across 9/10, 99/100, 999/1000; the 9-digit limit observed by substituting the length writer), character/expression data, error items (standard and custom codes, with and without extended text, embedded quotes, non-ASCII text) and lists of 0..5 elements the complete output of the writer is computed from its MIR and must equal the reference encoding; every path on which a Formatter call fails must have written a prefix of it and return the error. For numbers: which lexical-core writer produces the digits (instantiated at the value's own type, on the value itself), that the returned slice is what is pushed, buffer sizes, prefixes and sentinels as constants. For types that are also parameters the class of the first emitted byte is mapped through the lexer's dispatch to a token kind the type's own converter accepts."
LEVEL_NOTE = "Not decided: the digit strings lexical-core produces (its contract, audited once against the pinned crate: every finite value is written in a form that reads back to the same bits except negative zero, whose sign it drops - the float writers are therefore folded on values of each class, with a row for negative zero that demands the sign in front of the digits, F24) and round-trip equality over all values; finite floats are written with lower-case `e` and unsigned exponent as pinned by the existing tests. Trusted: rustc MIR, lexical-core write contracts, FDAI models."

RD = "parser::response::ResponseData"
DIGITS = {"u8": 3, "i8": 4, "u16": 5, "i16": 6, "u32": 10, "i32": 11, "u64": 20, "i64": 20, "usize": 20, "isize": 20}
WRAP = {"Hex": (16, b"#H"), "Octal": (8, b"#Q"), "Binary": (2, b"#B")}


def fmt_impls(u, pred):
    return [b for b in u.bodies if b.name == "format_response_data" and RD in (b.impl_trait or "") and pred(b.impl_self or "")]


def run_fmt(eng, body, selfval):
    res = eng.run(body, [RefV(Cell(selfval, "self")), RefV(Cell(TOP, "fmt"), (), True)])
    return [CB.Path(r) for r in res]


def writes(p):
    """formatter writes on a path: list of (method, arg snapshot)"""
    out = []
    for e in p.calls:
        nm = e.name.split("::")[-1]
        if nm in ("push_str", "push_byte", "push_ascii", "data_separator", "header_separator") and ("Formatter" in e.name):
            out.append((nm, e.args[1] if len(e.args) > 1 else None, e))
        elif nm == "format_response_data":
            out.append((nm, e.args[0], e))
    return out


def complete(p):
    """path on which no formatter write failed"""
    return not any(e.kind == "assume" and e.name == "variant" and e.args[1] == "Err" and "'ret'" in repr(e.args[0]) for e in p.r.trace) and p.r.outcome == "return"


def array_len(ty):
    m = re.match(r"\[u8; (\d+)\]", ty)
    return int(m.group(1)) if m else None


def buf_len(snap):
    """length of the byte buffer an event argument refers to (`&mut [b'0'; N]`), from its snapshot"""
    n = 0
    while isinstance(snap, tuple) and snap and snap[0] == "ref" and n < 4:
        snap = snap[3] if len(snap) > 3 else None
        n += 1
    if isinstance(snap, tuple) and snap and snap[0] == "agg" and snap[1] == "array":
        return len(snap[2])
    if isinstance(snap, tuple) and snap and snap[0] == "bytes":
        return len(snap[1])
    return None


def int_writers(R, rule="R09.1"):
    """decimal and #H/#Q/#B writers of all integer types: lexical-core's writer instantiated at the value's type (and
    radix), on the value, into a stack buffer large enough for every value of the type (lexical-core asserts - panics -
    on a short buffer), the returned slice pushed after the right prefix"""
    P = D.prog()
    u = P.unit("scpi")
    _resp_helpers = D.inline_inherent(("scpi::parser::response::", "scpi::parser::format::"))
    eng = fdai.Engine(P, u, inline=lambda n, r: _resp_helpers(n, r), models={}, loop_limit=3)
    # ---- R09.1 integer writers ---------------------------------------------------------------------
    n_int = 0
    for ity, nd in sorted(DIGITS.items()):
        bs = fmt_impls(u, lambda s, ity=ity: s == ity)
        if len(bs) != 1:
            R.anchor_lost(rule, "ResponseData for %s" % ity)
            continue
        b = bs[0]
        n_int += 1
        ps = [p for p in run_fmt(eng, b, SymV("value", "value"))]
        good = len(ps) == 1
        for p in ps:
            w = p.call("write")
            ws = writes(p)
            g = ((w.extra or {}).get("gargs") or ()) if w else ()
            ok = w is not None and w.name == "lexical_core::write" and tuple(g[:1]) == (ity,) and w.args[0] == ("sym", "value", "value")
            ok = ok and len(ws) == 1 and ws[0][0] == "push_str" and CB.ret_of(ws[0][1], "write") and p.outcome == "ret:push_str"
            good = good and ok
        bufs = [buf_len(p.call("write").args[1]) for p in ps if p.call("write") is not None and len(p.call("write").args) > 1]
        bufs = [x for x in bufs if x is not None]
        R.check(good and bufs and min(bufs) >= nd, rule, "%s:decimal" % ity, "lexical_core::write::<%s>(*self) into a %s-byte stack buffer (>= %d); the returned slice is pushed" % (ity, bufs, nd), "decimal writer of %s: must format *self with write::<%s> into a buffer of at least %d bytes and push the slice the writer returns (buffers %s): %s" % (ity, ity, nd, bufs, [p.describe() for p in ps]), where=b.span)
        for wname, (radix, prefix) in WRAP.items():
            bs2 = fmt_impls(u, lambda s, ity=ity, wname=wname: s.endswith("format::%s<%s>" % (wname, ity)))
            if len(bs2) != 1:
                R.anchor_lost(rule, "ResponseData for %s<%s>" % (wname, ity))
                continue
            b2 = bs2[0]
            n_int += 1
            ps = run_fmt(eng, b2, AggV("wrapper", {0: SymV("value", "value")}))
            good = bool(ps)
            for p in ps:
                if not complete(p):
                    continue
                w = p.call("write_with_options")
                ws = writes(p)
                g = ((w.extra or {}).get("gargs") or ()) if w else ()
                rad = (int(g[1]) >> 104) & 0xFF if len(g) > 1 and g[1].isdigit() else None
                ok = w is not None and tuple(g[:1]) == (ity,) and rad == radix and w.args[0] == ("sym", "value", "value")
                ok = ok and [x[0] for x in ws] == ["push_str", "push_str"] and C_bytes(ws[0][1]) == prefix and CB.ret_of(ws[1][1], "write_with_options")
                good = good and ok
            bufs = [buf_len(p.call("write_with_options").args[1]) for p in ps if complete(p) and p.call("write_with_options") is not None and len(p.call("write_with_options").args) > 1]
            bufs = [x for x in bufs if x is not None]
            need = C_bits(ity) + (1 if ity.startswith("i") else 0)
            R.check(good and bufs and min(bufs) >= need, rule, "%s:%s" % (ity, wname), "prefix %r then write_with_options::<%s, radix %d>(self.0); buffer %s >= %d" % (prefix.decode(), ity, radix, bufs, need), "%s<%s> writer: prefix %r, radix %d, value self.0, returned slice pushed, buffer >= %d bytes required: %s buffers %s" % (wname, ity, prefix.decode(), radix, need, [p.describe() for p in ps], bufs), where=b2.span)
    R.floor(rule, "integer writers", n_int, 40)


SUFFIX_ORACLE = json.load(open(os.path.join(VERIF, "oracle", "suffix.json")))["quantities"]


def run(R, tier):
    R.configs.append("dflt")
    P = D.prog()
    u = P.unit("scpi")
    # private helpers of the response module (say, one generic function shared by the macro-generated writers) are
    # analysed in place, with their generic parameters bound from the call
    _resp_helpers = D.inline_inherent(("scpi::parser::response::", "scpi::parser::format::"))
    eng = fdai.Engine(P, u, inline=lambda n, r: _resp_helpers(n, r), models={}, loop_limit=3)

    # ---- R09.1 integer writers (int_writers above) -----------------------------------------------------------------
    int_writers(R)
    # prefix letter <-> radix agrees with the lexer (writer/reader agreement): the lexer's element table reads `10` after
    # each letter as the radix the writers pair with that letter (R09.1), and refuses other letters
    from . import lexer as LX
    tab, span_ = LX.element_table(("non-decimal",), False)
    rows = {d: g for d, g, e in tab["non-decimal"]}
    reader = {}
    for letter in "HhQqBbXZ":
        g = rows.get(("#%s10" % letter).encode())
        reader[letter] = g[2] if isinstance(g, tuple) and g and g[0] == "Ok" else (g[0] if isinstance(g, tuple) and g else g)
    exp_reader = {"H": 16, "h": 16, "Q": 8, "q": 8, "B": 2, "b": 2, "X": "Err", "Z": "Err"}
    # ... and reads back the largest value each writer can produce (the 64-bit maximum: 16 hex, 22 octal - whose leading digit
    # carries one bit only - and 64 binary digits; seed C09-O)
    for radix_, text_ in ((16, b"#H" + b"F" * 16), (8, b"#Q1" + b"7" * 21), (2, b"#B" + b"1" * 64)):
        g = rows.get(text_)
        ok_ = isinstance(g, tuple) and g and g[0] == "Ok" and g[2] == 2 ** 64 - 1
        R.check(ok_, "R09.8", "reader:max-radix-%d" % radix_, "the reader accepts %s as 2^64-1" % text_.decode(), "the largest value the radix-%d writer produces, %s, is read back as %s" % (radix_, text_.decode(), g), where=span_)
    R.check(reader == exp_reader, "R09.8", "radix-letters", "reader: #H/#h -> 16, #Q/#q -> 8, #B/#b -> 2, other letters refused; the writers use the same letters", "lexer radix table %s disagrees with the #H/#Q/#B writers" % reader, where=span_)

    # ---- R09.2 reals -------------------------------------------------------------------------------------
    for fty in ("f32", "f64"):
        bs = fmt_impls(u, lambda s, fty=fty: s == fty)
        if len(bs) != 1:
            R.anchor_lost("R09.2", "ResponseData for %s" % fty)
            continue
        b = bs[0]
        # The writer is folded on values of each class (it may branch on is_nan / is_infinite, classify the value, compare it,
        # use a table ...): NaN (both signs), +inf, -inf, negative zero, and finite values (+0, subnormal, ordinary, the
        # sentinels' own magnitudes, the extremes). lexical-core's float writer is not modelled digit by digit; what is audited
        # (probed on the pinned crate when F24 was triaged) is that it writes every finite value in a form that reads back to
        # the same bits EXCEPT negative zero, which it writes as `0.0`: the sign of a negative zero must therefore be written
        # by the library itself, in front of the digits.
        import math
        width = 32 if fty == "f32" else 64
        _fm = dict(M.FOLD_MODELS)
        _fm.update(M.FLOAT_MODELS)
        eng_f = fdai.Engine(P, u, inline=lambda n, r: _resp_helpers(n, r), models=_fm, loop_limit=3, max_paths=8)
        tiny = 1e-45 if width == 32 else 5e-324
        big = 3.4028234663852886e38 if width == 32 else 1.7976931348623157e308
        classes = {"nan": [math.nan, -math.nan], "+inf": [math.inf], "-inf": [-math.inf], "-0": [-0.0],
                   "finite": [0.0, tiny, -tiny, 1.5, -2.25, 9.9e37, -9.9e37, 9.91e37, big, -big]}
        table, good = {}, True
        for cls_, vals in classes.items():
            got = set()
            for x in vals:
                val = fdai.mk_float(x, width)
                try:
                    ps2 = run_fmt(eng_f, b, val)
                except (fdai.TooManyPaths, RecursionError):
                    ps2 = []
                ps2 = [q for q in ps2 if complete(q)] if len(ps2) > 1 else ps2
                if len(ps2) != 1:
                    good = False
                    got.add("undecided (%d paths)" % len(ps2))
                    continue
                q, ws = ps2[0], [w_ for w_ in writes(ps2[0]) if w_[0] in ("push_str", "push_ascii", "push_byte")]
                if len(ws) != len(writes(q)) or not ws:
                    got.add("bad:%s" % q.describe())
                    continue
                w = q.call("write")
                parts = []
                for nm_, a_, _e in ws:
                    if w is not None and CB.ret_of(a_, "write"):
                        g = (w.extra or {}).get("gargs") or ()
                        arg_ok = tuple(g[:1]) == (fty,) and (w.args[0] == snapshot(val) or (x == 0 and w.args[0] == snapshot(fdai.mk_float(0.0, width))))
                        parts.append("write" if arg_ok else "write(other value)")
                    elif a_ is not None and a_[0] == "K":
                        parts.append(bytes([a_[1]]))
                    else:
                        parts.append(C_bytes(a_) if a_ is not None and a_[0] != "sym" else "?")
                # adjacent literal pieces are one literal
                out_ = []
                for p_ in parts:
                    if isinstance(p_, bytes) and out_ and isinstance(out_[-1], bytes):
                        out_[-1] += p_
                    else:
                        out_.append(p_)
                got.add(out_[0] if len(out_) == 1 else tuple(out_))
            if len(got) == 1:
                table[cls_] = got.pop()
            else:
                good = False
                table[cls_] = sorted(map(str, got))
        exp = {"nan": b"9.91E+37", "+inf": b"9.9E+37", "-inf": b"-9.9E+37", "-0": (b"-", "write"), "finite": "write"}
        R.check(good and table == exp, "R09.2", fty, "NaN -> 9.91E+37, +inf -> 9.9E+37, -inf -> -9.9E+37 (SCPI-99 7.2.1.4/5); finite -> lexical_core::write::<%s>(*self), with the sign lexical-core drops from a negative zero written in front" % fty, "%s response table is %s, expected %s" % (fty, table, exp), where=b.span)

    # ---- R09.3 bool -------------------------------------------------------------------------------------------
    bs = fmt_impls(u, lambda s: s == "bool")
    if len(bs) == 1:
        tab = {}
        for v in (True, False):
            ps = run_fmt(eng, bs[0], K(v))
            ws = [writes(p) for p in ps]
            tab[v] = [(w[0][0], w[0][1]) for w in ws if len(w) == 1]
        R.check(tab == {True: [("push_byte", ("K", 49))], False: [("push_byte", ("K", 48))]}, "R09.3", "bool", "true -> '1', false -> '0'", "bool response table %s" % tab, where=bs[0].span)
    else:
        R.anchor_lost("R09.3", "ResponseData for bool")

    # ---- R09.4-R09.7: emission tables (sa/rules/emit.py) ------------------------------------------------------------------
    # Each writer is interpreted on representative values; what it sends to the Formatter is compared with the
    # IEEE 488.2 section 8.7 encoding computed here, independently of how the writer is organised.
    from . import emit as E
    em_eng = E.engine()
    n_em = 0

    def table(rule, key, body, cases, ok_text):
        nonlocal n_em
        bad = []
        for label, val, exp in cases:
            n_em += 1
            try:
                em = E.emit(em_eng, body, val)
            except (fdai.TooManyPaths, RecursionError) as e:
                bad.append("%s: undecided (%s)" % (label, type(e).__name__))
                continue
            why = E.check_refusal(em, exp[1]) if isinstance(exp, tuple) and exp and exp[0] == "refuse" else E.check_emission(em, exp)
            if why:
                bad.append("%s: %s" % (label, why))
        R.check(not bad, rule, key, ok_text + " (%d values)" % len(cases), "; ".join(bad[:4]), where=body.span)

    # R09.4 definite-length block
    bs = fmt_impls(u, lambda s: s.endswith("format::Arbitrary<'a>"))
    if len(bs) != 1:
        R.anchor_lost("R09.4", "ResponseData for Arbitrary")
    else:
        def block(payload):
            n = str(len(payload)).encode()
            return [b"#", ("num", len(n)), n + payload]
        lens = [0, 1, 2, 9, 10, 11, 99, 100, 101, 999, 1000] + ([9999, 10000, 65535, 65536] if tier == "thorough" else [])
        cases = [("len=%d" % n, AggV("Arbitrary", {0: E.sl(bytes((i * 7 + 33) % 256 for i in range(n)))}), block(bytes((i * 7 + 33) % 256 for i in range(n)))) for n in lens]
        cases.append(("payload with '#', quotes and newline", AggV("Arbitrary", {0: E.sl(b'#"\n;,')}), block(b'#"\n;,')))
        table("R09.4", "Arbitrary", bs[0], cases, "'#', the number of length digits, the decimal length, the payload verbatim")
        # more than 9 length digits cannot be announced: refused before anything is written. The length writer is
        # replaced by one that returns 9 / 10 digits so that the limit itself is observed.
        for digits, refuse in ((b"123456789", False), (b"1234567890", True), (b"12345678901234567890", True)):
            eng2 = E.engine({"lexical_core::write": E.m_write_usize(digits)})
            n_em += 1
            try:
                em = E.emit(eng2, bs[0], AggV("Arbitrary", {0: SymV("payload", "payload")}))
            except (fdai.TooManyPaths, RecursionError) as e:
                R.violation("R09.4", "Arbitrary:%d-length-digits" % len(digits), "the block writer's treatment of a %d-digit length is undecided (%s): the length digits are not obtained from the decimal writer" % (len(digits), type(e).__name__), where=bs[0].span)
                continue
            if refuse:
                why = E.check_refusal(em, "ExecutionError")
            else:
                full = em.full[0][1] if len(em.full) == 1 else None
                why = None if (full is not None and E._flatten(full[:2]) == E._flatten([b"#", ("num", 9)]) and not em.other) else "a 9-digit length is not written as a block: %s" % em.describe()
            R.check(not why, "R09.4", "Arbitrary:%d-length-digits" % len(digits), "refused with -200 before any output" if refuse else "accepted", "block whose length has %d digits: %s" % (len(digits), why), where=bs[0].span)
    bs = fmt_impls(u, lambda s: s == "&'a str")
    if len(bs) == 1:
        def block(payload):
            n = str(len(payload)).encode()
            return [b"#", ("num", len(n)), n + payload]
        table("R09.4", "&str", bs[0], [(repr(t), E.sl(t), block(t)) for t in (b"", b"hello", b'say "hi"', b"0123456789")], "written as a definite-length block of its bytes")

    # character / expression data
    bs = fmt_impls(u, lambda s: s.endswith("format::Character<'a>"))
    if len(bs) == 1:
        table("R09.5", "Character", bs[0], [(repr(t), AggV("Character", {0: E.sl(t)}), [t]) for t in (b"MAX", b"ch1", b"A")], "the mnemonic bytes, unquoted")
    bs = fmt_impls(u, lambda s: s.endswith("format::Expression<'a>"))
    if len(bs) == 1:
        table("R09.5", "Expression", bs[0], [(repr(t), AggV("Expression", {0: E.sl(t)}), [b"(" + t + b")"]) for t in (b"@1,2", b"1:3", b"")], "'(' payload ')'")

    # R09.5 quoted string
    bs = fmt_impls(u, lambda s: s == "&'a [u8]")
    if len(bs) != 1:
        R.anchor_lost("R09.5", "ResponseData for &[u8]")
    else:
        texts = [b"", b"abc", b'"', b'""', b'a"b', b'"a', b'a"', b'a"b"c', b'""a""', b"it's", b"a,b;c\n", b"#H10"]
        refused = [b"\xff", b"a\x80b", b'"\xe9']
        if tier == "thorough":
            import itertools
            for n_ in range(1, 5):
                for w_ in itertools.product(b'"a ,\xff', repeat=n_):
                    w_ = bytes(w_)
                    (refused if any(c_ >= 128 for c_ in w_) else texts).append(w_)
            texts = sorted(set(texts))
            refused = sorted(set(refused))
        cases = [(repr(t), E.sl(t), [b'"' + t.replace(b'"', b'""') + b'"']) for t in texts]
        cases += [(repr(t), E.sl(t), ("refuse", "ExecutionError")) for t in refused]
        table("R09.5", "&[u8]", bs[0], cases, "'\"' text with every '\"' doubled '\"'; non-ASCII text refused with -200 before any output")

    # R09.6 error-queue item
    check_error_writer(R, P, u, em_eng, E)

    # R09.7 lists
    for who in ("alloc::vec::Vec<T>", "arrayvec::ArrayVec<T, N>"):
        bs = fmt_impls(u, lambda s, who=who: s == who)
        if len(bs) != 1:
            R.anchor_lost("R09.7", "ResponseData for %s" % who)
            continue
        cases = []
        for n in (0, 1, 2, 3, 5):
            lst = fdai.ListV([Cell(SymV("el%d" % i, "el%d" % i), "el%d" % i) for i in range(n)])
            if n == 0:
                cases.append(("empty", lst, ("refuse", "DeviceSpecificError")))
            else:
                exp = []
                for i in range(n):
                    if i:
                        exp.append(b",")
                    exp.append(("item", "el%d" % i))
                cases.append(("n=%d" % n, lst, exp))
        table("R09.7", who.split("<")[0].split("::")[-1], bs[0], cases, "every element once, in order, joined by ',' (none leading or trailing); empty list refused")
    # R09.13 a value that cannot be written (an empty list, non-ASCII text, a block too long to announce) fails the unit as a
    # whole, wherever it stands among the unit's data: once a datum has been refused nothing more is written and the refusal
    # is what finish() returns - a later datum must not turn `<refused>,0` into the answer `,0` (seed C09-N). The same table as
    # R11.3 / R05.6: ResponseUnit::data and ::header from every unit state holding a stored failure.
    from . import c11 as _c11
    _c11._latch(R, P, u, rule="R09.13")
    _c11._finish_keeps(R, P, u, rule="R09.13")
    # R09.10 every other writer of the workspace: unit quantities, Auto, SYSTem:VERSion - and a census that no
    # ResponseData impl is left without a rule
    covered = set()
    for unit_ in P.units:
        for wb in unit_.bodies:
            if wb.name != "format_response_data" or RD not in (wb.impl_trait or ""):
                continue
            ty = wb.impl_self or ""
            if ty in DIGITS or ty in ("f32", "f64", "bool", "T", "&'a str", "&'a [u8]") or ty.endswith(("format::Arbitrary<'a>", "format::Character<'a>", "format::Expression<'a>", "error::Error")) or ty in ("alloc::vec::Vec<T>", "arrayvec::ArrayVec<T, N>") or any(ty.endswith("format::%s<%s>" % (w_, i_)) for w_ in WRAP for i_ in DIGITS):
                covered.add(ty)
                continue
            if ty.startswith("uom::si::Quantity<"):
                # A quantity is written as ONE number: its value in the unit a suffix-less number is read in (the `$base` of the
                # same conversion, C18 / oracle/suffix.json) - obtained through uom's `get::<base>()`, never the raw storage
                # value, which is in the unit system's own base (kelvin for temperatures: 25 CEL written as 298.15 and read
                # back as 298.15 CEL, defect F23)
                res_q = em_eng.run(wb, [RefV(Cell(AggV("uom::si::Quantity", {0: fdai.UNIT, 1: fdai.UNIT, 2: SymV("val", "val")}), "self")), RefV(Cell(TOP, "fmt"), (), True)])
                em = E.Emission(res_q)
                why = None
                qmod = None
                if em.other or len(em.full) != 1 or len(em.full[0][1]) != 1 or em.full[0][1][0][0] != "item":
                    why = "writes %s (one number expected)" % ([o for _, o in em.full][:2] or em.other[:1])
                else:
                    for r_ in res_q:
                        gets = [e for e in r_.trace if e.kind == "call" and str(e.name).endswith(">::get") and str(e.name).startswith("uom::si::")]
                        wr = [e for e in r_.trace if e.kind == "call" and str(e.name).endswith("format_response_data")]
                        if len(gets) != 1 or len(wr) != 1:
                            why = "the number written is not the quantity expressed in a unit (calls: %s)" % [str(e.name).split("::")[-1] for e in r_.trace if e.kind == "call"][:4]
                            break
                        g_ = (gets[0].extra or {}).get("gargs") or ()
                        qmod = str(gets[0].name).split("::")[2]
                        unit_ty = str(g_[-1]) if g_ else "?"
                        if "'self'" not in repr(gets[0].args[0]) or repr(("ret", str(gets[0].name)))[1:-1].split(",")[1].strip() not in repr(wr[0].args[0]):
                            why = "get() is not applied to the quantity itself or its result is not what is written"
                            break
                        base = (SUFFIX_ORACLE.get(qmod) or {}).get("base")
                        if base is None or unit_ty != "uom::si::%s::%s" % (qmod, base):
                            why = "written in %s, but a number without suffix is read as %s" % (unit_ty, base)
                            break
                R.check(not why, "R09.10", "Quantity@%s" % (qmod or "not-through-a-unit"), "a unit quantity is written as one number: its value in the unit a suffix-less number is read in", "unit quantity writer: %s" % why, where=wb.span)
                covered.add(ty)
                continue
            if ty.endswith("util::Auto"):
                adt = next((p_ for p_ in unit_.adts if p_.endswith("util::Auto")), None)
                tab = {v["name"]: int(v["discr"]) for v in unit_.adts[adt]["variants"]} if adt else {}
                eng_a = fdai.Engine(P, unit_, inline=E.make_inline(P), models=em_eng.models, loop_limit=32, max_paths=64, max_depth=12)
                bad = []
                for val, exp in ((EnumV(adt, "Once", tab.get("Once", 0), {}), [b"ONCE"]), (EnumV(adt, "Bool", tab.get("Bool", 1), {0: K(True)}), [b"1"]), (EnumV(adt, "Bool", tab.get("Bool", 1), {0: K(False)}), [b"0"])):
                    why = E.check_emission(E.emit(eng_a, wb, val), exp)
                    if why:
                        bad.append("%r: %s" % (val, why))
                R.check(not bad, "R09.10", "Auto", "ONCE / 1 / 0", "; ".join(bad[:3]), where=wb.span)
                covered.add(ty)
                continue
            if ty.endswith("SystVersionCommand"):
                adt = next((p_ for p_ in unit_.adts if p_.endswith("system::SystVersionCommand")), None)
                fields = [f["name"] for f in unit_.adts[adt]["variants"][0]["fields"]] if adt else []
                eng_v = fdai.Engine(P, unit_, inline=E.make_inline(P), models=em_eng.models, loop_limit=32, max_paths=64, max_depth=12)
                bad = []
                for year, rev in ((1999, 0), (1999, 9), (1999, 10), (2024, 42), (1999, 255), (0, 0)):
                    val = RefV(Cell(AggV(adt, {i: K(year if n_ == "year" else rev) for i, n_ in enumerate(fields)}), "cmd"))
                    why = E.check_emission(E.emit(eng_v, wb, val), [("num", year), b".", ("num", rev)])
                    if why:
                        bad.append("%d.%d: %s" % (year, rev, why))
                R.check(not bad and sorted(fields) == ["rev", "year"], "R09.10", "SYSTem:VERSion", "year '.' revision, both written as numbers", "; ".join(bad[:3]) or "fields %s" % fields, where=wb.span)
                covered.add(ty)
                continue
            R.violation("R09.10", "uncovered:%s" % ty[:80], "ResponseData impl for %s has no rule: its output is not checked" % ty, where=wb.span)
    R.count("emission_evaluations", n_em)

    # ---- R09.8 writer/reader agreement ------------------------------------------------------------------------------------------------
    rows = CV.matrix("dflt", "scpi")
    first_class = {
        "bool": ("decimal", "DecimalNumericProgramData"), "f32": ("decimal", "DecimalNumericProgramData"), "f64": ("decimal", "DecimalNumericProgramData"),
        "&'a [u8]": ("quote", "StringProgramData"), "&'a str": ("block", "ArbitraryBlockData"),
        "parser::format::Arbitrary<'a>": ("block", "ArbitraryBlockData"), "parser::format::Character<'a>": ("alpha", "CharacterProgramData"), "parser::format::Expression<'a>": ("paren", "ExpressionProgramData"),
    }
    for ity in DIGITS:
        first_class[ity] = ("decimal", "DecimalNumericProgramData")
    n_ag = 0
    for ty, (cls, tok) in sorted(first_class.items()):
        if (ty, tok) not in rows:
            R.anchor_lost("R09.8", "TryFrom<Token> for %s" % ty)
            continue
        n_ag += 1
        oc = rows[(ty, tok)][0]
        R.check("Ok" in oc, "R09.8", "agree:%s" % ty, "written as %s data, which its own converter accepts" % tok, "%s is written as %s but its TryFrom<Token> never accepts that element type (%s): the response cannot be read back" % (ty, tok, sorted(oc)))
    R.floor("R09.8", "types that are both response data and parameter", n_ag, 18)
    # ---- R09.11 the library's own reader on what the integer writers emit at the ends of each type's range ----------------------------
    # The decimal text of MIN, MAX, 0 and -1 / 1 of every integer type (what lexical-core's writer emits for them: plain
    # NR1 digits, R09.1) is folded through the type's own TryFrom<Token>: it must come back as that value - a reader
    # that parses through a narrower intermediate rejects its own writer's output (seed C09-K).
    from . import c07 as _c07
    deng = CV.decimal_engine("dflt", "scpi")
    convs = {ty: b_ for ty, b_ in CV.conversions(u) if ty in CV.INTS}
    n_rt = 0
    for ity in sorted(convs):
        lo_, hi_, _bits = CV.INTS[ity]
        bad_rt = []
        for val in sorted({lo_, hi_, 0, 1, -1 if lo_ < 0 else 1, hi_ - 1, lo_ + 1}):
            text = str(val).encode()
            rr = CV.fold_decimal(deng, convs[ity], text)
            v_ = _c07.ok_value(rr[0]) if rr is not None and len(rr) == 1 and rr[0].outcome == "return" else None
            if not (isinstance(v_, K) and v_.v == val):
                bad_rt.append("%s is read back as %s" % (text.decode(), "undecided" if rr is None else [M.outcome(r_) + ("(%s)" % _c07.ok_value(r_).v if isinstance(_c07.ok_value(r_), K) else "") for r_ in rr][:2]))
        n_rt += 1
        R.check(not bad_rt, "R09.11", "round-trip:%s" % ity, "MIN, MAX and their neighbours written in decimal are read back as themselves by the type's own conversion", "; ".join(bad_rt[:3]), where=convs[ity].span)
    R.floor("R09.11", "integer types read back", n_rt, 10)

    # ---- R09.9 enum response text (constant folding; same analysis as C20/R20.4) --------------------------------------------------------
    from . import c20
    PW = facts.program("witness")
    R.configs.append("witness")
    prog = facts.Merged(PW, P)
    n = 0
    for uu, self_ty, fm, mn, tf in c20.derived_enums(prog):
        adt_path, adt = c20.enum_adt(uu, self_ty)
        if adt is None:
            continue
        for v in adt["variants"]:
            n += 1
            texts = c20.response_text(prog, uu, adt_path, v["name"], int(v["discr"]), len(v["fields"]))
            key = "%s::%s" % (self_ty.split("::")[-1], v["name"])
            if len(texts) != 1 or not isinstance(next(iter(texts)), bytes):
                R.violation("R09.9", key, "response text of %s cannot be determined: %s" % (key, sorted(map(str, texts))))
                continue
            text = next(iter(texts))
            sel = c20.select(prog, uu, fm, text)
            wf = re.fullmatch(rb"[A-Za-z][A-Za-z0-9_]{0,11}", text) is not None
            R.check(sel == {v["name"]} and wf, "R09.9", key, "written as %r (character data) which selects the same variant" % text.decode("latin1"), "enum variant %s is written as %r which %s" % (key, text.decode("latin1"), "selects %s" % sorted(map(str, sel)) if sel != {v["name"]} else "is not valid character response data"))
    R.floor("R09.9", "enum variants", n, 19)

    # ---- R09.12 typed echo tables: string, block, character and expression data and enum mnemonics read and written back ------------
    from . import echotable as ET
    ET.check(R, "R09.12", "text", tier, "`*STR?` / `*ARB?` / `*CHR?` / `*EXPR?` through Node::run on the echo witness: what is written for the value that was read - quotes doubled, block header stating the payload length (9 / 10 / 100 bytes), separators and quotes inside payloads - and every other element type refused", 45)

def C_bits(ity):
    return CV.INTS[ity][2]


def _flat(t):
    out = []
    if isinstance(t, tuple):
        out.append(t)
        for x in t:
            out.extend(_flat(x))
    return out


def check_error_writer(R, P, u, eng, E, rule="R09.6"):
    """code ',' '"' message [';' extended] '"' with every embedded quote doubled; non-ASCII text refused"""
    bs = [b for b in u.bodies if b.name == "format_response_data" and RD in (b.impl_trait or "") and (b.impl_self or "").endswith("error::Error")]
    if len(bs) != 1:
        R.anchor_lost(rule, "ResponseData for Error")
        return
    b = bs[0]
    EC = "scpi::error::ErrorCode"
    tab = eng.enum_tables.get(EC) or {}
    by_name = {v: d for d, v in tab.items()}
    import json, os
    from ..report import VERIF
    oracle = {e["variant"]: e for e in json.load(open(os.path.join(VERIF, "oracle", "errors.json")))["errors"]} if os.path.exists(os.path.join(VERIF, "oracle", "errors.json")) else {}
    picks = [n for n in ("NoError", "CommandError", "UndefinedHeader", "QueueOverflow", "DeviceSpecificError", "QueryInterrupted", "OutOfMemory") if n in by_name]
    if len(picks) < 5:
        R.anchor_lost(rule, "ErrorCode variants (have %s)" % sorted(by_name)[:6])
        return
    bad = []
    n = 0

    def err(codeval, ext):
        return AggV("scpi::error::Error", {0: codeval, 1: fdai.mk_option(ext) if ext is not None else fdai.mk_option(None)})

    def q(t):
        return t.replace(b'"', b'""')

    for name in picks:
        o = oracle.get(name)
        if o is None:
            continue
        code, msg = int(o["code"]), o["message"].encode()
        cv = EnumV(EC, name, by_name[name], {})
        for ext in (None, b"ch 1", b'bad "x"', b"", b"a;b"):
            n += 1
            exp = [("num", code), b"," + b'"' + q(msg) + (b";" + q(ext) if ext is not None else b"") + b'"']
            try:
                em = E.emit(eng, b, err(cv, E.sl(ext) if ext is not None else None))
                why = E.check_emission(em, exp)
            except (fdai.TooManyPaths, RecursionError) as e:
                why = "undecided (%s)" % type(e).__name__
            if why:
                bad.append("%s ext=%r: %s" % (name, ext, why))
                if why.startswith("undecided"):
                    break
        # non-ASCII extended text: refused; at most the code and the separator have been written
        n += 1
        try:
            em = E.emit(eng, b, err(cv, E.sl(b"caf\xe9")))
        except (fdai.TooManyPaths, RecursionError) as e:
            bad.append("%s with non-ASCII extended text: undecided (%s)" % (name, type(e).__name__))
            break
        outs = em.full + em.partial
        if em.other or not outs or any(oc != "Err(ExecutionError)" and not E.failed_write_outcome(oc) for oc, _ in outs) or any(not E._is_prefix(o_, [("num", code), b","]) for _, o_ in outs):
            bad.append("%s with non-ASCII extended text: %s" % (name, em.describe()))
    # user-defined codes carry their own message text
    if "Custom" in by_name:
        # (-1234: a number of no standard error; -340, -100, 0: numbers of standard errors - an item created with its own
        # text keeps that text whatever its number)
        for cnum, msg, ext in ((-1234, b"Custom error", None), (-1234, b'say "no"', None), (-1234, b'say "no"', b'or "yes"'), (-340, b"Calibration failed, ADC offset", None), (-100, b"Mine", b"more"), (0, b"Nothing", None), (300, b"Positive", None)):
            n += 1
            cv = EnumV(EC, "Custom", by_name["Custom"], {0: K(cnum), 1: E.sl(msg)})
            exp = [("num", cnum), b"," + b'"' + q(msg) + (b";" + q(ext) if ext is not None else b"") + b'"']
            try:
                em = E.emit(eng, b, err(cv, E.sl(ext) if ext is not None else None))
                why = E.check_emission(em, exp)
            except (fdai.TooManyPaths, RecursionError) as e:
                why = "undecided (%s)" % type(e).__name__
            if why:
                bad.append("Custom(%d, %r) ext=%r: %s" % (cnum, msg, ext, why))
    R.check(not bad and (n >= 20 or bad), rule, "Error", "code ',' '\"' message [';' extended] '\"' with embedded quotes doubled; non-ASCII text refused (%d values)" % n, "; ".join(bad[:4]), where=b.span)


def sym_short(s):
    r = repr(s)
    for k in ("get_message", "get_extended", "payload"):
        if k in r:
            return k
    return r[:60]
