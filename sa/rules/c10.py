"""C10 - responses are framed exactly: `;` between units, `,` between data, one final NL."""
from .. import facts, fdai, scpi_models as M, sym
from ..fdai import EnumV, AggV, K, SymV, RefV, Cell, Loc, TOP, load
from . import dispatch as D, emit as E

LEVEL = "other"
TECHNIQUE = "FDAI path enumeration of Node::run_tokens (message_start once; terminator on every successful exit iff the buffer is non-empty), of the Formatter methods as each formatter gets them - its impl's or the trait's provided ones (unit separator iff non-empty, terminator once) - and of ResponseUnit::{header,data} (separator decision table over the four unit states header-written x datum-written, obtained from the library's own header/data calls and described by what the next call writes); emission tables of the list writers (elements joined by one `,`); separator constants vs IEEE 488.2 section 8; who-may-write census for Formatter output methods; error-item emission table (code, quoted text); whole-message tables (sa/rules/msgtable.py): Node::run folded end to end on concrete messages against a concrete tree with the real tokenizer, dispatcher, Parameters, ResponseUnit and formatter impl analysed in place and scripted handlers, compared with a reference execution written from SCPI-99 6.2.4 / IEEE 488.2 7-8 - every sequence of one or two (a sample of three and four) of eleven query / command units, with and without a trailing `;`: the bytes left in the growable buffer; an empty list is refused instead of written as an empty datum (R10.8)"
LEVEL_TEXT = "Structural decision over all abstract paths: every successful exit of the unit loop is checked to pass through `if !is_empty { message_end }` exactly once, message_start happens once before the first unit, response_unit is opened exactly once per query and never for an event (C02 table), the two formatter impls push `;` iff the buffer is non-empty and NL exactly once, and ResponseUnit's separator table is enumerated over its four flag states. Constants are compared with 488.2 section 8."
LEVEL_NOTE = "Not decided: what handlers choose to write through ResponseUnit; user Formatter impls. Trusted: rustc MIR, FDAI models."

SEP = {"RESPONSE_DATA_SEPARATOR": ord(","), "RESPONSE_HEADER_SEPARATOR": ord(" "), "RESPONSE_MESSAGE_UNIT_SEPARATOR": ord(";"), "RESPONSE_MESSAGE_TERMINATOR": 10}


def run(R, tier):
    R.configs.append("dflt")
    P = D.prog()
    u = P.unit("scpi")

    # ---- R10.6 constants --------------------------------------------------------------------------
    for name, val in SEP.items():
        c = u.consts.get("scpi::parser::response::" + name)
        got = int(c["value"]["int"]) if c and "value" in c and "int" in c["value"] else None
        R.check(got == val, "R10.6", name, "= %r" % chr(val), "%s is %r, IEEE 488.2 section 8 requires %r" % (name, got, val))

    # ---- R10.1 / R10.2 run_tokens framing -------------------------------------------------------------
    rt = D.run_tokens_table()
    n_ok = 0
    exits = set()
    for key, ps in sorted(rt.items(), key=lambda kv: repr(kv[0])):
        for p in ps:
            names = [n.split("::")[-1] for n in p.call_names]
            if names.count("message_start") != 1 or names[0] != "message_start":
                R.violation("R10.1", "message_start@%s" % "/".join(key), "message_start must be called exactly once, before anything else: %s" % p.describe())
            if p.outcome != "Ok":
                continue
            n_ok += 1
            ie = [i for i, e in enumerate(p.trace) if e.kind == "call" and e.name.endswith("Formatter::is_empty")]
            me = [i for i, e in enumerate(p.trace) if e.kind == "call" and e.name.endswith("Formatter::message_end")]
            empty = D.assumed(p, "Formatter::is_empty", 1)
            last_consume = [e.name for e in p.trace if e.kind in ("consume", "peek")][-1:]
            exits.add((key[-1] if len(key) > 1 else key[0], tuple(last_consume)))
            ok = len(ie) == 1 and ((empty is False and len(me) == 1 and me[0] > ie[0]) or (empty is True and not me))
            # nothing is executed after the terminator
            if ok and me:
                later = [e for e in p.trace[me[0] + 1:] if e.kind in ("call", "consume") and not e.name.endswith(("from_residual", "branch"))]
                ok = not later
            if not ok:
                R.violation("R10.2", "terminator@%s" % "/".join(key), "a successful message must end with exactly one message_end iff the response buffer is non-empty; this exit (stream %s) does: %s" % ("/".join(key), p.describe()))
    R.ok("R10.1", "message_start", "message_start is the first call on every path and happens once")
    R.ok("R10.2", "terminator", "%d successful paths (exits reached: %s) all pass `if !is_empty() { message_end()? }` exactly once" % (n_ok, sorted(exits)))
    R.floor("R10.2", "successful run_tokens paths", n_ok, 8)
    # both exits of the loop must have been exercised: end after a unit, and end after a trailing `;`
    trailing = [p for p in rt[("ProgramMnemonic", "ProgramMessageUnitSeparator", M.END, M.END)] if p.outcome == "Ok"]
    R.check(len(trailing) >= 2, "R10.2", "trailing-separator-exit", "the exit taken after a trailing `;` was analysed (%d paths)" % len(trailing), "no successful path for a message ending in `;`")

    # ---- R10.4 formatter impls --------------------------------------------------------------------------------
    _ru = D.inline_inherent(("scpi::parser::response::ResponseUnit::",))
    _rm = E._helpers_of_response_module(P)
    eng = D.engine(inline=lambda n, r: _ru(n, r) or _rm(n, r))
    FWHO = [w for w in ("arrayvec::ArrayVec", "alloc::vec::Vec") if u.trait_methods_for("parser::response::Formatter", w).get("push_byte") is not None and any(w in (x.impl_self or "") for x in u.bodies if "parser::response::Formatter" in (x.impl_trait or ""))]
    impls = [u.trait_method("parser::response::Formatter", "response_unit", w) for w in FWHO]
    R.floor("R10.4", "Formatter impls", len(impls), 2)
    for b in impls:
        who = "ArrayVec" if "ArrayVec" in (b.impl_self or "") else "Vec" if "Vec" in (b.impl_self or "") else b.impl_self
        res = eng.run(b, [RefV(Cell(TOP, "buf"), (), True)])
        good = len(res) >= 2
        for r in res:
            pi = D.PathInfo(r)
            names = [n.split("::")[-1] for n in pi.call_names]
            guard = [n for n in names if n in ("is_empty", "len")]
            emp = D.assumed(pi, "is_empty", 1)
            pushes = [e for e in pi.calls if e.name.endswith("push_byte")]
            if len(guard) != 1 or emp is None:
                good = False
                continue
            if emp is True:
                if pushes or pi.outcome != "Ok":
                    good = False
            else:
                if len(pushes) != 1 or ("K", SEP["RESPONSE_MESSAGE_UNIT_SEPARATOR"]) not in pushes[0].args:
                    good = False
            if pi.outcome == "Ok":
                v = r.retval.fields.get(0)
                fi_, ri_, si_ = E.unit_layout(u)
                if isinstance(v, AggV):
                    rs = v.fields.get(ri_)
                    # a fresh unit: no error latched, and its next header/data write what a unit without header and data writes
                    if not (isinstance(rs, EnumV) and rs.name == "Ok" and E.unit_behaves_like(P, {i: v.fields.get(i) for i in si_}, False, False)):
                        good = False
                else:
                    good = False
        R.check(good, "R10.4", "%s::response_unit" % who, "pushes `;` iff the buffer is non-empty, then opens a fresh unit (no header, no data, no error)", "response_unit of the %s formatter must push the unit separator exactly when the buffer is not empty and return a fresh unit: %s" % (who, [D.PathInfo(r).describe() for r in res]), where=b.span)
    # message_end / message_start as each formatter gets them (its own impl, or the trait's provided method)
    for w in FWHO:
        who = w.split("::")[-1]
        b = u.trait_method("parser::response::Formatter", "message_end", w)
        res = eng.run(b, [RefV(Cell(TOP, "buf"), (), True)])
        ok = bool(res)
        for r in res:
            ws = [e for e in r.trace if e.kind == "call" and "Formatter::" in e.name and e.name.split("::")[-1].startswith(("push", "data_separator", "header_separator"))]
            other = [e for e in r.trace if e.kind == "call" and e not in ws and ("arrayvec" in e.name or "alloc::vec" in e.name)]
            if r.outcome != "return" or len(ws) != 1 or not ws[0].name.endswith("push_byte") or ("K", 10) not in ws[0].args or other:
                ok = False
            elif not (M.outcome(r) in ("Ok",) or M.outcome(r).startswith(("ret:", "Err("))):
                ok = False
        R.check(ok, "R10.4", "%s::message_end" % who, "pushes the NL terminator once and returns that write's result", "message_end must push exactly one NL: %s" % [D.PathInfo(r).describe() for r in res][:2], where=b.span)
        b = u.trait_method("parser::response::Formatter", "message_start", w)
        res = eng.run(b, [RefV(Cell(TOP, "buf"), (), True)])
        calls = [e.name for r in res for e in r.trace if e.kind == "call"]
        R.check(bool(res) and not calls and all(M.outcome(r) == "Ok" for r in res), "R10.4", "%s::message_start" % who, "writes nothing", "message_start must not write: %s" % calls, where=b.span)
    # default separators
    for meth, const in (("data_separator", "RESPONSE_DATA_SEPARATOR"), ("header_separator", "RESPONSE_HEADER_SEPARATOR")):
        b = u.body("scpi::parser::response::Formatter::" + meth)
        e = sym.Sym(b.mir).local(0)
        ok = e[0] == "call" and e[1].endswith("push_byte") and e[3][1][0] == "int" and e[3][1][1] == SEP[const]
        R.check(ok, "R10.4", "Formatter::" + meth, "pushes %r" % chr(SEP[const]), "%s must push %r: %s" % (meth, chr(SEP[const]), sym.show(e)))

    # ---- R10.5 ResponseUnit separator table -----------------------------------------------------------------------
    ru_adt = "scpi::parser::response::ResponseUnit"
    fi_, ri_, si_ = E.unit_layout(u)
    states = E.unit_states(P)   # the four bookkeeping states as the library's own header/data calls leave them
    for meth in ("data", "header"):
        b = u.body("scpi::parser::response::ResponseUnit::" + meth)
        for hh in (False, True):
            for hd in (False, True):
                if meth == "header" and hd:
                    continue
                fmtcell = Cell(TOP, "fmt")
                ucell = Cell(E.mk_unit(u, states[(hh, hd)], fmt=RefV(fmtcell, (), True)), "unit")
                res = eng.run(b, [RefV(ucell, (), True), SymV("payload", "payload")])
                seqs = set()
                flags_ok = True
                for r in res:
                    w = tuple(e.name.split("::")[-1] + (":%s" % (e.args[1][1],) if e.name.endswith("push_byte") and len(e.args) > 1 and e.args[1][0] == "K" else "") for e in r.trace if e.kind == "call" and ("Formatter::" in e.name or "format_response_data" in e.name))
                    seqs.add(w)
                    rv = r.retval
                    final = load(Loc(rv.cell, rv.path)) if isinstance(rv, RefV) else None
                    if isinstance(final, AggV):
                        # the element is recorded: from here the unit writes what a unit with the element writes
                        want = (hh, True) if meth == "data" else (True, hd)
                        if not E.unit_behaves_like(P, {i: final.fields.get(i) for i in si_}, *want):
                            flags_ok = False
                    else:
                        flags_ok = False
                full = max(seqs, key=len) if seqs else ()
                exp = E.unit_spec_writes(meth, hh, hd)
                prefixes_ok = all(s == exp[: len(s)] for s in seqs)
                R.check(full == exp and prefixes_ok and flags_ok, "R10.5", "ResponseUnit::%s[has_header=%s,has_data=%s]" % (meth, hh, hd), "writes %s and records the element" % (list(exp),),
                        "ResponseUnit::%s with has_header=%s has_data=%s must write %s (and record the element); it writes %s%s" % (meth, hh, hd, list(exp), sorted(seqs), "" if flags_ok else " and does not record the element for the next call"), where=b.span)

    # ---- R10.7 who may write ------------------------------------------------------------------------------------------
    OUT = ("push_str", "push_byte", "push_ascii", "data_separator", "header_separator")
    CTRL = ("message_start", "message_end", "response_unit")
    n_w = 0

    def role(b):
        owner = b.npath
        in_fmt_impl = "parser::response::Formatter" in (b.impl_trait or "") or (b.in_trait or "").endswith("response::Formatter")
        in_resp_data = "ResponseData" in (b.impl_trait or "") or "format_response_data" in owner
        in_unit = owner.startswith("scpi::parser::response::ResponseUnit::")
        in_disp = owner in ("scpi::tree::Node::run_tokens", "scpi::tree::Node::exec")
        return in_fmt_impl, in_resp_data, in_unit, in_disp

    # callers of every workspace function (for helper functions that write on behalf of a ResponseData impl)
    callers = {}
    bodies = {}
    for unit in P.units:
        for b in unit.bodies:
            bodies[b.npath] = b
            for c in b.calls(with_promoted=True):
                callers.setdefault(c.rname, set()).add(b.npath)
                callers.setdefault(c.name, set()).add(b.npath)

    def writer_ok(npath, seen=()):
        b = bodies.get(npath)
        if b is None:
            return False
        f, r_, un, _ = role(b)
        if f or r_ or un:
            return True
        if npath in seen:
            return False
        cs = callers.get(npath, set())
        # a helper is a legitimate writer only if it is not public API surface of its own: every call site is a legitimate writer
        return bool(cs) and all(writer_ok(c, seen + (npath,)) for c in cs)

    def framer_ok(npath, seen=()):
        b = bodies.get(npath)
        if b is None:
            return False
        f, _, _, d = role(b)
        if f or d:
            return True
        if npath in seen:
            return False
        cs = callers.get(npath, set())
        # a helper of the dispatcher: every call site is the dispatcher (or another such helper)
        return bool(cs) and all(framer_ok(c, seen + (npath,)) for c in cs)

    for unit in P.units:
        for b in unit.bodies:
            for c in b.calls(with_promoted=True):
                if not (c.trait and c.trait.endswith("parser::response::Formatter")):
                    continue
                n_w += 1
                # a closure (or nested fn) writes on behalf of the function it is written in
                owner = D.enclosing_fn(P, b.npath) if (b.kind == "Closure" or b.parent_fn) else b.npath
                in_fmt_impl, in_resp_data, in_unit, in_disp = role(bodies.get(owner, b))
                if c.method in OUT:
                    ok = writer_ok(owner)
                    R.check(ok, "R10.7", "%s<-%s" % (c.method, owner), "output written from a formatter / ResponseData impl (or its helper) / ResponseUnit", "%s writes response bytes (%s): only formatters, ResponseData impls (and helpers called only by them) and ResponseUnit may, so that a non-query unit contributes nothing" % (owner, c.method), where=c.line)
                elif c.method in CTRL:
                    ok = framer_ok(owner)
                    R.check(ok, "R10.7", "%s<-%s" % (c.method, owner), "framing call from the dispatcher (or a helper only it calls)", "%s calls %s: only the dispatcher frames messages and units" % (owner, c.method), where=c.line)
    R.floor("R10.7", "Formatter call sites", n_w, 40)

    # ---- R10.8 a list answers as its elements joined by `,` - none leading, trailing, doubled or missing -------------------
    # Emission tables (sa/rules/emit.py) of the list writers on lists of 1, 2, 3 and 5 opaque elements: what reaches the
    # Formatter must be el0 , el1 , ... in order. An empty list must be refused: a datum that writes nothing would leave the
    # `,` that ResponseUnit::data has already written doubled or leading (`1,,0` - seed C10-O).
    em = E.engine()
    n_l = 0
    for unit in P.units:
        for b in unit.bodies:
            s = b.impl_self or ""
            if b.name == "format_response_data" and "ResponseData" in (b.impl_trait or "") and s.startswith(("alloc::vec::Vec<", "arrayvec::ArrayVec<")):
                n_l += 1
                bad = E.check_cases(em, b, E.list_cases((0, 1, 2, 3, 5)))
                R.check(not bad, "R10.8", "list:%s" % s.split("<")[0].split("::")[-1], "elements in order, one `,` between neighbours and nowhere else; an empty list is refused instead of writing an empty datum", "; ".join(bad[:3]), where=b.span)
    R.floor("R10.8", "list writers", n_l, 2)

    # ---- R10.9 an error-queue item is two data elements: code `,` quoted text - on every arm of its writer ---------------------
    from . import c09
    c09.check_error_writer(R, P, u, E.engine(), E, rule="R10.9")
    # ---- R10.10 whole messages: the response buffer, end to end ---------------------------------------------------------------------
    from . import msgtable as MT
    MT.check(R, "R10.10", "framing", tier, "Node::run on whole successful messages with the growable formatter analysed in place: the buffer holds the queries' units in order, `;` between units, header / space / data joined by `,`, one NL at the end iff something was written; commands contribute nothing", 150)
