"""C16 - status byte and IEEE 488.2 common commands follow the 488.2 status model."""
from .. import facts, fdai, scpi_models as M, sym
from ..fdai import EnumV, AggV, K, SymV, RefV, Cell, Loc, TOP, load, snapshot
from . import contrib as CB

LEVEL = "other"
TECHNIQUE = 'abstract device model (sa/rules/devmodel.py): *STB?, ScpiDevice::scpi_stb, IEEE4882::stb, *CLS, *ESE, *SRE, *OPC, *OPC?, *TST?, *RST, *WAI are interpreted by the FDAI engine on concrete device states; the answer and the final state are compared with the IEEE 488.2 section 11 status model over ESR/ESE pairs and SRE values covering every bit position x queue empty/non-empty x QUES/OPER summary x message-available (1632 states for *STB? in the quick tier); bit numbers from the StatusBit/EventStatusBit discriminants; documented wiring of cls/opc/stb checked on the example device (C13); census: no library code assigns Context.mav; the common-command leaves the macros declare (evaluated witness tree); provided device-trait methods analysed in place; history tables (sa/rules/histtable.py): sequences of whole messages and device-side events folded through Node::run on the witness device (its evaluated `const TREE`, the real scpi-contrib handlers, provided trait methods, queue and writers analysed in place), result, response and device state compared after every step with a reference model of the IEEE 488.2 / SCPI-99 status system - *ESE / *SRE / *STB? / *ESR? / *CLS / *OPC / *OPC? / *TST? / *RST / *WAI, failing messages, condition changes and enable writes, message-available both ways; STATus:PRESet steps in the status histories'
LEVEL_TEXT = "For each start state the status byte is computed from the MIR and must equal: bit 2 iff the queue is non-empty, bit 3 / bit 7 iff the QUES / OPER summary (an enabled bit of the EVENT register, SCPI-99 vol. 1 9.1) is true, bit 4 iff message-available, bit 5 iff ESR & ESE != 0, bit 6 iff one of those is enabled in SRE - and nothing may change. *CLS must leave exactly ESR=0, both event registers 0 and an empty queue with every enable, filter, condition, ESE and SRE untouched; *ESE/*SRE store and read back a u8 and fail without side effect on a conversion error; *OPC sets bit 0 and queues -800; *OPC? answers 1; *TST? answers 0 or the self-test error's code; *RST/*WAI leave the status state alone."
LEVEL_NOTE = "Not decided: histories beyond the enumerated ones (12 x 14 steps quick, 150 x 24 thorough); devices overriding the default stb/cls/opc. Trusted: rustc MIR, FDAI models."

STATUS_BITS = {"Designer0": 0, "Designer1": 1, "ErrorEventQueue": 2, "Questionable": 3, "Mav": 4, "Esb": 5, "RqsMss": 6, "Operation": 7}
ESR_BITS = {"OperationComplete": 0, "RequestControl": 1, "QueryError": 2, "DeviceDependantError": 3, "ExecutionError": 4, "CommandError": 5, "UserRequest": 6, "PowerOn": 7}
QUES = "scpi1999::status::questionable::Questionable"
OPER = "scpi1999::status::operation::Operation"


def mask_inline(n, r):
    return r.endswith(("StatusBit::mask", "EventStatusBit::mask"))


def handler(uc, type_name, method):
    bs = [x for x in uc.bodies if x.name == method and (x.impl_self or "").split("<")[0].endswith(type_name) and "Command" in (x.impl_trait or "")]
    if len(bs) != 1:
        raise facts.AnchorLost("Command::%s for %s (found %d)" % (method, type_name, len(bs)))
    return bs[0]


def run_handler(eng, body, is_query, ctx=None):
    args = [RefV(Cell(TOP, "cmd")), RefV(Cell(TOP, "dev"), (), True), RefV(Cell(ctx if ctx is not None else TOP, "ctx"), (), True), SymV("params", "params")]
    if is_query:
        args.append(SymV("response", "response"))
    return [CB.Path(r) for r in eng.run(body, args)]


def run(R, tier):
    R.configs.append("dflt")
    P = CB.prog()
    uc = P.unit("scpi_contrib")
    eng = CB.engine("scpi_contrib", inline=mask_inline)

    # ---- R16.1 bit numbers ---------------------------------------------------------------------------
    for adt_name, table in (("scpi_contrib::ieee488::StatusBit", STATUS_BITS), ("scpi_contrib::ieee488::EventStatusBit", ESR_BITS)):
        adt = uc.adts.get(adt_name)
        if adt is None:
            R.anchor_lost("R16.1", adt_name)
            continue
        got = {v["name"]: int(v["discr"]) for v in adt["variants"]}
        R.check(got == table, "R16.1", adt_name.split("::")[-1] + ":discriminants", "bit numbers as in IEEE 488.2 section 11", "%s bit numbers %s differ from IEEE 488.2 %s" % (adt_name, got, table))
        mb = uc.body(adt_name + "::mask")
        bad = {}
        for name, bit in table.items():
            res = CB.engine("scpi_contrib").run(mb, [RefV(Cell(EnumV(adt_name, name, bit, {}), "bit"))])
            v = res[0].retval if len(res) == 1 else None
            if not (isinstance(v, K) and v.v & 0xFF == (1 << bit)):
                bad[name] = repr(v)
        R.check(not bad, "R16.1", adt_name.split("::")[-1] + "::mask", "mask() = 1 << bit for all 8 bits", "mask() wrong for %s" % bad, where=mb.span)

    # ---- R16.2 - R16.6 on the abstract device (sa/rules/devmodel.py) ----------------------------------------------------
    from . import devmodel as DM
    deng = DM.engine()
    EC = "scpi::error::ErrorCode"
    ecodes = {v: k for k, v in (deng.enum_tables.get(EC) or {}).items()}
    thorough = tier == "thorough"

    def spec_stb(esr, ese, sre, queue_nonempty, ques, oper, mav):
        stb = (4 if queue_nonempty else 0) | (8 if ques else 0) | (0x80 if oper else 0) | (0x10 if mav else 0) | (0x20 if esr & ese else 0)
        if stb & sre & 0xBF:
            stb |= 0x40
        return stb

    def fresh_dev(esr=0, ese=0, sre=0, nq=0, ques=False, oper=False, tst=None, extra_reg=None):
        # a register set's summary is the OR of its *event* register ANDed with its enable register (SCPI-99 vol. 1 9.1,
        # IEEE 488.2 11.4.2.1; bit 15 never counts); the condition register takes no part - both states below put the
        # opposite pattern into `condition` so that a summary computed from it is reported (defect F19)
        regs = {"Operation": DM.mk_register(uc, event=0x0100 if oper else 0x8001, enable=0x0100 if oper else 0x8000, condition=0x0033 if oper else 0x0100),
                "Questionable": DM.mk_register(uc, event=0x0002 if ques else 0x7FF0, enable=0x0002 if ques else 0x800F, condition=0x4400 if ques else 0x0002)}
        if extra_reg:
            regs.update(extra_reg)
        return DM.Dev(esr=esr, ese=ese, sre=sre, queue=[SymV("e%d" % i, "e%d" % i) for i in range(nq)], regs=regs, tst=tst)

    def state_of(d):
        return (dict(d.r8), [getattr(x, "id", repr(x)) for x in d.queue], {k: DM.reg_values(uc, c_) for k, c_ in d.regs.items()})

    singles = [1 << k for k in range(8)]
    pairs = [(0, 0), (0xFF, 0), (0, 0xFF), (0xFF, 0xFF), (0x55, 0xAA), (0xAA, 0x55)] + [(s_, s_) for s_ in singles] + ([(s_, 0xFF ^ s_) for s_ in singles] if thorough else [(0x20, 0xDF), (0x01, 0xFE)])
    sres = [0, 0xFF, 0x40, 0xBF] + singles
    n_stb = 0

    # *STB? (documented wiring: IEEE4882::stb -> scpi_stb)
    hb = handler(uc, "StbCommand", "query")
    bad = []
    for (esr, ese) in pairs:
        for sre in sres:
            for flags in range(16):
                nq, ques, oper, mav = flags & 1, bool(flags & 2), bool(flags & 4), bool(flags & 8)
                if not thorough and (esr, ese) not in pairs[:6] and flags not in (0, 5, 10, 15):
                    continue
                n_stb += 1
                dev = fresh_dev(esr, ese, sre, nq, ques, oper)
                before = state_of(dev)
                rs = DM.run(deng, hb, dev, DM.handler_args(mav=mav))
                exp = spec_stb(esr, ese, sre, nq, ques, oper, mav)
                ok = len(rs) == 1 and rs[0][0].outcome == "return" and M.outcome(rs[0][0]) in ("Ok", "ret:finish")
                if ok:
                    d = rs[0][1]
                    ok = len(d.data) == 1 and isinstance(d.data[0], K) and d.data[0].v == exp and d.finished == 1 and state_of(d) == before
                if not ok and len(bad) < 4:
                    bad.append("ESR=%#04x ESE=%#04x SRE=%#04x queue=%d QUES=%s OPER=%s MAV=%s: answers %s (state changed: %s), expected %#04x" % (esr, ese, sre, nq, ques, oper, mav, [(r.outcome, d.data) for r, d in rs], [state_of(d) != before for r, d in rs], exp))
    R.check(not bad, "R16.3", "*STB?", "bit2 queue non-empty, bit3/bit7 QUES/OPER summary, bit4 message available, bit5 ESR&ESE, bit6 any of those enabled in SRE; nothing is modified (%d register/flag combinations)" % n_stb, "; ".join(bad), where=hb.span)
    R.count("stb_evaluations", n_stb)

    # the status byte functions themselves (no message-available input)
    for fn, uses_scpi in (("scpi_contrib::scpi1999::ScpiDevice::scpi_stb", True), ("scpi_contrib::ieee488::IEEE4882::stb", False)):
        b = uc.body(fn)
        e2 = deng if uses_scpi else DM.engine(wire_stb=False)
        bad = []
        n = 0
        for (esr, ese) in pairs:
            for sre in sres:
                for flags in (range(8) if uses_scpi else (0,)):
                    nq, ques, oper = flags & 1, bool(flags & 2), bool(flags & 4)
                    if not thorough and (esr, ese) not in pairs[:6] and flags not in (0, 7):
                        continue
                    n += 1
                    dev = fresh_dev(esr, ese, sre, nq, ques, oper)
                    before = state_of(dev)
                    rs = DM.run(e2, b, dev, [RefV(Cell(SymV("device", "device"), "dev"))])
                    exp = spec_stb(esr, ese, sre, nq if uses_scpi else 0, ques if uses_scpi else False, oper if uses_scpi else False, False)
                    ok = len(rs) == 1 and isinstance(rs[0][0].retval, K) and rs[0][0].retval.v == exp and state_of(rs[0][1]) == before
                    if not ok and len(bad) < 3:
                        bad.append("ESR=%#04x ESE=%#04x SRE=%#04x queue=%d QUES=%s OPER=%s: %s, expected %#04x" % (esr, ese, sre, nq, ques, oper, [(r.outcome, r.retval) for r, d in rs], exp))
        R.check(not bad, "R16.2", fn.split("::")[-1] if uses_scpi else "IEEE4882::stb", ("bit2/3/7/5 from queue, QUES, OPER, ESR&ESE; " if uses_scpi else "bit5 from ESR&ESE; ") + "bit6 from those & SRE; read-only (%d combinations)" % n, "; ".join(bad), where=b.span)
    # summary of a register set: an enabled event bit (bits 0..14); the condition register is not looked at
    b = uc.body("scpi_contrib::scpi1999::EventRegister::get_summary")
    bad = []
    for cond, en in ((0, 0), (0xFFFF, 0), (0, 0xFFFF), (0x8000, 0x8000), (0x8000, 0xFFFF), (0xFFFF, 0x8000), (1, 1), (0x4000, 0x4000), (0x0100, 0x0200), (0x7FFF, 0x7FFF), (0x5555, 0xAAAA)):
        for other in (0xFFFF, 0):
            cell = DM.mk_register(uc, event=cond, enable=en, condition=other)
            rs = DM.run(deng, b, DM.Dev(), [RefV(cell)])
            exp = (cond & en & 0x7FFF) != 0
            if not (len(rs) == 1 and isinstance(rs[0][0].retval, K) and rs[0][0].retval.v is exp and DM.reg_values(uc, cell) == {"condition": other, "enable": en, "event": cond, "ntr_filter": 0, "ptr_filter": 0}):
                bad.append("event=%#06x enable=%#06x condition=%#06x: %s, expected %s" % (cond, en, other, [(r.outcome, r.retval) for r, _ in rs], exp))
    R.check(not bad, "R16.2", "get_summary", "true iff an enabled event bit among bits 0..14 is set, whatever the condition register holds; read-only", "; ".join(bad[:3]), where=b.span)

    # ---- R16.5 *CLS: clears ESR, both event registers and the queue; enables, filters, conditions, SRE/ESE untouched ----
    hb = handler(uc, "ClsCommand", "event")
    bad = []
    for esr, ese, sre, nq in ((0xFF, 0x5A, 0xA5, 3), (0, 0, 0, 0), (0x01, 0xFF, 0xFF, 1)):
        dev = fresh_dev(esr, ese, sre, nq, True, True)
        before = state_of(dev)
        rs = DM.run(deng, hb, dev, DM.handler_args(event=True))
        exp_regs = {k: dict(v, event=0) for k, v in before[2].items()}
        ok = len(rs) == 1 and M.outcome(rs[0][0]) == "Ok" and state_of(rs[0][1]) == ({"esr": 0, "ese": ese, "sre": sre}, [], exp_regs)
        if not ok:
            bad.append("from ESR=%#04x ESE=%#04x SRE=%#04x, %d queued: %s" % (esr, ese, sre, nq, [(M.outcome(r), state_of(d)) for r, d in rs]))
    R.check(not bad, "R16.5", "*CLS", "ESR := 0, OPERation and QUEStionable event registers := 0, queue emptied; enable/filter/condition registers, ESE and SRE unchanged", "; ".join(bad[:2])[:900], where=hb.span)

    # ---- R16.6 the other common commands ------------------------------------------------------------------------------------------
    def effect(tname, meth, dev, params=(), mav=None):
        hb_ = handler(uc, tname, meth)
        dev.params = list(params)
        before = state_of(dev)
        rs = DM.run(deng, hb_, dev, DM.handler_args(mav=mav, event=(meth == "event")))
        return hb_, before, rs

    # *RST / *WAI alter no status register
    for tname in ("RstCommand", "WaiCommand"):
        ok = True
        for esr_, ese_, sre_, nq_, q_, o_ in ((0x3C, 0xC3, 0x99, 2, True, False), (0xFF, 0xFF, 0xFF, 1, True, True), (0x00, 0x00, 0x00, 0, False, False), (0x01, 0x01, 0x20, 1, False, True)):
            hb_, before, rs = effect(tname, "event", fresh_dev(esr_, ese_, sre_, nq_, q_, o_))
            ok = ok and len(rs) == 1 and M.outcome(rs[0][0]) == "Ok" and state_of(rs[0][1]) == before and not rs[0][1].data
        R.check(ok, "R16.6", "*%s" % tname.replace("Command", "").upper(), "no status register, queue or event register is altered", "*%s changes the status state: %s -> %s" % (tname.replace("Command", "").upper(), before, [(M.outcome(r), state_of(d)) for r, d in rs]), where=hb_.span)
    # *OPC sets the operation-complete bit (and records the event), *OPC? answers 1
    bad = []
    for esr in (0x00, 0x80, 0xFE, 0xFF):
        hb_, before, rs = effect("OpcCommand", "event", fresh_dev(esr, 0x11, 0x22, 1))
        ok = len(rs) == 1 and M.outcome(rs[0][0]) == "Ok"
        if ok:
            d = rs[0][1]
            ok = d.r8 == {"esr": esr | 0x01, "ese": 0x11, "sre": 0x22} and len(d.queue) == 2 and "OperationComplete" in M.err_codes(d.queue[-1]) and state_of(d)[2] == before[2]
        if not ok:
            bad.append("ESR=%#04x: %s" % (esr, [(M.outcome(r), d.r8, d.queue) for r, d in rs]))
    R.check(not bad, "R16.6", "*OPC", "ESR |= bit 0 (operation complete), one -800 event appended, nothing else changed", "; ".join(bad[:2]), where=hb_.span)
    hb_, before, rs = effect("OpcCommand", "query", fresh_dev(0x10, 0x20, 0x30, 1))
    ok = len(rs) == 1 and M.outcome(rs[0][0]) in ("Ok", "ret:finish") and len(rs[0][1].data) == 1 and isinstance(rs[0][1].data[0], K) and rs[0][1].data[0].v in (True, 1) and state_of(rs[0][1]) == before
    R.check(ok, "R16.6", "*OPC?", "answers 1, changes nothing", "*OPC? answers %s" % [(M.outcome(r), d.data) for r, d in rs], where=hb_.span)
    # *TST? answers 0 or the self-test error code
    bad = []
    for tst, exp in ((None, 0), ("HardwareError", None), ("SelfTestFailed", None), ("DeviceSpecificError", None)):
        errv = None
        if tst is not None:
            if tst not in ecodes:
                continue
            errv = AggV("scpi::error::Error", {0: EnumV(EC, tst, ecodes[tst], {}), 1: fdai.mk_option(None)})
        hb_, before, rs = effect("TstCommand", "query", fresh_dev(0x10, 0x20, 0x30, 1, tst=errv))
        ok = len(rs) == 1 and M.outcome(rs[0][0]) in ("Ok", "ret:finish") and len(rs[0][1].data) == 1 and isinstance(rs[0][1].data[0], K) and state_of(rs[0][1]) == before
        if ok:
            got = rs[0][1].data[0].v
            if tst is None:
                ok = got == 0
            else:
                ok = isinstance(got, int) and got != 0 and got == _code_of(tst)
        if not ok:
            bad.append("self-test %s: %s" % (tst or "passes", [(M.outcome(r), d.data) for r, d in rs]))
    R.check(not bad, "R16.6", "*TST?", "answers 0 when the self-test passes and the error's code when it fails (the query itself succeeds)", "; ".join(bad[:2]), where=hb_.span)
    # *ESE / *SRE: store the u8 parameter, read it back, nothing else changes
    for tname, reg in (("EseCommand", "ese"), ("SreCommand", "sre")):
        hb_ = handler(uc, tname, "event")
        # the typed pull may sit in a private helper the handler hands its parameters to
        seen_b, todo, gar = set(), [hb_], []
        while todo:
            b_ = todo.pop()
            if b_.npath in seen_b:
                continue
            seen_b.add(b_.npath)
            for c in b_.calls():
                if c.name.endswith("next_data"):
                    gar.append(c.gargs())
                cb = next((x for x in uc.bodies if x.npath == c.rname), None)
                if cb is not None and cb.j.get("vis") == "Restricted" and cb.kind in ("Fn", "AssocFn"):
                    todo.append(cb)
        bad = [] if (gar and gar[0][-1] == "u8") else ["the parameter is not read as a u8 (0..255): %s" % gar]
        for v in (0, 1, 0x80, 0xFF, 0x5A):
            hb_, before, rs = effect(tname, "event", fresh_dev(0x12, 0x34, 0x56, 1), params=[v])
            exp = dict(before[0])
            exp[reg] = v
            ok = len(rs) == 1 and M.outcome(rs[0][0]) == "Ok" and state_of(rs[0][1]) == (exp, before[1], before[2])
            if not ok:
                bad.append("value %d: %s" % (v, [(M.outcome(r), d.r8) for r, d in rs]))
        # a failing conversion (e.g. 256 -> -222) leaves the register alone and is the unit's error
        hb_, before, rs = effect(tname, "event", fresh_dev(0x12, 0x34, 0x56, 1), params=[("err", SymV("conversion-error", "conversion-error"))])
        ok = len(rs) == 1 and M.outcome(rs[0][0]).startswith("Err(") and state_of(rs[0][1]) == before
        if not ok:
            bad.append("conversion error: %s" % [(M.outcome(r), d.r8) for r, d in rs])
        R.check(not bad, "R16.6", "*%s <value>" % tname.replace("Command", "").upper(), "a u8 parameter is stored in %s and nothing else changes; a conversion error changes nothing" % reg.upper(), "; ".join(bad[:3]), where=hb_.span)
        bad = []
        for v in (0, 0xFF, 0xA5):
            dev = fresh_dev(0x12, 0x34, 0x56, 1)
            dev.r8[reg] = v
            hb_, before, rs = effect(tname, "query", dev)
            ok = len(rs) == 1 and M.outcome(rs[0][0]) in ("Ok", "ret:finish") and len(rs[0][1].data) == 1 and isinstance(rs[0][1].data[0], K) and rs[0][1].data[0].v == v and state_of(rs[0][1]) == before
            if not ok:
                bad.append("%s=%#04x: %s" % (reg, v, [(M.outcome(r), d.data) for r, d in rs]))
        R.check(not bad, "R16.6", "*%s?" % tname.replace("Command", "").upper(), "answers the stored value, changes nothing", "; ".join(bad[:2]), where=hb_.span)


    # ---- R16.7 the message-available flag belongs to the interface ------------------------------------------------------------
    # Bit 4 must be what the interface reported (Context.mav). The library may read the flag - *STB? does - but no code of
    # scpi or scpi-contrib may assign it: a handler that clears or sets it (say, *CLS) makes later status bytes lie.
    import json as _json
    writers, readers = [], 0
    for unit_name in ("scpi", "scpi_contrib"):
        uu = P.unit(unit_name)
        for body in uu.bodies:
            for mir in body.all_mirs():
                for bi in mir.live_blocks():
                    blk = mir.blocks[bi]
                    for st_ in blk["stmts"]:
                        if st_["k"] != "assign":
                            continue
                        if any(pr.get("k") == "field" and pr.get("name") == "mav" for pr in st_["place"].get("proj", [])):
                            writers.append("%s (%s)" % (body.npath, st_.get("line")))
                        rv_ = st_["rv"]
                        if rv_.get("k") in ("ref", "addr") and rv_.get("mut") and any(pr.get("k") == "field" and pr.get("name") == "mav" for pr in (rv_.get("place") or {}).get("proj", [])):
                            writers.append("%s (&mut at %s)" % (body.npath, st_.get("line")))
                        if '"name": "mav"' in _json.dumps(st_["rv"]):
                            readers += 1
                    if '"name": "mav"' in _json.dumps(blk["term"]):
                        readers += 1
    # constructing a Context (Context::new / Default) initialises the field through an aggregate, not a field assignment
    R.check(not writers, "R16.7", "mav:writers", "no code of the library assigns Context.mav (%d reads)" % readers, "Context.mav is assigned by %s: the message-available bit must be the interface's report" % writers[:3])
    R.floor("R16.7", "reads of Context.mav (recogniser witness)", readers, 1)


    # ---- R16.8 the common commands the macros declare (sa/rules/treedecl.py) ----------------------------------------------------------
    from . import treedecl as TD
    try:
        tree, tb = TD.witness_tree()
        R.configs.append("witness")
        TD.check_subtree(R, "R16.8", tree, [], [(("*" + n).encode(), "Leaf", False, h, None) for n, h in (("CLS", "ClsCommand"), ("ESE", "EseCommand"), ("ESR", "EsrCommand"), ("IDN", "IdnCommand"), ("OPC", "OpcCommand"),
                                                                                                      ("RST", "RstCommand"), ("SRE", "SreCommand"), ("STB", "StbCommand"), ("TST", "TstCommand"), ("WAI", "WaiCommand"))], where=tb.span)
    except facts.AnchorLost as e:
        R.anchor_lost("R16.8", str(e))

    # ---- R16.9 histories: the status byte after any sequence of commands and events, end to end -----------------------------
    from . import histtable as HT
    HT.check(R, "R16.9", "status", tier, "histories of *ESE / *SRE / *STB? / *ESR? / *CLS / *OPC / *OPC? / *TST? / *RST / *WAI, failing messages, condition changes and enable writes, with the message-available flag both ways, through Node::run on the witness device: *STB? and the device state equal the IEEE 488.2 status model after every step", 100)


def _code_of(variant):
    import json, os
    from ..report import VERIF
    for e in json.load(open(os.path.join(VERIF, "oracle", "errors.json")))["errors"]:
        if e["variant"] == variant:
            return int(e["code"])
    return None
