"""C16 - status byte and IEEE 488.2 common commands follow the 488.2 status model."""
from .. import facts, fdai, scpi_models as M, sym
from ..fdai import EnumV, AggV, K, SymV, RefV, Cell, Loc, TOP, load, snapshot
from . import contrib as CB

LEVEL = "other"
TECHNIQUE = "FDAI enumeration of ScpiDevice::scpi_stb / IEEE4882::stb over all 32 condition combinations with exact bit arithmetic (bit numbers from the StatusBit/EventStatusBit discriminants vs IEEE 488.2 section 11), MSS-last ordering, *STB? MAV/MSS table, effect sets of *CLS/*OPC/*RST/*WAI, handler tables of *ESE/*SRE/*ESR?/*OPC?/*TST?, no-write census for *STB?"
LEVEL_TEXT = "The status byte composition is enumerated over every combination of its five inputs with concrete bit masks, so each summary bit is checked to sit at its 488.2 position and bit 6 to be derived last from all reported bits and the SRE; *STB?'s handling of message-available is tabulated over (mav, SRE bit 4); the common-command handlers are reduced to their effect sets (which device methods they call with which values) and compared with 488.2 section 10."
LEVEL_NOTE = "Not decided: whether a register 'summary' should be event- or condition-based (the property does not say; the code uses condition & enable); histories; devices overriding the default stb/cls/opc. Trusted: rustc MIR, FDAI models."

STATUS_BITS = {"Designer0": 0, "Designer1": 1, "ErrorEventQueue": 2, "Questionable": 3, "Mav": 4, "Esb": 5, "RqsMss": 6, "Operation": 7}
ESR_BITS = {"OperationComplete": 0, "RequestControl": 1, "QueryError": 2, "DeviceDependantError": 3, "ExecutionError": 4, "CommandError": 5, "UserRequest": 6, "PowerOn": 7}
QUES = "scpi1999::status::questionable::Questionable"
OPER = "scpi1999::status::operation::Operation"


def mask_inline(n, r):
    return r.endswith(("StatusBit::mask", "EventStatusBit::mask"))


def handler(uc, type_name, method):
    bs = [x for x in uc.bodies if x.name == method and (x.impl_self or "").split("<")[0].endswith(type_name) and "Command" in (x.impl_trait or "")]
    if len(bs) != 1:
        raise facts.AnchorLost("Command::%s for %s (found %d)" % (method, type_name, len(bs)))
    return bs[0]


def run_handler(eng, body, is_query, ctx=None):
    args = [RefV(Cell(TOP, "cmd")), RefV(Cell(TOP, "dev"), (), True), RefV(Cell(ctx if ctx is not None else TOP, "ctx"), (), True), SymV("params", "params")]
    if is_query:
        args.append(SymV("response", "response"))
    return [CB.Path(r) for r in eng.run(body, args)]


def run(R, tier):
    R.configs.append("dflt")
    P = CB.prog()
    uc = P.unit("scpi_contrib")
    eng = CB.engine("scpi_contrib", inline=mask_inline)

    # ---- R16.1 bit numbers ---------------------------------------------------------------------------
    for adt_name, table in (("scpi_contrib::ieee488::StatusBit", STATUS_BITS), ("scpi_contrib::ieee488::EventStatusBit", ESR_BITS)):
        adt = uc.adts.get(adt_name)
        if adt is None:
            R.anchor_lost("R16.1", adt_name)
            continue
        got = {v["name"]: int(v["discr"]) for v in adt["variants"]}
        R.check(got == table, "R16.1", adt_name.split("::")[-1] + ":discriminants", "bit numbers as in IEEE 488.2 section 11", "%s bit numbers %s differ from IEEE 488.2 %s" % (adt_name, got, table))
        mb = uc.body(adt_name + "::mask")
        bad = {}
        for name, bit in table.items():
            res = CB.engine("scpi_contrib").run(mb, [RefV(Cell(EnumV(adt_name, name, bit, {}), "bit"))])
            v = res[0].retval if len(res) == 1 else None
            if not (isinstance(v, K) and v.v & 0xFF == (1 << bit)):
                bad[name] = repr(v)
        R.check(not bad, "R16.1", adt_name.split("::")[-1] + "::mask", "mask() = 1 << bit for all 8 bits", "mask() wrong for %s" % bad, where=mb.span)

    # ---- R16.2/R16.3 status byte composition -------------------------------------------------------------
    def stb_table(body, with_scpi):
        res = eng.run(body, [RefV(Cell(TOP, "dev"))])
        rows = []
        for r in res:
            p = CB.Path(r)
            row = {"ret": r.retval.v if isinstance(r.retval, K) else None}
            row["queue_nonempty"] = None
            if with_scpi:
                emp = p.assumed_ret("is_empty", 0)
                row["queue_nonempty"] = (not emp) if emp is not None else None
                # register summaries by generic argument
                gs = [e for e in p.calls if e.name.endswith("get_register_summary")]
                asum = [e for e in r.trace if e.kind == "assume" and e.name == "sym" and isinstance(e.args[0][2], tuple) and e.args[0][2][0] == "ret" and e.args[0][2][1].endswith("get_register_summary")]
                for g, a in zip(gs, asum):
                    ga = (g.extra or {}).get("gargs") or ()
                    if QUES in ga:
                        row["ques"] = a.args[1]
                    if OPER in ga:
                        row["oper"] = a.args[1]
            # esb condition and mss condition
            for e in r.trace:
                if e.kind == "assume" and e.name == "sym" and isinstance(e.args[0][2], tuple) and e.args[0][2][0] == "binop" and e.args[0][2][1] == "Ne":
                    a, b_ = e.args[0][2][2], e.args[0][2][3]
                    if b_ != ("K", 0):
                        continue
                    bo = CB.binop_of(a, "BitAnd")
                    if bo is None:
                        continue
                    if {CB.ret_of(bo[0], "esr"), CB.ret_of(bo[1], "ese")} == {True} or (CB.ret_of(bo[0], "ese") and CB.ret_of(bo[1], "esr")):
                        row["esb"] = e.args[1]
                    elif (bo[0][0] == "K" and CB.ret_of(bo[1], "sre")) or (bo[1][0] == "K" and CB.ret_of(bo[0], "sre")):
                        row["mss"] = e.args[1]
                        row["mss_over"] = bo[0][1] if bo[0][0] == "K" else bo[1][1]
            row["writes"] = [n for n in p.names if n.startswith("set_") or n in ("push_back_error", "pop_front_error", "clear_errors", "register_mut", "get_register_mut")]
            rows.append(row)
        return rows

    b = uc.body("scpi_contrib::scpi1999::ScpiDevice::scpi_stb")
    rows = stb_table(b, True)
    R.count("scpi_stb_paths", len(rows))
    bad = []
    for row in rows:
        need = ("queue_nonempty", "ques", "oper", "esb", "mss")
        if any(row.get(k) is None for k in need) or row["ret"] is None:
            bad.append(("undecided", row))
            continue
        exp = (4 if row["queue_nonempty"] else 0) | (8 if row["ques"] else 0) | (128 if row["oper"] else 0) | (32 if row["esb"] else 0)
        if row["mss_over"] != exp:
            bad.append(("MSS computed over 0x%02x, reported summary bits are 0x%02x" % (row["mss_over"], exp), row))
        exp |= 64 if row["mss"] else 0
        if row["ret"] != exp:
            bad.append(("returns 0x%02x, expected 0x%02x" % (row["ret"], exp), row))
        if row["writes"]:
            bad.append(("writes status", row))
    R.check(len(rows) == 32 and not bad, "R16.2", "scpi_stb", "32 combinations: bit2=queue non-empty, bit3=QUES summary, bit7=OPER summary, bit5=ESR&ESE!=0, bit6 last over all of them & SRE; no write", "scpi_stb composes the status byte wrongly: %s" % (bad[:3],), where=b.span)
    b = uc.body("scpi_contrib::ieee488::IEEE4882::stb")
    rows = stb_table(b, False)
    bad = []
    for row in rows:
        if row.get("esb") is None or row.get("mss") is None or row["ret"] is None:
            bad.append(("undecided", row))
            continue
        exp = 32 if row["esb"] else 0
        if row["mss_over"] != exp:
            bad.append(("MSS over 0x%02x" % row["mss_over"], row))
        exp |= 64 if row["mss"] else 0
        if row["ret"] != exp or row["writes"]:
            bad.append(("returns %r expected 0x%02x" % (row["ret"], exp), row))
    R.check(len(rows) == 4 and not bad, "R16.2", "IEEE4882::stb", "bit5 = ESR&ESE!=0, bit6 = that & SRE", "default IEEE4882::stb composes the status byte wrongly: %s" % (bad[:2],), where=b.span)
    # get_register_summary / get_summary plumbing
    b = uc.body("scpi_contrib::scpi1999::ScpiDevice::get_register_summary")
    calls = [c.name.split("::")[-1] for c in b.calls()]
    R.check(calls == ["register", "get_summary"], "R16.2", "get_register_summary", "register().get_summary() (read-only)", "get_register_summary must be register().get_summary(): %s" % calls, where=b.span)
    b = uc.body("scpi_contrib::scpi1999::EventRegister::get_summary")
    R.check(not CB.stores_to_fields(b, {"condition", "event", "enable", "ntr_filter", "ptr_filter"}) and not list(b.calls()), "R16.2", "get_summary:pure", "reads only", "get_summary must not modify the register", where=b.span)

    # ---- R16.3 *STB? ----------------------------------------------------------------------------------------------
    b = handler(uc, "StbCommand", "query")
    ctx_fields = [f["name"] for f in P.unit("scpi").adts["scpi::Context"]["variants"][0]["fields"]]
    tab = {}
    for mav in (True, False):
        ctx = AggV("scpi::Context", {i: (K(mav) if n == "mav" else TOP) for i, n in enumerate(ctx_fields)})
        ps = run_handler(eng, b, True, ctx)
        for p in ps:
            d = p.call("data")
            if d is None or p.names[-1] != "finish" or p.outcome != "ret:finish" or p.count("stb") != 1:
                tab[(mav, "?")] = "no data/finish: %s" % p.describe()
                continue
            # collect constants OR-ed onto the device's status byte
            consts, base_ok = _or_consts(d.args[1])
            cond = None
            for e in p.r.trace:
                if e.kind == "assume" and e.name == "sym" and isinstance(e.args[0][2], tuple) and e.args[0][2][0] == "binop" and e.args[0][2][1] == "Ne":
                    bo = CB.binop_of(e.args[0][2][2], "BitAnd")
                    if bo is not None and (CB.ret_of(bo[0], "sre") or CB.ret_of(bo[1], "sre")):
                        other = bo[1] if CB.ret_of(bo[0], "sre") else bo[0]
                        over_ok = other == ("K", 16) or ("stb" in repr(other) and "('K', 16)" in repr(other))
                        cond = (e.args[1], over_ok)
            writes = [n for n in p.names if n.startswith("set_") or n in ("push_back_error", "pop_front_error", "clear_errors", "register_mut", "get_register_mut", "replace")]
            tab[(mav, cond[0] if cond else None)] = (sorted(consts), base_ok, cond[1] if cond else True, writes)
    exp = {(False, None): ([], True, True, []), (True, True): ([16, 64], True, True, []), (True, False): ([16], True, True, [])}
    R.check(tab == exp, "R16.3", "*STB?", "reports device.stb() | MAV(bit 4) and raises bit 6 when MAV is enabled in SRE; reads only", "*STB? must OR message-available (bit 4) into the status byte and account for it in bit 6 (MSS) via SRE bit 4, without writing anything: %s" % tab, where=b.span)

    # ---- R16.5 *CLS ---------------------------------------------------------------------------------------------------
    b = uc.body("scpi_contrib::scpi1999::ScpiDevice::scpi_cls")
    ps = [CB.Path(r) for r in eng.run(b, [RefV(Cell(TOP, "dev"), (), True)])]
    ok = len(ps) == 1
    if ok:
        p = ps[0]
        se = p.call("set_esr")
        regs = sorted(tuple(((e.extra or {}).get("gargs") or ())[1:2]) for e in p.calls if e.name.endswith("get_register_mut"))
        ok = se is not None and se.args[1] == ("K", 0) and p.count("set_esr") == 1 and p.count("clear_event") == 2 and p.count("clear_errors") == 1 and regs == [(OPER,), (QUES,)]
        forbidden = [n for n in p.names if n in ("set_ese", "set_sre", "preset", "preset_register", "set_condition")]
        ok = ok and not forbidden and M.outcome(p.r) == "Ok"
    R.check(ok, "R16.5", "*CLS", "set_esr(0); clear_event on OPERation and QUEStionable; clear_errors(); no enable register touched", "*CLS must clear ESR, both event registers and the error queue and nothing else: %s" % [p.describe() for p in ps], where=b.span)
    for tname, meth, callee in (("ClsCommand", "event", "cls"), ("OpcCommand", "event", "opc"), ("RstCommand", "event", "rst")):
        hb = handler(uc, tname, meth)
        ps = run_handler(eng, hb, False)
        ok = len(ps) == 1 and ps[0].names == [callee] and ps[0].outcome == "ret:" + callee
        R.check(ok, "R16.6", "*%s" % tname.replace("Command", "").upper(), "device.%s() and nothing else" % callee, "*%s must only call device.%s(): %s" % (tname.replace("Command", "").upper(), callee, [p.describe() for p in ps]), where=hb.span)
    hb = handler(uc, "WaiCommand", "event")
    ps = run_handler(eng, hb, False)
    R.check(len(ps) == 1 and not ps[0].calls and M.outcome(ps[0].r) == "Ok", "R16.6", "*WAI", "no effect", "*WAI must not touch anything: %s" % [p.describe() for p in ps], where=hb.span)
    hb = handler(uc, "OpcCommand", "query")
    ps = run_handler(eng, hb, True)
    ok = len(ps) == 1 and ps[0].names == ["data", "finish"] and ps[0].call("data").args[1] == ("K", True) and ps[0].outcome == "ret:finish"
    R.check(ok, "R16.6", "*OPC?", "answers 1", "*OPC? must answer 1 (true) and do nothing else: %s" % [p.describe() for p in ps], where=hb.span)
    # *TST?
    hb = handler(uc, "TstCommand", "query")
    ps = run_handler(eng, hb, True)
    kinds = {}
    good = bool(ps)
    for p in ps:
        d = p.call("data")
        if d is None or p.names[-1] != "finish" or p.outcome != "ret:finish" or p.count("tst") != 1:
            good = False
            continue
        v = p.assumed_variant("tst", 0)
        if v == "Ok":
            kinds["ok"] = d.args[1]
        elif v == "Err":
            kinds["err"] = d.args[1]
            good = good and p.count("get_code") == 1 and CB.ret_of(d.args[1], "get_code")
    good = good and kinds.get("ok") == ("K", 0) and "err" in kinds
    R.check(good, "R16.6", "*TST?", "answers 0 on success, the error's code on a self-test fault (the query itself succeeds)", "*TST? must answer 0 or the self-test error code as response data: %s" % [p.describe() for p in ps], where=hb.span)
    # *ESE / *SRE
    for tname, setter, getter in (("EseCommand", "set_ese", "ese"), ("SreCommand", "set_sre", "sre")):
        hb = handler(uc, tname, "event")
        gar = [c.gargs() for c in hb.calls() if c.name.endswith("next_data")]
        ps = run_handler(eng, hb, False)
        good = bool(ps) and gar and gar[0][-1] == "u8"
        for p in ps:
            v = p.assumed_variant("next_data", 0)
            if v == "Ok":
                s_ = p.call(setter)
                good = good and s_ is not None and "next_data" in repr(s_.args[1]) and [n for n in p.names if n.startswith("set_")] == [setter] and M.outcome(p.r) == "Ok"
            elif v == "Err":
                good = good and not [n for n in p.names if n.startswith("set_")] and p.outcome.startswith("Err(")
            else:
                good = False
        R.check(good, "R16.6", "*%s <value>" % tname.replace("Command", "").upper(), "u8 parameter (0..255, else the conversion's -222) stored with %s" % setter, "*%s must take a u8 and store it with %s: %s" % (tname.replace("Command", "").upper(), setter, [p.describe() for p in ps]), where=hb.span)
        hb = handler(uc, tname, "query")
        ps = run_handler(eng, hb, True)
        ok = len(ps) == 1 and ps[0].names == [getter, "data", "finish"] and CB.ret_of(ps[0].call("data").args[1], getter) and ps[0].outcome == "ret:finish"
        R.check(ok, "R16.6", "*%s?" % tname.replace("Command", "").upper(), "answers %s()" % getter, "*%s? must answer %s(): %s" % (tname.replace("Command", "").upper(), getter, [p.describe() for p in ps]), where=hb.span)
    # *OPC sets the operation-complete bit (bit 0 by C14's class table)
    b = uc.body("scpi_contrib::scpi1999::ScpiDevice::scpi_opc")
    eng_i = CB.engine("scpi_contrib", inline=lambda n, r: r.endswith("Error::new") or "From<scpi::error::ErrorCode>>::from" in r)
    ps = [CB.Path(r) for r in eng_i.run(b, [RefV(Cell(TOP, "dev"), (), True)])]
    ok = len(ps) == 1
    if ok:
        se = ps[0].call("set_esr")
        em = ps[0].call("esr_mask")
        bo = CB.binop_of(se.args[1], "BitOr") if se else None
        ok = bo is not None and em is not None and "OperationComplete" in repr(em.args[0]) and any(CB.ret_of(x, "esr") for x in bo) and any(CB.ret_of(x, "esr_mask") for x in bo)
    R.check(ok, "R16.6", "*OPC", "ESR |= class bit of OperationComplete (-800 -> bit 0)", "*OPC must OR the operation-complete bit into ESR: %s" % [p.describe() for p in ps], where=b.span)


def _or_consts(snap):
    """snapshot of stb | c1 | c2 ...: returns (constants, base is device.stb())"""
    consts = []
    cur = snap
    while True:
        bo = CB.binop_of(cur, "BitOr")
        if bo is None:
            break
        a, b_ = bo
        if b_[0] == "K":
            consts.append(b_[1])
            cur = a
        elif a[0] == "K":
            consts.append(a[1])
            cur = b_
        else:
            return consts, False
    return consts, CB.ret_of(cur, "stb")
