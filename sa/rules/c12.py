"""C12 - the error/event queue is a bounded FIFO whose overflow is marked by -350."""
from .. import facts, fdai, scpi_models as M, sym
from ..fdai import EnumV, AggV, K, SymV, RefV, Cell, Loc, TOP, load, snapshot
from . import contrib as CB

LEVEL = "other"
TECHNIQUE = "FDAI operation tables of the two ErrorQueue impls (ArrayVec and Vec): which container operation each queue method performs, with which arguments, on which branch; sibling agreement (insert at the back, remove at index 0); default is_empty; overflow path reachable only on the Err edge of try_push"
LEVEL_TEXT = "Each of the ten-line queue impls is enumerated path by path: the only container operations are try_push(err) / on failure pop() + try_push(QueueOverflow) / pop_at(0) / len / clear (ArrayVec) and push(err) / remove(0) behind an emptiness test / len / clear (Vec), with the operands checked. FIFO behaviour over histories then follows from the container contracts."
LEVEL_NOTE = "Not decided: FIFO order over arbitrary operation histories is inferred on paper from the op table and the arrayvec/alloc container contracts (trusted); capacity 0. Trusted: rustc MIR, FDAI models."

EQ = "error::ErrorQueue"


def impl_body(u, self_contains, method):
    bs = u.impl_methods(EQ, method, self_contains)
    if len(bs) != 1:
        raise facts.AnchorLost("impl ErrorQueue for %s::%s (found %d)" % (self_contains, method, len(bs)))
    return bs[0]


def check_queues(R, rule_prefix="R12"):
    P = CB.prog()
    u = P.unit("scpi")
    eng = fdai.Engine(P, u, inline=lambda n, r: r.endswith(("Error::new", "From<scpi::error::ErrorCode>>::from", "From<error::ErrorCode>>::from")) or "as core::convert::From<error::ErrorCode>>::from" in r, models={})
    r1 = rule_prefix + ".1"
    r2 = rule_prefix + ".2"

    # ---- ArrayVec queue -----------------------------------------------------------------------------
    b = impl_body(u, "arrayvec::ArrayVec", "push_back_error")
    res = eng.run(b, [RefV(Cell(TOP, "queue"), (), True), SymV("err", "err")])
    ps = [CB.Path(r) for r in res]
    good = True
    kinds = set()
    for p in ps:
        first = p.calls[0] if p.calls else None
        if first is None or first.name.split("::")[-1] != "try_push" or first.args[0][:2] != ("ref", "queue") or first.args[1] != ("sym", "err", "err"):
            good = False
            continue
        v = p.assumed_variant("try_push", 0)
        rest = [e for e in p.calls[1:] if e.name.split("::")[-1] not in ("into", "from")]
        if v == "Ok":
            kinds.add("fits")
            if rest or p.r.outcome != "return":
                good = False
        elif v == "Err":
            names = [e.name.split("::")[-1] for e in rest]
            if names[:1] != ["pop"] or rest[0].args[0][:2] != ("ref", "queue"):
                good = False
                continue
            if p.r.outcome == "panic":
                kinds.add("overflow-panic-edge")
                continue
            if names != ["pop", "try_push"]:
                good = False
                continue
            # the replacement element is QueueOverflow
            codes = M.err_codes(_val(rest[1].args[1]))
            if "QueueOverflow" not in repr(rest[1].args[1]):
                good = False
            kinds.add("overflow")
        else:
            good = False
    R.check(good and {"fits", "overflow"} <= kinds, r1, "ArrayVec::push_back_error", "try_push(err); only if that fails: pop() the newest entry and try_push(QueueOverflow)",
            "ArrayVec queue insertion must be `try_push(err)`, and only on failure `pop()` + `try_push(QueueOverflow)`: %s" % [p.describe() for p in ps], where=b.span)
    # R12.5: unwraps only on the Err edge
    unwraps_ok = all(p.assumed_variant("try_push", 0) == "Err" for p in ps if any(e.kind in ("panic",) for e in p.r.trace) or p.count("pop"))
    R.check(unwraps_ok, rule_prefix + ".5", "ArrayVec::push_back_error:unwrap", "pop()/unwrap() are reached only after a failed try_push (queue full, hence non-empty for CAP >= 1)", "unwrap on the overflow path reachable when the queue is not full", where=b.span)

    b = impl_body(u, "arrayvec::ArrayVec", "pop_front_error")
    e = sym.norm(sym.Sym(b.mir).local(0))
    ok = e[0] == "call" and e[1].split("::")[-1] == "pop_at" and e[3][0] == ("arg", 1, "self") and e[3][1][:2] == ("int", 0) and len(list(b.calls())) == 1
    R.check(ok, r1, "ArrayVec::pop_front_error", "pop_at(0): removes and returns the oldest entry", "ArrayVec queue removal must be pop_at(0): %s" % sym.show(e), where=b.span)
    for meth, callee in (("num_errors", "len"), ("clear_errors", "clear")):
        b = impl_body(u, "arrayvec::ArrayVec", meth)
        calls = [c.name.split("::")[-1] for c in b.calls()]
        R.check(calls == [callee], r1, "ArrayVec::" + meth, callee + "()", "ArrayVec queue %s must be %s(): %s" % (meth, callee, calls), where=b.span)

    # ---- Vec queue --------------------------------------------------------------------------------------
    b = impl_body(u, "alloc::vec::Vec", "push_back_error")
    res = eng.run(b, [RefV(Cell(TOP, "queue"), (), True), SymV("err", "err")])
    ps = [CB.Path(r) for r in res]
    ok = len(ps) == 1 and ps[0].names == ["push"] and ps[0].calls[0].args[1] == ("sym", "err", "err") and ps[0].calls[0].args[0][:2] == ("ref", "queue")
    R.check(ok, r2, "Vec::push_back_error", "push(err): appended at the back", "Vec queue insertion must be push(err): %s" % [p.describe() for p in ps], where=b.span)
    b = impl_body(u, "alloc::vec::Vec", "pop_front_error")
    res = eng.run(b, [RefV(Cell(TOP, "queue"), (), True)])
    ps = [CB.Path(r) for r in res]
    kinds = set()
    good = len(ps) == 2
    for p in ps:
        emp = p.assumed_ret("is_empty", 0)
        if p.names[:1] != ["is_empty"]:
            good = False
        elif emp is True:
            kinds.add("empty")
            good = good and p.names == ["is_empty"] and isinstance(p.r.retval, EnumV) and p.r.retval.name == "None"
        elif emp is False:
            kinds.add("nonempty")
            rm = p.call("remove")
            good = good and p.names == ["is_empty", "remove"] and rm.args[1] == ("K", 0) and isinstance(p.r.retval, EnumV) and p.r.retval.name == "Some" and CB.ret_of(snapshot(p.r.retval.fields.get(0)), "remove")
        else:
            good = False
    R.check(good and kinds == {"empty", "nonempty"}, r2, "Vec::pop_front_error", "None when empty, else Some(remove(0)) (order-preserving removal of the oldest entry)", "Vec queue removal must be `if is_empty { None } else { Some(remove(0)) }`: %s" % [p.describe() for p in ps], where=b.span)
    for meth, callee in (("num_errors", "len"), ("clear_errors", "clear")):
        b = impl_body(u, "alloc::vec::Vec", meth)
        calls = [c.name.split("::")[-1] for c in b.calls()]
        R.check(calls == [callee], r2, "Vec::" + meth, callee + "()", "Vec queue %s must be %s(): %s" % (meth, callee, calls), where=b.span)
    # ---- default is_empty ---------------------------------------------------------------------------------
    b = u.body("scpi::error::ErrorQueue::is_empty")
    e = sym.norm(sym.Sym(b.mir).local(0))
    ok = e[0] == "binop" and e[1] == "Eq" and e[2][0] == "call" and e[2][1].endswith("num_errors") and e[3][:2] == ("int", 0)
    R.check(ok, rule_prefix + ".4", "ErrorQueue::is_empty", "num_errors() == 0", "default is_empty must be num_errors() == 0: %s" % sym.show(e), where=b.span)
    R.trust("arrayvec::ArrayVec::{try_push,pop,pop_at,len,clear} and alloc::vec::Vec::{push,remove,len,clear} contracts")


def _val(x):
    return TOP


def run(R, tier):
    R.configs.append("dflt")
    check_queues(R, "R12")
    # R12.3 sibling agreement is the conjunction of the two tables: both insert at the back and remove index 0
    R.ok("R12.3", "siblings", "both impls insert at the back (try_push/push) and remove at index 0 (pop_at(0)/remove(0))")
