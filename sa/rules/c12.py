"""C12 - the error/event queue is a bounded FIFO whose overflow is marked by -350."""
from .. import facts, fdai, scpi_models as M, sym
from ..fdai import EnumV, AggV, K, SymV, RefV, Cell, Loc, TOP, load, snapshot
from . import contrib as CB

LEVEL = "other"

TECHNIQUE = "abstract interpretation of the four ErrorQueue methods of both impls (ArrayVec, Vec) - the impl's own method or the trait's provided one - on abstract queues of distinct symbolic entries - every fill level for capacities 1..3 (bounded; 1..8 thorough) and 0..4 (growable; 0..9 thorough) - with the container operations interpreted by contract models; resulting contents/return values compared with the FIFO-with-overflow-marker specification (the marker being the plain -350 error)"
LEVEL_TEXT = "For each queue method and each abstract state (capacity, fill level) the final queue contents and the returned value are computed from the MIR and compared with the specification: append at the back, newest replaced by -350 when full, oldest returned first, order of the rest preserved, count, clear. The table is complete over the abstract states because the methods never inspect the entries themselves."
LEVEL_NOTE = "Not decided: capacity 0 (pop of an empty queue panics by design of the overflow path); capacities above 3 (the methods are uniform in the capacity). Trusted: rustc MIR, the arrayvec / Vec contract models in this file."

EQ = "error::ErrorQueue"


def impl_body(u, self_contains, method):
    """the method as the impl provides it, or the trait's provided (default) method when the impl leaves it out"""
    bs = u.impl_methods(EQ, method, self_contains)
    if len(bs) == 1:
        return bs[0]
    if not bs:
        try:
            d = u.body("scpi::error::ErrorQueue::" + method)
        except (facts.AnchorLost, KeyError):
            d = None
        if d is not None and getattr(d, "mir", None) is not None:
            return d
    raise facts.AnchorLost("impl ErrorQueue for %s::%s (found %d)" % (self_contains, method, len(bs)))


# ---- abstract containers -------------------------------------------------------------------------------------------
# The queue is an abstract list of distinct symbolic entries with a capacity (None = growable). The container operations
# of arrayvec::ArrayVec / alloc::vec::Vec are interpreted on it according to their documented contracts; an operation
# without a model havocs the list (and the table then fails closed).

def _q(eng, st, v):
    v = eng.resolve(st, v)
    n = 0
    cell = None
    while isinstance(v, RefV) and n < 6:
        cell = v.cell
        v = eng.resolve(st, load(Loc(v.cell, v.path)))
        n += 1
    return v if isinstance(v, fdai.ListV) else None


def _cap(st):
    return st.extra.get("cap")


def _panic(eng, st, fr, t, name, why):
    st.outcome = "panic"
    st.trace.append(fdai.Event("panic", name, None, (why,), fr.bi, t.get("line"), len(st.frames), fr.body.npath))
    return [(st, TOP)]


def _ev(st, fr, t, name, rname, args):
    st.trace.append(fdai.Event("call", name, rname, tuple(snapshot(a) for a in args[1:]), fr.bi, t.get("line"), len(st.frames), fr.body.npath))


def q_try_push(eng, st, fr, t, name, rname, args):
    q = _q(eng, st, args[0])
    if q is None:
        return NotImplemented
    _ev(st, fr, t, name, rname, args)
    cap = _cap(st)
    if cap is not None and len(q.cells) >= cap:
        return fdai.mk_err(AggV("arrayvec::CapacityError", {0: args[1]}))
    q.cells.append(Cell(args[1], "pushed%d" % len(q.cells)))
    return fdai.mk_ok(fdai.UNIT)


def q_push(eng, st, fr, t, name, rname, args):
    q = _q(eng, st, args[0])
    if q is None:
        return NotImplemented
    _ev(st, fr, t, name, rname, args)
    cap = _cap(st)
    if cap is not None and len(q.cells) >= cap:
        return _panic(eng, st, fr, t, name, "push on a full ArrayVec")
    q.cells.append(Cell(args[1], "pushed%d" % len(q.cells)))
    return fdai.UNIT


def q_pop(eng, st, fr, t, name, rname, args):
    q = _q(eng, st, args[0])
    if q is None:
        return NotImplemented
    _ev(st, fr, t, name, rname, args)
    if not q.cells:
        return fdai.mk_option(None)
    return fdai.mk_option(q.cells.pop().v)


def _idx(eng, st, v):
    v = eng.resolve(st, v)
    return v.v if isinstance(v, K) and isinstance(v.v, int) and not isinstance(v.v, bool) else None


def q_pop_at(eng, st, fr, t, name, rname, args):
    q = _q(eng, st, args[0])
    i = _idx(eng, st, args[1])
    if q is None or i is None:
        return NotImplemented
    _ev(st, fr, t, name, rname, args)
    if i >= len(q.cells):
        return fdai.mk_option(None)
    return fdai.mk_option(q.cells.pop(i).v)


def q_drain(eng, st, fr, t, name, rname, args):
    """container.drain(range): the elements of the range are removed (whether or not the iterator is run to its end) and
    handed out in order"""
    from .. import itermodels as IM
    q = _q(eng, st, args[0])
    rng = eng.resolve(st, args[1])
    if q is None or not isinstance(rng, AggV):
        return NotImplemented
    kind = str(rng.kind).split("::")[-1]
    n = len(q.cells)

    def kv(x):
        x = eng.resolve(st, x)
        return x.v if isinstance(x, K) and isinstance(x.v, int) and not isinstance(x.v, bool) else None
    if kind == "RangeFull":
        lo, hi = 0, n
    elif kind == "RangeTo":
        lo, hi = 0, kv(rng.fields.get(0))
    elif kind == "RangeFrom":
        lo, hi = kv(rng.fields.get(0)), n
    elif kind == "Range":
        lo, hi = kv(rng.fields.get(0)), kv(rng.fields.get(1))
    elif kind == "RangeToInclusive":
        hi = kv(rng.fields.get(0))
        lo, hi = 0, (None if hi is None else hi + 1)
    else:
        return NotImplemented
    if lo is None or hi is None:
        return NotImplemented
    _ev(st, fr, t, name, rname, args)
    if lo > hi or hi > n:
        return _panic(eng, st, fr, t, name, "drain range out of bounds")
    taken = [c.v for c in q.cells[lo:hi]]
    del q.cells[lo:hi]
    return IM.mk(taken)


def q_first_last(which):
    def m(eng, st, fr, t, name, rname, args):
        q = _q(eng, st, args[0])
        if q is None:
            return NotImplemented
        if not q.cells:
            return fdai.mk_option(None)
        return fdai.mk_option(RefV(q.cells[0 if which == "first" else -1], (), which.endswith("mut")))
    return m


def q_remove(eng, st, fr, t, name, rname, args):
    q = _q(eng, st, args[0])
    i = _idx(eng, st, args[1])
    if q is None or i is None:
        return NotImplemented
    _ev(st, fr, t, name, rname, args)
    if i >= len(q.cells):
        return _panic(eng, st, fr, t, name, "remove index out of bounds")
    return q.cells.pop(i).v


def q_swap_remove(eng, st, fr, t, name, rname, args):
    q = _q(eng, st, args[0])
    i = _idx(eng, st, args[1])
    if q is None or i is None:
        return NotImplemented
    _ev(st, fr, t, name, rname, args)
    if i >= len(q.cells):
        return _panic(eng, st, fr, t, name, "swap_remove index out of bounds")
    last = q.cells.pop()
    if i < len(q.cells):
        out = q.cells[i]
        q.cells[i] = last
        return out.v
    return last.v


def q_swap_pop(eng, st, fr, t, name, rname, args):
    q = _q(eng, st, args[0])
    i = _idx(eng, st, args[1])
    if q is None or i is None:
        return NotImplemented
    if i >= len(q.cells):
        _ev(st, fr, t, name, rname, args)
        return fdai.mk_option(None)
    r = q_swap_remove(eng, st, fr, t, name, rname, args)
    return fdai.mk_option(r)


def q_insert(eng, st, fr, t, name, rname, args):
    q = _q(eng, st, args[0])
    i = _idx(eng, st, args[1])
    if q is None or i is None:
        return NotImplemented
    _ev(st, fr, t, name, rname, args)
    cap = _cap(st)
    if i > len(q.cells) or (cap is not None and len(q.cells) >= cap):
        return _panic(eng, st, fr, t, name, "insert out of bounds / full")
    q.cells.insert(i, Cell(args[2], "inserted"))
    return fdai.UNIT


def q_len(eng, st, fr, t, name, rname, args):
    q = _q(eng, st, args[0])
    return NotImplemented if q is None else K(len(q.cells))


def q_is_empty(eng, st, fr, t, name, rname, args):
    q = _q(eng, st, args[0])
    return NotImplemented if q is None else K(len(q.cells) == 0)


def q_is_full(eng, st, fr, t, name, rname, args):
    q = _q(eng, st, args[0])
    cap = _cap(st)
    return NotImplemented if q is None or cap is None else K(len(q.cells) >= cap)


def q_capacity(eng, st, fr, t, name, rname, args):
    cap = _cap(st)
    return NotImplemented if cap is None else K(cap)


def q_remaining(eng, st, fr, t, name, rname, args):
    q = _q(eng, st, args[0])
    cap = _cap(st)
    return NotImplemented if q is None or cap is None else K(cap - len(q.cells))


def q_clear(eng, st, fr, t, name, rname, args):
    q = _q(eng, st, args[0])
    if q is None:
        return NotImplemented
    _ev(st, fr, t, name, rname, args)
    del q.cells[:]
    return fdai.UNIT


def q_truncate(eng, st, fr, t, name, rname, args):
    q = _q(eng, st, args[0])
    i = _idx(eng, st, args[1])
    if q is None or i is None:
        return NotImplemented
    _ev(st, fr, t, name, rname, args)
    del q.cells[i:]
    return fdai.UNIT


def q_as_slice(eng, st, fr, t, name, rname, args):
    """ArrayVec / Vec -> its element slice (same abstract list)"""
    q = _q(eng, st, args[0])
    if q is None:
        return NotImplemented
    v = eng.resolve(st, args[0])
    cur = v
    while isinstance(cur, RefV):
        inner = eng.resolve(st, load(Loc(cur.cell, cur.path)))
        if isinstance(inner, fdai.ListV):
            return RefV(cur.cell, cur.path, True)
        cur = inner
    return NotImplemented


def container_models():
    ms = M.with_lists(M.FOLD_MODELS)
    ms["core::ops::Deref::deref"] = M._or(q_as_slice, ms.get("core::ops::Deref::deref"))
    ms["core::ops::DerefMut::deref_mut"] = M._or(q_as_slice, ms.get("core::ops::DerefMut::deref_mut"))
    for pre in ("arrayvec::ArrayVec::", "alloc::vec::Vec::"):
        ms.update({
            pre + "try_push": q_try_push, pre + "push": q_push, pre + "pop": q_pop, pre + "pop_at": q_pop_at, pre + "remove": q_remove,
            pre + "swap_remove": q_swap_remove, pre + "swap_pop": q_swap_pop, pre + "insert": q_insert, pre + "len": q_len, pre + "is_empty": q_is_empty,
            pre + "as_slice": q_as_slice, pre + "as_mut_slice": q_as_slice,
            pre + "drain": q_drain,
            pre + "is_full": q_is_full, pre + "capacity": q_capacity, pre + "remaining_capacity": q_remaining, pre + "clear": q_clear, pre + "truncate": q_truncate,
        })
    return ms


def _is_overflow(v):
    """v is the plain -350 entry: ErrorCode::QueueOverflow converted into an Error (no extended information - an entry
    that merely has its code field overwritten keeps the device-dependent text of the error it displaces)"""
    if isinstance(v, SymV) or "QueueOverflow" not in M.err_codes(v):
        return False
    if isinstance(v, AggV) and v.kind == "From::from":
        return True
    if isinstance(v, AggV) and v.kind.endswith("error::Error"):
        ext = v.fields.get(1)
        return isinstance(ext, EnumV) and ext.name == "None"
    return False


def _contents(q):
    out = []
    for c in q.cells:
        v = c.v
        if isinstance(v, SymV):
            out.append(v.id)
        elif _is_overflow(v):
            out.append("-350")
        elif "QueueOverflow" in M.err_codes(v):
            out.append("-350 patched into an older entry (its extended information is kept): %r" % (v,))
        else:
            out.append("?%r" % (v,))
    return out


def check_queues(R, rule_prefix="R12", tier="quick"):
    """Decision tables of the ErrorQueue impls over every queue state up to the capacity (capacities 1..3 for the
    bounded queue, lengths 0..4 for the growable one), compared with the FIFO-with-overflow-marker specification."""
    P = CB.prog()
    u = P.unit("scpi")

    def inl(n, r):
        if r.startswith(("scpi::error::Error::", "scpi::error::ErrorCode::")) or "convert::From<error::ErrorCode>" in r or "convert::From<scpi::error::ErrorCode>" in r or r.endswith("Into<U>>::into"):
            return True
        return r.startswith("scpi::error::") and "ErrorQueue" not in r

    eng = fdai.Engine(P, u, inline=inl, models=container_models(), loop_limit=16, max_paths=64)
    r1, r2 = rule_prefix + ".1", rule_prefix + ".2"

    def run_method(body, entries, cap, extra_args=()):
        st = fdai.State()
        st.extra["cap"] = cap
        qcell = Cell(fdai.ListV([Cell(SymV("e%d" % i, "entry %d" % i), "e%d" % i) for i in range(entries)]), "queue")
        st.extra["cells"] = {"queue": qcell}
        try:
            res = eng.run(body, [RefV(qcell, (), True)] + list(extra_args), st)
        except (fdai.TooManyPaths, RecursionError) as e:
            # the method branches on the content of the entries (a queue stores what it is given, whatever its number)
            return [(fdai.State(), "undecided: the method's result depends on the entry's content (%s)" % type(e).__name__)] * 2
        out = []
        for r in res:
            qc = r.extra.get("cells", {}).get("queue")
            out.append((r, _contents(qc.v) if qc is not None and isinstance(qc.v, fdai.ListV) else None))
        return out

    n_rows = 0
    deep = tier == "thorough"
    for who, caps, rule in (("arrayvec::ArrayVec", (1, 2, 3, 4, 5, 6, 8) if deep else (1, 2, 3), r1), ("alloc::vec::Vec", (None,), r2)):
        short = who.split("::")[-1]
        try:
            bodies = {m: impl_body(u, who, m) for m in ("push_back_error", "pop_front_error", "num_errors", "clear_errors")}
        except facts.AnchorLost as e:
            R.anchor_lost(rule, str(e))
            continue
        # trait-method calls on the queue itself (from provided methods or between methods) go to this impl
        eng.redirect = {}
        for m in ("push_back_error", "pop_front_error", "num_errors", "clear_errors", "is_empty"):
            try:
                eng.redirect["scpi::error::ErrorQueue::" + m] = impl_body(u, who, m).npath
            except facts.AnchorLost:
                pass
        bad = {m: [] for m in bodies}
        for cap in caps:
            for k in range(0, (cap if cap is not None else (9 if deep else 4)) + 1):
                before = ["e%d" % i for i in range(k)]
                n_rows += 4
                # push_back_error
                rs = run_method(bodies["push_back_error"], k, cap, [SymV("err", "the new error")])
                exp = before + ["err"] if (cap is None or k < cap) else before[:-1] + ["-350"]
                if len(rs) != 1 or rs[0][0].outcome != "return" or rs[0][1] != exp:
                    bad["push_back_error"].append("capacity %s, holding %s: queue becomes %s, expected %s" % (cap, before, [(r.outcome, q) for r, q in rs], exp))
                # pop_front_error
                rs = run_method(bodies["pop_front_error"], k, cap)
                ok = len(rs) == 1 and rs[0][0].outcome == "return" and rs[0][1] == before[1:]
                if ok:
                    rv = rs[0][0].retval
                    if k == 0:
                        ok = isinstance(rv, EnumV) and rv.name == "None"
                    else:
                        ok = isinstance(rv, EnumV) and rv.name == "Some" and isinstance(rv.fields.get(0), SymV) and rv.fields[0].id == "e0"
                if not ok:
                    bad["pop_front_error"].append("capacity %s, holding %s: returns %s and leaves %s; expected %s and %s" % (cap, before, [r.retval for r, _ in rs], [q for _, q in rs], "Some(e0)" if k else "None", before[1:]))
                # num_errors
                rs = run_method(bodies["num_errors"], k, cap)
                if not (len(rs) == 1 and isinstance(rs[0][0].retval, K) and rs[0][0].retval.v == k and rs[0][1] == before):
                    bad["num_errors"].append("holding %s: returns %s" % (before, [r.retval for r, _ in rs]))
                # clear_errors
                rs = run_method(bodies["clear_errors"], k, cap)
                if not (len(rs) == 1 and rs[0][0].outcome == "return" and rs[0][1] == []):
                    bad["clear_errors"].append("holding %s: leaves %s" % (before, [q for _, q in rs]))
        texts = {"push_back_error": "appends at the back; when full the newest entry is replaced by -350 Queue overflow (older entries and their order untouched)",
                 "pop_front_error": "removes and returns the oldest entry, the rest keeps its order; None when empty",
                 "num_errors": "the number of entries", "clear_errors": "empties the queue"}
        for m, b in bodies.items():
            R.check(not bad[m], rule if m in ("push_back_error", "pop_front_error", "num_errors", "clear_errors") else rule, "%s::%s" % (short, m), texts[m] + " - over every fill level" + (" for capacities 1..3" if caps != (None,) else " 0..4"), "; ".join(bad[m][:3]), where=b.span)
    R.count("queue_table_rows", n_rows)
    # ---- default is_empty ---------------------------------------------------------------------------------
    b = u.body("scpi::error::ErrorQueue::is_empty")
    e = sym.norm(sym.Sym(b.mir).local(0))
    ok = e[0] == "binop" and e[1] in ("Eq", "Le") and e[2][0] == "call" and e[2][1].endswith("num_errors") and e[3][:2] == ("int", 0)
    ok = ok or (e[0] == "binop" and e[1] in ("Eq", "Ge") and e[3][0] == "call" and e[3][1].endswith("num_errors") and e[2][:2] == ("int", 0))
    R.check(ok, rule_prefix + ".4", "ErrorQueue::is_empty", "num_errors() == 0", "default is_empty must be num_errors() == 0: %s" % sym.show(e), where=b.span)
    R.trust("arrayvec::ArrayVec / alloc::vec::Vec container contracts as modelled in sa/rules/c12.py (try_push, push, pop, pop_at, remove, swap_remove, insert, len, is_empty, is_full, clear, truncate)")


def _val(x):
    return TOP


def run(R, tier):
    R.configs.append("dflt")
    check_queues(R, "R12", tier)
    # R12.3 sibling agreement is the conjunction of the two tables: both behave as the same FIFO specification
    R.ok("R12.3", "siblings", "both impls are compared with the same FIFO specification (the bounded one additionally with the overflow marker)")
