"""An abstract SCPI device for analysing scpi-contrib's handlers and ScpiDevice default methods.

The functions under analysis are generic over the device; everything they do to it goes through trait methods
(IEEE4882, ErrorQueue, GetEventRegister<_>, ScpiDevice, Device). Here those methods are interpreted on an abstract
device state - three 8-bit registers, an error/event queue of distinct entries, the OPERation and QUEStionable event
register sets and a journal of device-level hooks - so that the final state and the response of a handler follow from
its MIR for any given start state, independently of how the handler is written (temporaries, helper functions,
mem::replace versus read-then-clear, combinators versus matches, ...).

Documented wiring (README / examples; checked against the example device by C13/R13.2): IEEE4882::cls -> scpi_cls,
IEEE4882::opc -> scpi_opc, IEEE4882::stb -> scpi_stb, Device::handle_error -> push_error. rst/tst are device specific:
rst succeeds, tst yields the outcome chosen by the caller of the analysis.
"""
import copy
from .. import facts, fdai, scpi_models as M
from ..fdai import EnumV, AggV, K, SymV, RefV, Cell, Loc, TOP, load, snapshot, BytesV, ListV
from . import dispatch as D, emit as E

ER = "scpi_contrib::scpi1999::EventRegister"
ER_FIELDS = ("condition", "event", "enable", "ntr_filter", "ptr_filter")
SD = "scpi_contrib::scpi1999::ScpiDevice::"


class Dev:
    """mutable abstract device (deep-copied with the analysis state)"""

    def __init__(self, esr=0, ese=0, sre=0, queue=(), regs=None, tst=None):
        self.r8 = {"esr": esr, "ese": ese, "sre": sre}
        self.queue = list(queue)          # abstract entries (values)
        self.regs = regs or {}            # "Operation"/"Questionable" -> Cell(AggV EventRegister)
        self.journal = []                 # device-level hooks that ran
        self.tst = tst                    # None -> Ok(()), else an Error value
        self.data = []                    # response data of the unit under analysis
        self.finished = 0
        self.params = []                  # values handed out by Parameters::next_data (K / ("err", value))


def er_fields(unit):
    adt = unit.adts.get(ER)
    if adt is None:
        raise facts.AnchorLost("ADT " + ER)
    names = [f["name"] for f in adt["variants"][0]["fields"]]
    if sorted(names) != sorted(ER_FIELDS):
        raise facts.AnchorLost("EventRegister fields %s" % names)
    return names


def mk_register(unit, **vals):
    names = er_fields(unit)
    return Cell(AggV(ER, {i: K(vals.get(n, 0)) for i, n in enumerate(names)}), "register")


def reg_values(unit, cell):
    names = er_fields(unit)
    v = cell.v
    out = {}
    for i, n in enumerate(names):
        x = v.fields.get(i) if isinstance(v, AggV) else None
        out[n] = x.v if isinstance(x, K) else None
    return out


def _dev(st):
    return st.extra["dev"]


def _k(eng, st, v):
    v = eng.resolve(st, v)
    return v.v if isinstance(v, K) and isinstance(v.v, int) and not isinstance(v.v, bool) else None


def _journal(st, what):
    _dev(st).journal.append(what)


def m_get8(reg):
    def m(eng, st, fr, t, name, rname, args):
        _journal(st, "read:" + reg)
        v = _dev(st).r8[reg]
        return K(v) if isinstance(v, int) else v
    return m


def m_set8(reg):
    def m(eng, st, fr, t, name, rname, args):
        v = eng.resolve(st, args[1])
        _journal(st, "write:" + reg)
        _dev(st).r8[reg] = v.v if isinstance(v, K) else v
        return fdai.UNIT
    return m


def m_push_back(eng, st, fr, t, name, rname, args):
    _journal(st, "queue:push")
    _dev(st).queue.append(eng.resolve(st, args[1]))
    return fdai.UNIT


def m_pop_front(eng, st, fr, t, name, rname, args):
    _journal(st, "queue:pop")
    q = _dev(st).queue
    return fdai.mk_option(q.pop(0)) if q else fdai.mk_option(None)


def m_num_errors(eng, st, fr, t, name, rname, args):
    return K(len(_dev(st).queue))


def m_is_empty(eng, st, fr, t, name, rname, args):
    return K(len(_dev(st).queue) == 0)


def m_clear_errors(eng, st, fr, t, name, rname, args):
    _journal(st, "queue:clear")
    del _dev(st).queue[:]
    return fdai.UNIT


def _which_register(st, t):
    c = t["callee"]
    texts = [" ".join(str(x) for x in (c.get("gargs") or ())) + " " + (c.get("trait") or "") + " " + (c.get("path") or "")]
    # inside a generic default method the register is named by the generic arguments of an enclosing call
    texts += [" ".join(str(x) for x in f.gargs) for f in reversed(st.frames)]
    for g in texts:
        if "Questionable" in g:
            return "Questionable"
        if "Operation" in g:
            return "Operation"
    return None


def m_register(eng, st, fr, t, name, rname, args):
    which = _which_register(st, t) or st.extra.get("only_register")
    regs = _dev(st).regs
    if which is None and len(regs) == 1:
        which = list(regs)[0]
    if which is None or which not in regs:
        return NotImplemented
    return RefV(regs[which], (), name.endswith("register_mut"))


def m_hook(label, result=None):
    def m(eng, st, fr, t, name, rname, args):
        _journal(st, "hook:" + label)
        if label == "tst":
            e = _dev(st).tst
            return fdai.mk_ok(fdai.UNIT) if e is None else fdai.mk_err(e)
        if result == "unit":
            return fdai.UNIT
        return fdai.mk_ok(fdai.UNIT)
    return m


def m_resp_data(eng, st, fr, t, name, rname, args):
    v = eng.resolve(st, args[1])
    _dev(st).data.append(v)
    return args[0]


def m_resp_finish(eng, st, fr, t, name, rname, args):
    _dev(st).finished += 1
    return fdai.mk_ok(fdai.UNIT)


def m_next_data(eng, st, fr, t, name, rname, args):
    p = _dev(st).params
    _journal(st, "params:next_data")
    if not p:
        return fdai.mk_err(SymV("missing-parameter", "missing-parameter"))
    x = p.pop(0)
    if isinstance(x, tuple) and x and x[0] == "err":
        return fdai.mk_err(x[1])
    return fdai.mk_ok(K(x) if isinstance(x, int) else x)


def models():
    I = "scpi_contrib::ieee488::IEEE4882::"
    Q = "scpi::error::ErrorQueue::"
    G = "scpi_contrib::scpi1999::GetEventRegister::"
    ms = dict(M.FOLD_MODELS)
    ms.update({
        I + "esr": m_get8("esr"), I + "ese": m_get8("ese"), I + "sre": m_get8("sre"),
        I + "set_esr": m_set8("esr"), I + "set_ese": m_set8("ese"), I + "set_sre": m_set8("sre"),
        I + "rst": m_hook("rst"), I + "tst": m_hook("tst"),
        Q + "push_back_error": m_push_back, Q + "pop_front_error": m_pop_front, Q + "num_errors": m_num_errors, Q + "is_empty": m_is_empty, Q + "clear_errors": m_clear_errors,
        G + "register": m_register, G + "register_mut": m_register,
        SD + "request_service": m_hook("request_service", "unit"),
        "scpi::parser::response::ResponseUnit::data": m_resp_data,
        "scpi::parser::response::ResponseUnit::finish": m_resp_finish,
        "scpi::parser::parameters::Parameters::next_data": m_next_data,
    })
    return ms


WIRING = {  # documented wiring of the device-provided IEEE4882 methods
    "scpi_contrib::ieee488::IEEE4882::cls": SD + "scpi_cls",
    "scpi_contrib::ieee488::IEEE4882::opc": SD + "scpi_opc",
    "scpi_contrib::ieee488::IEEE4882::stb": SD + "scpi_stb",
    "scpi::Device::handle_error": SD + "push_error",
}


def engine(wire_stb=True):
    P = D.prog()
    u = P.unit("scpi_contrib")
    ms = models()

    redirect = {k: v for k, v in WIRING.items() if not (k.endswith("::stb") and not wire_stb)}

    cache = {}

    def inline(n, r):
        if r in cache:
            return cache[r]
        ok = False
        if r.startswith(SD):
            ok = True   # ScpiDevice default methods are part of what is analysed
        else:
            b = E._body_of(P, r)
            if b is not None and b.kind in ("Fn", "AssocFn"):
                if not b.impl_trait and not b.in_trait and r.startswith(("scpi_contrib::", "scpi::error::", "scpi::parser::response::ResponseUnit::")):
                    ok = not r.startswith(("scpi::parser::response::ResponseUnit::data", "scpi::parser::response::ResponseUnit::finish"))
                elif any(x in (b.impl_trait or "") for x in ("convert::From", "convert::Into", "default::Default")) and ("error" in r or "scpi1999" in r):
                    ok = True
                elif b.in_trait and r.startswith("scpi_contrib::ieee488::IEEE4882::stb") and not wire_stb:
                    ok = True
                elif b.in_trait and r.startswith(("scpi_contrib::ieee488::IEEE4882::", "scpi::error::ErrorQueue::")) and not r.endswith("::stb"):
                    # other provided methods of the device traits (helpers a device inherits): analysed in place; the
                    # required methods they call are interpreted on the abstract device
                    ok = True
        cache[r] = ok
        return ok

    eng = fdai.Engine(P, u, inline=inline, models=ms, loop_limit=24, max_paths=200, max_depth=12)
    eng.redirect = redirect
    return eng


def run(eng, body, dev, args, extra=None):
    """run `body` with the abstract device installed; returns list of (result, device-after)"""
    st = fdai.State()
    st.extra["dev"] = dev
    if extra:
        st.extra.update(extra)
    out = []
    for r in eng.run(body, args, st):
        out.append((r, r.extra.get("dev")))
    return out


def context_value(mav):
    P = D.prog()
    for u in P.units:
        for path, adt in u.adts.items():
            if path.endswith("::Context"):
                fs = [f["name"] for f in adt["variants"][0]["fields"]]
                if "mav" in fs:
                    return AggV(path, {i: (K(bool(mav)) if n == "mav" else TOP) for i, n in enumerate(fs)})
    raise facts.AnchorLost("scpi::tree Context with a `mav` field")


def handler_args(mav=None, event=False):
    ctx = context_value(mav) if mav is not None else TOP
    a = [RefV(Cell(TOP, "cmd")), RefV(Cell(SymV("device", "device"), "dev"), (), True), RefV(Cell(ctx, "ctx"), (), True), SymV("params", "params")]
    if not event:
        a.append(SymV("response", "response"))
    return a


def find_handler(unit, type_contains, method):
    bs = [x for x in unit.bodies if x.name == method and type_contains in (x.impl_self or "") and "Command" in (x.impl_trait or "")]
    if len(bs) != 1:
        raise facts.AnchorLost("Command::%s for %s (found %d)" % (method, type_contains, len(bs)))
    return bs[0]
