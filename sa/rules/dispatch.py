"""Shared FDAI analyses of the dispatcher (Node::run / run_tokens / exec) and of Parameters.
Each function returns rows of a decision table; the property modules (c02, c05, c06, c10) turn the
rows into obligations under their own rule ids."""
from .. import facts, fdai, scpi_models as M, sym
from ..fdai import EnumV, AggV, K, SymV, RefV, Cell, Loc, TOP, load, snapshot

NODE = "scpi::tree::Node"
EXEC = "scpi::tree::Node::exec"
INLINE_SMALL = (
    "scpi::parser::parameters::Parameters::with",
    "scpi::error::Error::new",
    "scpi::tree::Node::name",
    "<scpi::error::Error as core::convert::From<scpi::error::ErrorCode>>::from",
    "scpi::parser::tokenizer::token::Token::is_data",
    "<scpi::parser::tokenizer::token::Token<'a> as core::cmp::PartialEq>::eq",
)


# Entry points of the dispatcher keep their identity as events; every other function of the dispatcher module
# (helpers a refactoring may extract: free fns, private Node methods, nested fns) is analysed in place.
TREE_EVENTS = (EXEC, "scpi::tree::Node::run_tokens", "scpi::tree::Node::run")


_STREAM_HELPER = {}


def takes_token_stream(r):
    """a non-trait function of crate scpi (wherever it lives: util, parameters, ...) that receives the dispatcher's token
    stream: a helper of the dispatcher, analysed in place like the helpers inside scpi::tree"""
    if r in _STREAM_HELPER:
        return _STREAM_HELPER[r]
    ok = False
    if r.startswith("scpi::") and not r.startswith("scpi::tree::command::"):
        for b in prog().unit("scpi").bodies:
            if b.npath == r and b.kind in ("Fn", "AssocFn") and not b.impl_trait and not b.in_trait:
                sig = str(b.j.get("sig") or "")
                ok = "Peekable<" in sig and "Tokenizer" in sig and "Parameters<" not in sig.split("->")[0].replace("Peekable<", "")
                break
    _STREAM_HELPER[r] = ok
    return ok


def _inline(n, r):
    if r in INLINE_SMALL or n in INLINE_SMALL or "Token" in r and r.endswith("PartialEq>::eq"):
        return True
    if r.startswith("scpi::tree::") and r not in TREE_EVENTS and not r.startswith(("scpi::tree::prelude", "scpi::tree::command::")):
        return True
    return r not in TREE_EVENTS and takes_token_stream(r)


_CACHE = {}


def inline_inherent(prefixes, exclude=()):
    """Inline predicate: inherent functions / free functions (not trait methods) whose path starts with one of
    `prefixes` are analysed in place - so that splitting a function into private helpers does not change the result."""
    mods = tuple(p.split("::", 1)[-1] for p in prefixes)

    def pred(n, r):
        if r in exclude:
            return False
        if not r.startswith(tuple(prefixes)):
            # a function nested inside a trait method of the module (`fn helper` declared in the method body)
            if not (r.startswith("<") and any(m in r for m in mods)):
                return False
        b = prog().unit("scpi").by_npath().get(r) if hasattr(prog().unit("scpi"), "by_npath") else None
        if b is None:
            for u in prog().units:
                for x in u.bodies:
                    if x.npath == r:
                        b = x
                        break
                if b is not None:
                    break
        if b is None or b.kind not in ("Fn", "AssocFn"):
            return False
        if b.kind == "Fn" and b.parent_fn:
            return True
        return not b.impl_trait and not b.in_trait and not r.startswith("<")
    return pred


def enclosing_fn(P, npath):
    """the named function a closure / nested fn belongs to"""
    for u in P.units:
        for b in u.bodies:
            if b.npath == npath:
                cur = b
                seen = 0
                while cur is not None and cur.parent_fn and seen < 6:
                    nxt = None
                    for x in u.bodies:
                        if x.path == cur.parent_fn or x.npath == facts.strip_generics(cur.parent_fn):
                            nxt = x
                            break
                    if nxt is None:
                        return facts.strip_generics(cur.parent_fn)
                    cur = nxt
                    seen += 1
                return cur.npath
    return npath


def only_reached_from(P, npath, roots, seen=()):
    """True if `npath` is one of `roots` (after mapping closures to their function) or a crate-private helper
    whose every call site is (transitively) such a function."""
    npath = enclosing_fn(P, npath)
    if npath in roots:
        return True
    if npath in seen:
        return False
    body = None
    callers = set()
    for u in P.units:
        for b in u.bodies:
            if b.npath == npath:
                body = b
            for c in b.calls(with_promoted=True):
                if c.rname == npath or c.name == npath:
                    callers.add(b.npath)
    if body is None or body.j.get("vis") != "Restricted" or not callers:
        return False
    return all(only_reached_from(P, c, roots, seen + (npath,)) for c in callers)


def prog():
    if "P" not in _CACHE:
        _CACHE["P"] = facts.program("dflt")
    return _CACHE["P"]


def engine(extra_models=None, inline=None):
    P = prog()
    u = P.unit("scpi")
    models = M.with_lists(M.FOLD_MODELS)
    models.update(M.STREAM_MODELS)
    if extra_models:
        models.update(extra_models)
    return fdai.Engine(P, u, inline=inline or _inline, models=models, max_paths=3000)


def mk_args(node):
    leafcell = Cell(SymV("oldleaf", "leaf-before-call"), "leafcell")
    selfcell = Cell(node, "self")
    args = [RefV(selfcell), RefV(leafcell, (), True)] + [RefV(Cell(TOP, t), (), True) for t in ("device", "context", "tokens", "response")]
    return args, leafcell, selfcell


def mk_node(eng, kind):
    return EnumV(NODE, kind, eng.variant_discr(NODE, kind), {0: SymV("node-name", "name"), 1: SymV("node-default", "default"), 2: SymV("node-payload", "handler-or-sub")})


class Row:
    def __init__(self, key, paths):
        self.key = key
        self.paths = paths


class PathInfo:
    def __init__(self, r, leafcell=None, selfcell=None):
        self.r = r
        self.outcome = M.outcome(r)
        self.calls = [e for e in r.trace if e.kind == "call"]
        self.call_names = [e.name for e in self.calls]
        self.consumed = [e.name for e in r.trace if e.kind == "consume"]
        self.events = [e for e in r.trace if e.kind in ("call", "consume", "peek", "next_if")]
        self.leaf_after = None
        self.trace = r.trace

    def names(self, short=True):
        return [(e.kind[0] + ":" + (e.name.split("::")[-1] if short else e.name)) for e in self.events if e.kind in ("call", "consume")]

    def has_call(self, suffix):
        return any(n.endswith(suffix) for n in self.call_names)

    def index_of(self, suffix):
        for i, e in enumerate(self.trace):
            if e.kind == "call" and e.name.endswith(suffix):
                return i
        return None

    def describe(self):
        return "%s %s" % (self.outcome, self.names())


def leaf_state(r, tag="leafcell"):
    """abstract content of the `leaf` cell at the end of path r (searching the retained frames is not possible
    after return; the cell objects are reachable through trace snapshots only) -> handled by callers via cells"""
    return None


# ---- exec ------------------------------------------------------------------------------------------

def leaf_with_leftover():
    """Node::exec on a Leaf whose handler (an event: it does not touch the stream) leaves data elements of its unit
    unread: list of (stream description, [PathInfo])"""
    if "leftover" in _CACHE:
        return _CACHE["leftover"]
    eng = engine()
    body = eng.unit.body(EXEC)
    out = []
    for stream in (["ProgramHeaderSeparator", "DecimalNumericProgramData", M.END],
                   ["ProgramHeaderSeparator", "DecimalNumericProgramData", "ProgramDataSeparator", "StringProgramData", M.END],
                   ["ProgramHeaderSeparator", "CharacterProgramData", "ProgramMessageUnitSeparator"],
                   ["HeaderQuerySuffix", "ProgramHeaderSeparator", "DecimalNumericProgramData", M.END],
                   ["HeaderQuerySuffix", "ProgramHeaderSeparator", "ExpressionProgramData", "ProgramDataSeparator", "DecimalNumericProgramData", "ProgramMessageUnitSeparator"]):
        st = fdai.State()
        M.set_stream(st, [M.item(eng, n) if n != M.END else M.END for n in stream] + ([] if stream[-1] == M.END else [M.UNKNOWN]))
        node = mk_node(eng, "Leaf")
        args, leafcell, selfcell = mk_args(node)
        st.extra["cells"] = {"leaf": leafcell, "self": selfcell}
        out.append(("/".join(stream), [PathInfo(r) for r in eng.run(body, args, st)]))
    _CACHE["leftover"] = out
    return out


def exec_table():
    """(kind, first, second) -> list of PathInfo. second only varies after a leading ':' on a Branch
    and after '?' on a Leaf."""
    if "exec" in _CACHE:
        return _CACHE["exec"]
    eng = engine()
    u = eng.unit
    body = u.body(EXEC)
    rows = {}
    firsts = M.NONDATA + M.DATA + ["ERR", M.END]
    for kind in ("Leaf", "Branch"):
        for first in firsts:
            seconds = [None]
            if kind == "Branch" and first == "HeaderMnemonicSeparator":
                seconds = M.NONDATA + ["CharacterProgramData", "ERR", M.END]
            if kind == "Leaf" and first == "HeaderQuerySuffix":
                seconds = ["ProgramHeaderSeparator", "ProgramMessageUnitSeparator", M.END, "CharacterProgramData"]
            for second in seconds:
                st = fdai.State()
                M.set_stream(st, [M.item(eng, first)] + ([M.item(eng, second)] if second else []) + [M.UNKNOWN])
                node = mk_node(eng, kind)
                args, leafcell, selfcell = mk_args(node)
                st.extra["cells"] = {"leaf": leafcell, "self": selfcell}
                res = eng.run(body, args, st)
                infos = []
                for r in res:
                    pi = PathInfo(r)
                    cells = r.extra.get("cells", {})
                    lc = cells.get("leaf")
                    sc = cells.get("self")
                    if lc is not None:
                        v = lc.v
                        if isinstance(v, RefV) and v.cell is sc:
                            pi.leaf_after = "self"
                        elif isinstance(v, SymV) and v.id == "oldleaf":
                            pi.leaf_after = "unchanged"
                        else:
                            pi.leaf_after = "other:%r" % (v,)
                    pi.selfcell = sc
                    infos.append(pi)
                rows[(kind, first, second)] = infos
    _CACHE["exec"] = rows
    _CACHE["exec_eng"] = eng
    return rows


# ---- exec on a branch with a concrete list of abstract children -------------------------------------------------------
CHILD_TYPES = [(k, d, m) for k in ("Leaf", "Branch") for d in (True, False) for m in (True, False)]


def child_lists(maxlen=2):
    out = [()]
    layer = [()]
    for _ in range(maxlen):
        layer = [l + (c,) for l in layer for c in CHILD_TYPES]
        out.extend(layer)
    return out


def m_match_header(eng, st, fr, t, name, rname, args):
    """Token::match_program_header(token, child_name): the outcome is an attribute of the abstract child whose name
    is compared (the comparison itself is property C03)"""
    nm = M._bytes_of(eng, st, args[1])
    kids = st.extra.get("kids") or {}
    tok = eng.resolve(st, args[0])
    while isinstance(tok, RefV):
        tok = eng.resolve(st, load(Loc(tok.cell, tok.path)))
    tokname = tok.name if isinstance(tok, EnumV) else "?"
    st.trace.append(fdai.Event("call", name, rname, (("tok", tokname), ("name", nm)), fr.bi, t.get("line"), len(st.frames), fr.body.npath))
    if nm is None or bytes(nm) not in kids:
        return st.fresh(("ret", name, "unknown-child"))
    if tokname not in ("ProgramMnemonic", "CharacterProgramData"):
        return K(False)
    return K(kids[bytes(nm)])


def exec_children(children, stream_names):
    """Run Node::exec on a Branch whose `sub` is the given list of (kind, default, matches) children."""
    key = "execkids"
    if key not in _CACHE:
        _CACHE[key] = engine({"scpi::parser::tokenizer::token::Token::match_program_header": m_match_header})
        _CACHE[key].loop_limit = 8
    eng = _CACHE[key]
    body = eng.unit.body(EXEC)
    st = fdai.State()
    M.set_stream(st, [M.item(eng, n) for n in stream_names] + [M.UNKNOWN])
    cells = []
    kids = {}
    for i, (kind, dflt, matches) in enumerate(children):
        nm = b"N%d" % i
        kids[nm] = matches
        node = EnumV(NODE, kind, eng.variant_discr(NODE, kind), {0: RefV(Cell(fdai.BytesV(nm), "name%d" % i)), 1: K(dflt), 2: SymV("payload%d" % i, "handler-or-sub")})
        cells.append(Cell(node, "child%d" % i))
    st.extra["kids"] = kids
    parent = EnumV(NODE, "Branch", eng.variant_discr(NODE, "Branch"), {0: SymV("node-name", "name"), 1: SymV("node-default", "default"), 2: RefV(Cell(fdai.ListV(cells), "sub"))})
    args, leafcell, selfcell = mk_args(parent)
    st.extra["cells"] = {"leaf": leafcell, "self": selfcell}
    out = []
    for r in eng.run(body, args, st):
        pi = PathInfo(r)
        cs = r.extra.get("cells", {})
        lc, sc = cs.get("leaf"), cs.get("self")
        v = lc.v if lc is not None else None
        pi.leaf_after = "self" if isinstance(v, RefV) and v.cell is sc else "unchanged" if isinstance(v, SymV) and v.id == "oldleaf" else "other:%r" % (v,)
        out.append(pi)
    return out


def exec_children_named(names, mnemonic, follow="END"):
    """Node::exec on a Branch whose children are leaves with the given concrete names, at a header mnemonic with the
    given concrete text (followed by END): the real matching code runs (folded)."""
    key = "execnamed"
    if key not in _CACHE:
        base = _inline

        def inl(n, r):
            return base(n, r) or r.startswith(("scpi::parser::tokenizer::util::", "scpi::parser::tokenizer::token::"))
        e = engine(inline=inl)
        e.loop_limit = 64
        _CACHE[key] = e
    eng = _CACHE[key]
    body = eng.unit.body(EXEC)
    st = fdai.State()
    tok = fdai.mk_ok(M.token(eng, "ProgramMnemonic", [RefV(Cell(fdai.BytesV(bytes(mnemonic)), "mnemonic"))]))
    M.set_stream(st, [tok, M.item(eng, follow) if follow != "END" else M.END, M.UNKNOWN])
    cells = []
    for i, nm in enumerate(names):
        node = EnumV(NODE, "Leaf", eng.variant_discr(NODE, "Leaf"), {0: RefV(Cell(fdai.BytesV(bytes(nm)), "name%d" % i)), 1: K(False), 2: SymV("handler%d" % i, "handler")})
        cells.append(Cell(node, "child%d" % i))
    parent = EnumV(NODE, "Branch", eng.variant_discr(NODE, "Branch"), {0: SymV("node-name", "name"), 1: K(False), 2: RefV(Cell(fdai.ListV(cells), "sub"))})
    args, leafcell, selfcell = mk_args(parent)
    st.extra["cells"] = {"leaf": leafcell, "self": selfcell}
    return [PathInfo(r) for r in eng.run(body, args, st)]


def closure_kind(eng, defpath):
    """Classify a `find` predicate closure over Node by FDAI: returns the set of (kind, default) it accepts."""
    body = eng.find_body(defpath)
    if body is None:
        return None
    acc = set()
    for kind in ("Leaf", "Branch"):
        for dflt in (True, False):
            node = EnumV(NODE, kind, eng.variant_discr(NODE, kind), {0: SymV("n", "name"), 1: K(dflt), 2: SymV("p", "payload")})
            ncell = Cell(node, "child")
            # closure signature: (&mut self, &&Node)
            env = AggV("closure-env", {})
            res = eng.run(body, [RefV(Cell(env, "env"), (), True), RefV(Cell(RefV(ncell), "childref"))])
            vals = {(r.outcome, r.retval.v if isinstance(r.retval, K) else None) for r in res}
            if vals == {("return", True)}:
                acc.add((kind, dflt))
            elif vals != {("return", False)}:
                return None
    return acc


def recv_desc(e, selfcell=None):
    """Describe the receiver (arg 0) of an exec event."""
    a = e.args[0]
    return a


# ---- run_tokens ----------------------------------------------------------------------------------------

def m_exec_model(eng, st, fr, t, name, rname, args):
    """Model of Node::exec used while analysing run_tokens: record the event, move *leaf to a fresh symbol,
    return an unknown Result."""
    n = st.extra.get("exec_n", 0) + 1
    st.extra["exec_n"] = n
    # the real exec consumes the header mnemonic it was called at
    s_ = st.extra.get("stream") or []
    if s_ and M.item_name(s_[0]) == "ProgramMnemonic":
        M._pop(st)
    recv = eng.resolve(st, args[0])
    leafref = eng.resolve(st, args[1])
    cells = st.extra.get("cells", {})
    L = cells.get("L")
    info = {"n": n}
    # receiver identity
    if isinstance(recv, RefV) and recv.cell is cells.get("self"):
        info["recv"] = "self"
    elif isinstance(recv, SymV):
        info["recv"] = "sym:%s" % (recv.id,)
    else:
        info["recv"] = "other:%r" % (recv,)
    if isinstance(leafref, RefV):
        info["leafcell"] = leafref.cell.tag
        cur = eng.resolve(st, load(Loc(leafref.cell, leafref.path)))
        if isinstance(cur, RefV) and cur.cell is cells.get("self"):
            info["leaf_before"] = "self"
        elif isinstance(cur, SymV):
            info["leaf_before"] = "sym:%s" % (cur.id,)
        else:
            info["leaf_before"] = "other:%r" % (cur,)
        fdai.store(Loc(leafref.cell, leafref.path), SymV("moved%d" % n, "leaf-after-exec#%d" % n))
    else:
        info["leafcell"] = "?"
    info["stream_passed"] = isinstance(eng.resolve(st, args[4]), RefV) and eng.resolve(st, args[4]).cell.tag == "tokens"
    info["response_passed"] = isinstance(eng.resolve(st, args[5]), RefV) and eng.resolve(st, args[5]).cell.tag == "response"
    st.trace.append(fdai.Event("call", name, rname, tuple(snapshot(a) for a in args), fr.bi, t.get("line"), len(st.frames), fr.body.npath, extra=info))
    return st.fresh(("ret", name, n))


def run_tokens_table():
    if "rt" in _CACHE:
        return _CACHE["rt"]
    eng = engine({EXEC: m_exec_model})
    u = eng.unit
    body = u.body("scpi::tree::Node::run_tokens")
    rows = {}
    hdrs = ["HeaderMnemonicSeparator", "ProgramMnemonic", M.END, "ERR", "HeaderQuerySuffix", "ProgramHeaderSeparator", "ProgramMessageUnitSeparator", "ProgramDataSeparator", "CharacterProgramData"]
    posts = M.NONDATA + M.DATA + ["ERR", M.END]

    def hdr(h):
        # a leading `:` is followed by the mnemonic that exec consumes
        return [h, "ProgramMnemonic"] if h == "HeaderMnemonicSeparator" else [h]

    # The dispatcher looks at a header mnemonic's text only to tell common commands (leading `*`) from the rest:
    # the abstract stream carries one representative of each class as a constant, and the test - however it is
    # spelled (starts_with, first(), indexing, a match) - is decided by constant folding.
    REPR = {True: b"*CMD", False: b"CMD"}

    def one(stream_names):
        # positions of mnemonics that head a unit (not preceded by `:`): each is tried as common and as plain
        heads = [i for i, n in enumerate(stream_names) if n == "ProgramMnemonic" and (i == 0 or stream_names[i - 1] != "HeaderMnemonicSeparator")]
        out = []
        for mask in range(1 << len(heads)):
            common = [bool(mask >> k & 1) for k in range(len(heads))]
            items = []
            for i, n in enumerate(stream_names):
                if i in heads:
                    items.append(fdai.mk_ok(M.token(eng, n, [RefV(Cell(fdai.BytesV(REPR[common[heads.index(i)]]), "mnemonic"))])))
                else:
                    items.append(M.item(eng, n))
            st = fdai.State()
            M.set_stream(st, items + [M.UNKNOWN])
            node = mk_node(eng, "Branch")
            selfcell = Cell(node, "self")
            args = [RefV(selfcell)] + [RefV(Cell(TOP, t), (), True) for t in ("device", "context", "tokens", "response")]
            st.extra["cells"] = {"self": selfcell}
            for r in eng.run(body, args, st):
                pi = PathInfo(r)
                pi.common = common
                out.append(pi)
        return out

    # first unit: header x post
    for h in hdrs:
        if h in ("HeaderMnemonicSeparator", "ProgramMnemonic"):
            for p in posts:
                rows[(h, p)] = one(hdr(h) + [p])
        else:
            rows[(h,)] = one([h])
    # second unit (after a ';'): header x END
    for h1 in ("HeaderMnemonicSeparator", "ProgramMnemonic"):
        for h2 in hdrs:
            rows[(h1, "ProgramMessageUnitSeparator", h2, M.END)] = one(hdr(h1) + ["ProgramMessageUnitSeparator"] + hdr(h2) + [M.END])
    _CACHE["rt"] = rows
    return rows


def star_assumption(pi, nth=1):
    """Is the n-th unit-heading mnemonic of the analysed stream a common command (leading `*`)?"""
    c = getattr(pi, "common", None)
    if c is not None:
        return c[nth - 1] if len(c) >= nth else None
    syms = []
    for e in pi.trace:
        if e.kind == "call" and e.name.endswith("starts_with"):
            syms.append(e)
    if len(syms) < nth:
        return None
    # the assume event that follows refers to the sym returned by that call: match by order
    assumes = [e for e in pi.trace if e.kind == "assume" and e.name == "sym" and isinstance(e.args[0], tuple) and e.args[0][0] == "sym" and isinstance(e.args[0][2], tuple) and e.args[0][2][0] == "ret" and e.args[0][2][1].endswith("starts_with")]
    if len(assumes) < nth:
        return None
    return assumes[nth - 1].args[1]


def assumed(pi, callee_suffix, nth=1):
    """value assumed for the result of the nth call to callee on this path"""
    assumes = [e for e in pi.trace if e.kind == "assume" and e.name == "sym" and isinstance(e.args[0], tuple) and e.args[0][0] == "sym" and isinstance(e.args[0][2], tuple) and e.args[0][2][0] == "ret" and e.args[0][2][1].endswith(callee_suffix)]
    if len(assumes) < nth:
        return None
    return assumes[nth - 1].args[1]


# ---- run ---------------------------------------------------------------------------------------------------

def run_paths():
    if "run" in _CACHE:
        return _CACHE["run"]
    eng = engine(inline=lambda n, r: False)
    u = eng.unit
    body = u.body("scpi::tree::Node::run")
    st = fdai.State()
    args = [RefV(Cell(mk_node(eng, "Branch"), "self")), SymV("command", "command"), RefV(Cell(TOP, "device"), (), True), RefV(Cell(TOP, "context"), (), True), RefV(Cell(TOP, "response"), (), True)]
    res = eng.run(body, args, st)
    _CACHE["run"] = [PathInfo(r) for r in res]
    return _CACHE["run"]


# ---- Parameters -------------------------------------------------------------------------------------------------

PARAM_INLINE = (
    "scpi::parser::parameters::Parameters::next_optional_token",
    "scpi::parser::parameters::Parameters::next_token",
    "scpi::parser::tokenizer::token::Token::is_data",
    "scpi::error::Error::new",
    "<scpi::error::Error as core::convert::From<scpi::error::ErrorCode>>::from",
)


def params_table(fn):
    key = "params:" + fn
    if key in _CACHE:
        return _CACHE[key]
    # (the pulls of Parameters and whatever private workers they are written with are analysed in place)
    _own = inline_inherent(("scpi::parser::parameters::",))
    eng = engine(inline=lambda n, r: r in PARAM_INLINE or n in PARAM_INLINE or ((r.startswith("scpi::parser::parameters::Parameters::") or n.startswith("scpi::parser::parameters::Parameters::")) and _own(n, r)))
    eng.max_depth = 10
    u = eng.unit
    body = u.body("scpi::parser::parameters::Parameters::" + fn)
    rows = {}
    firsts = M.NONDATA + M.DATA + ["ERR", M.END]
    for first in firsts:
        seconds = [None]
        if first == "ProgramDataSeparator":
            seconds = M.NONDATA + M.DATA + ["ERR", M.END]
        for second in seconds:
            st = fdai.State()
            M.set_stream(st, [M.item(eng, first)] + ([M.item(eng, second)] if second else []) + [M.UNKNOWN])
            tokcell = Cell(TOP, "tokens")
            params = AggV("scpi::parser::parameters::Parameters", {0: RefV(tokcell, (), True)})
            res = eng.run(body, [RefV(Cell(params, "params"), (), True)], st)
            rows[(first, second)] = [PathInfo(r) for r in res]
    _CACHE[key] = rows
    return rows
