"""Whole-list value tables for NumericList and ChannelList.

`X::new(text)` and then `next()` again and again are folded by the FDAI engine (every function of scpi::parser analysed in
place, lexical-core's partial integer parser by contract) on representative complete list texts; the sequence of entries -
or the entries before the first error - is compared with a reference reading of SCPI-99 8.3.2 / 8.3.3."""
import re
from .. import facts, fdai, scpi_models as M
from ..fdai import EnumV, AggV, K, SymV, RefV, Cell, Loc, TOP, BytesV, load
from . import dispatch as D, chanspec as CS

_C = {}
_NUM = re.compile(rb"[+-]?(?:\d+\.?\d*|\.\d+)(?:[eE][+-]?\d+)?")

NUMERIC_TEXTS = [b"1 ,2", b"4,1 :5", b"1:2\t,3", b"1,2 ", b" 1", b"1, 2", b"1: 2", b"1", b"1,2", b"1:3", b"1,2:4,5", b"+1,-2.5e-3:+.5E+2", b".5,1", b"1,.5", b"-1.5,2e+3", b"1,,2", b",1", b"1,", b"1 2", b"1:2:3", b"1:", b":1", b"1,+-2,3", b"--5:7", b"-1.5,2e+-3", b"1,a", b"1;2", b"", b"1.5.5,2", b"1e,2", b"3:1", b"007,8"]
CHANNEL_TEXTS = [b"@1", b"@1,2", b"@1!2", b"@1!2:3!4", b"@1:3", b"@1,2:4,5!6", b"@-1,+2", b"@1!2!3:4!5!6", b"@,1", b"@1,,2", b"@1:2!3", b"@1!2:3", b"@1:2:3", b"@1 2", b"@1,a", b"@'POTATO'", b"@'POTATO',1", b"@1,'a'", b'@"a,b",2',
                 b"@'slot'2", b"@'a'\"b\"", b"@'POTATO',,2", b"@'a';1", b"@'a' ,1", b"@'abc", b"@1!", b"@!1", b"@1!!2", b"@", b"1,2", b"@1-2", b"@1,2!3:4!5,'x'",
                 # a sign stands once, in front of a number (seed C19-R: runs of signs)
                 b"@1,--2", b"@+-1", b"@1!2,3!-+4,5", b"@1:-+2", b"@-+1:2", b"@1!+-2",
                 # path names with any ASCII content: a raw newline, control bytes, the list's own separators, the other quote
                 b"@1,'a\nb',2!3", b"@'\n',7", b"@'\t x;:,!@#()',1", b"@\"it's\",1", b"@'say \"hi\"'", b"@'\x01\x7f',2", b"@'a b'"]


def _bytes(eng, st, v):
    b = M._bytes_of(eng, st, v)
    return bytes(b) if b is not None else None


def ref_numeric(text):
    """-> list of ("n", a) | ("r", a, b), then optionally "Err" as last item. An entry is a decimal number or a:b; entries
    are separated by exactly one `,`; a malformed entry is an error as a whole (nothing of it is yielded)."""
    out = []
    pos = 0
    first = True

    def number(p):
        m = _NUM.match(text, p)
        if not m:
            return None
        e = m.end()
        # an exponent letter right after the number means its exponent was malformed (`2e+-3`, `1e`): the entry as a whole
        # is in error; anything else that follows is the next entry's business (missing separator -> error there)
        if e < len(text) and text[e] in b"eE":
            return None
        return m.group(0), e
    while pos < len(text):
        if first:
            if not (chr(text[pos]).isdigit() or text[pos] in b"+-."):
                return out + ["Err"]
        else:
            if text[pos] != 44:
                return out + ["Err"]
            pos += 1
        first = False
        n1 = number(pos)
        if n1 is None:
            return out + ["Err"]
        a, pos = n1
        if pos < len(text) and text[pos] == 58:
            n2 = number(pos + 1)
            if n2 is None:
                return out + ["Err"]
            out.append(("r", a, n2[0]))
            pos = n2[1]
        else:
            out.append(("n", a))
    return out


_SPEC = re.compile(rb"[+-]?\d+(?:![+-]?\d+)*")


def ref_channel(text):
    """text includes the leading `@`; -> None when it is not a channel list, else entries (+ "Err"). An entry is a channel
    spec (numbers joined by `!`, a sign only in front of a number), a range of two specs of equal dimension, or a quoted
    path name; one `,` may stand between entries (the library does not insist on it), a leading or doubled `,` is an error."""
    if text[:1] != b"@":
        return None
    out = []
    pos = 1
    first = True

    def spec(p):
        m = _SPEC.match(text, p)
        if not m:
            return None
        e = m.end()
        if e < len(text) and text[e] == 33:      # `!` not followed by a number
            return None
        return m.group(0), e
    while pos < len(text):
        if text[pos] == 44:
            if first:
                return out + ["Err"]
            pos += 1
            if pos >= len(text) or text[pos] == 44:
                return out + ["Err"]
        c = text[pos]
        if chr(c).isdigit() or c in b"+-":
            s1 = spec(pos)
            if s1 is None:
                return out + ["Err"]
            a, pos = s1
            if pos < len(text) and text[pos] == 58:
                s2 = spec(pos + 1)
                if s2 is None or s2[0].count(b"!") != a.count(b"!"):
                    return out + ["Err"]
                out.append(("r", a, s2[0]))
                pos = s2[1]
            else:
                out.append(("s", a))
        elif c in b"\"'":
            end = text.find(bytes([c]), pos + 1)
            if end < 0:
                return out + ["Err"]
            nxt = end + 1
            while nxt < len(text) and text[nxt] in b" \t":
                nxt += 1
            if nxt < len(text) and text[nxt] not in b",;\n":
                return out + ["Err"]      # something glued to the closing quote
            out.append(("p", text[pos + 1:end]))
            pos = end + 1
        else:
            return out + ["Err"]
        first = False
    return out


def _engine():
    if "eng" not in _C:
        P = D.prog()
        u = P.unit("scpi")
        ms = dict(M.FOLD_MODELS)
        ms["lexical_core::parse_partial"] = CS.m_parse_partial
        eng = fdai.Engine(P, u, inline=lambda n, r: r.startswith(("scpi::parser::", "scpi::error::", "<scpi::error::", "<error::")) or (r.startswith("<") and ("parser::" in r or "error::" in r)), models=ms, loop_limit=200, max_paths=16, max_depth=14)
        _C["eng"] = (eng, u)
    return _C["eng"]


def _item(eng, st, kind, v):
    """abstract Option<Result<Token, Error>> -> entry tuple | "Err" | None (end) | ("?", repr)"""
    if not isinstance(v, EnumV):
        return ("?", repr(v)[:60])
    if v.name == "None":
        return None
    x = v.fields.get(0)
    if not isinstance(x, EnumV):
        return ("?", repr(x)[:60])
    if x.name == "Err":
        return "Err"
    tok = x.fields.get(0)
    if not isinstance(tok, EnumV):
        return ("?", repr(tok)[:60])

    def num(t):
        # numeric_list entries are tokenizer tokens (DecimalNumericProgramData(bytes))
        t = eng.resolve(st, t)
        if isinstance(t, EnumV) and t.fields:
            return _bytes(eng, st, t.fields.get(0))
        return _bytes(eng, st, t)

    def spec(t):
        t = eng.resolve(st, t)
        if isinstance(t, AggV):
            return _bytes(eng, st, t.fields.get(0))
        return None
    if tok.name == "Numeric":
        return ("n", num(tok.fields.get(0)))
    if tok.name == "NumericRange":
        return ("r", num(tok.fields.get(0)), num(tok.fields.get(1)))
    if tok.name == "ChannelSpec":
        return ("s", spec(tok.fields.get(0)))
    if tok.name == "ChannelRange":
        return ("r", spec(tok.fields.get(0)), spec(tok.fields.get(1)))
    if tok.name == "PathName":
        return ("p", _bytes(eng, st, tok.fields.get(0)))
    return ("?", tok.name)


def iterate(kind, text, limit=12):
    """fold X::new(text) and then next() until None / Err: -> list of entries (last may be "Err"), or ("undecided", why)"""
    eng, u = _engine()
    mod = "numeric_list::NumericList" if kind == "numeric" else "channel_list::ChannelList"
    try:
        newb = u.body("scpi::parser::expression::" + mod + "::new")
    except facts.AnchorLost as e:
        return ("undecided", str(e))
    nexts = u.impl_methods("core::iter::Iterator", "next", mod)
    if len(nexts) != 1:
        return ("undecided", "impl Iterator for %s (found %d)" % (mod, len(nexts)))
    try:
        rs = eng.run(newb, [M._mkslice(text, 0)])
    except (fdai.TooManyPaths, RecursionError) as e:
        return ("undecided", type(e).__name__)
    if len(rs) != 1 or rs[0].outcome != "return":
        return ("undecided", "new(): %d paths" % len(rs))
    obj = rs[0].retval
    if kind == "channel":
        if not isinstance(obj, EnumV):
            return ("undecided", "new() gives %r" % (obj,))
        if obj.name == "None":
            return None
        obj = obj.fields.get(0)
    cell = Cell(obj, "list")
    out = []
    for _ in range(limit):
        st = fdai.State()
        st.extra["obj"] = cell
        try:
            rr = eng.run(nexts[0], [RefV(cell, (), True)], st)
        except (fdai.TooManyPaths, RecursionError) as e:
            return ("undecided", type(e).__name__)
        if len(rr) != 1 or rr[0].outcome not in ("return",):
            return ("undecided", "next(): %s" % [r.outcome for r in rr][:3]) if not (len(rr) == 1 and rr[0].outcome == "panic") else out + ["panic"]
        it = _item(eng, rr[0], kind, rr[0].retval)
        if it is None:
            return out
        out.append(it)
        if it == "Err":
            return out
        cell = rr[0].extra.get("obj")
    return out + ["..."]


def table(kind):
    if kind in _C:
        return _C[kind]
    rows = []
    for text in (NUMERIC_TEXTS if kind == "numeric" else CHANNEL_TEXTS):
        got = iterate(kind, text)
        exp = ref_numeric(text) if kind == "numeric" else ref_channel(text)
        rows.append((text, got, exp))
    _C[kind] = rows
    return rows
