"""Shared analyses of the TryFrom<Token> conversions: accept matrix, keyword tables, error maps."""
from .. import facts, fdai, scpi_models as M, sym
from ..fdai import EnumV, AggV, K, SymV, RefV, Cell, Loc, TOP, load
from . import dispatch as D

INTS = {
    "u8": (0, 2**8 - 1, 8), "i8": (-(2**7), 2**7 - 1, 8), "u16": (0, 2**16 - 1, 16), "i16": (-(2**15), 2**15 - 1, 16),
    "u32": (0, 2**32 - 1, 32), "i32": (-(2**31), 2**31 - 1, 32), "u64": (0, 2**64 - 1, 64), "i64": (-(2**63), 2**63 - 1, 64),
    "usize": (0, 2**64 - 1, 64), "isize": (-(2**63), 2**63 - 1, 64),
}
FLOATS = {"f32": 32, "f64": 64}
TOKTRAIT = "core::convert::TryFrom<parser::tokenizer::token::Token"
TOKTRAIT_X = "core::convert::TryFrom<scpi::parser::tokenizer::token::Token"
_C = {}


def no_compare_inline(n, r):
    if "mnemonic_compare" in r or "mnemonic_match" in r:
        return False
    if r.startswith("scpi::") or n.startswith("scpi::") or r.startswith("scpi_contrib::") or n.startswith("scpi_contrib::"):
        return True
    if r.startswith("<") and ("parser::" in r or "error::" in r or "scpi1999" in r) and "TryFrom" not in r.split(">::")[0][:0]:
        return True
    return False


def engine(config="dflt", unit="scpi"):
    P = facts.program(config)
    u = P.unit(unit)
    # (loop_limit: a lookup table of a handful of keywords walked by a loop must be walked to its end)
    return fdai.Engine(P, u, inline=no_compare_inline, models={}, max_paths=3000, max_depth=10, loop_limit=8)


def conversions(u):
    """TryFrom<Token> impl bodies of a unit: list of (self type string, body)"""
    out = []
    for b in u.bodies:
        if b.kind == "AssocFn" and b.name == "try_from" and b.impl_trait and "convert::TryFrom<" in b.impl_trait and "tokenizer::" in b.impl_trait and "Token<" in b.impl_trait.split("TryFrom<")[1]:
            out.append((b.impl_self, b))
    return out


def outcome_set(eng, body, tokname):
    tok = M.token(eng, tokname)
    res = eng.run(body, [tok])
    out = set()
    for r in res:
        o = M.outcome(r)
        out.add(o)
    return out, res


def matrix(config="dflt", unit="scpi"):
    key = ("matrix", config, unit)
    if key in _C:
        return _C[key]
    eng = engine(config, unit)
    u = eng.unit
    rows = {}
    for ty, b in conversions(u):
        for name in M.NONDATA + M.DATA:
            try:
                oc, res = outcome_set(eng, b, name)
            except fdai.TooManyPaths as e:
                oc, res = {"too-many-paths"}, []
            rows[(ty, name)] = (oc, res, b)
    _C[key] = rows
    return rows


# Oracle (DESIGN.md Appendix B): target class -> data variant -> allowed outcomes. "V" = whatever the underlying
# value conversion yields (any Err / Ok), written as None (not constrained here; constrained by the value type's own row).
NUM_ERR = {"Err(DataOutOfRange)", "Err(InvalidCharacterInNumber)", "Err(NumericDataError)"}
E104 = {"Err(DataTypeError)"}


def expected(ty):
    """returns dict variant -> (must_include_ok: bool|None, allowed set or None)"""
    C, D_, DS, ND, S, B, X = M.DATA
    t = ty
    if t == "&'a [u8]":
        return {C: (False, E104), D_: (False, E104), DS: (False, E104), ND: (False, E104), S: (True, {"Ok"}), B: (False, E104), X: (False, E104)}
    if t == "&'a str":
        return {C: (False, E104), D_: (False, E104), DS: (False, E104), ND: (False, E104), S: (True, {"Ok", "Err(StringDataError)"}), B: (True, {"Ok", "Err(StringDataError)"}), X: (False, E104)}
    if t.endswith("format::Arbitrary<'a>"):
        return {C: (False, E104), D_: (False, E104), DS: (False, E104), ND: (False, E104), S: (False, E104), B: (True, {"Ok"}), X: (False, E104)}
    if t.endswith("format::Character<'a>"):
        return {C: (True, {"Ok"}), D_: (False, E104), DS: (False, E104), ND: (False, E104), S: (False, E104), B: (False, E104), X: (False, E104)}
    if t.endswith("format::Expression<'a>") or t.endswith("NumericList<'a>"):
        return {C: (False, E104), D_: (False, E104), DS: (False, E104), ND: (False, E104), S: (False, E104), B: (False, E104), X: (True, {"Ok"})}
    if t.endswith("ChannelList<'a>"):
        return {C: (False, E104), D_: (False, E104), DS: (False, E104), ND: (False, E104), S: (False, E104), B: (False, E104), X: (True, {"Ok", "Err(InvalidExpression)"})}
    if t == "bool":
        return {C: (True, {"Ok", "Err(IllegalParameterValue)"}), D_: (True, {"Ok"} | NUM_ERR), DS: (False, E104), ND: (False, E104), S: (False, E104), B: (False, E104), X: (False, E104)}
    if t in FLOATS:
        return {C: (True, {"Ok", "Err(DataTypeError)"}), D_: (True, {"Ok"} | NUM_ERR), DS: (False, {"Err(SuffixNotAllowed)"}), ND: (False, E104), S: (False, E104), B: (False, E104), X: (False, E104)}
    if t in INTS:
        return {C: (True, {"Ok", "Err(DataTypeError)"}), D_: (True, {"Ok"} | NUM_ERR), DS: (False, {"Err(SuffixNotAllowed)"}), ND: (True, {"Ok", "Err(DataOutOfRange)"}), S: (False, E104), B: (False, E104), X: (False, E104)}
    return None


def lexical_error_table(eng):
    for k_, t_ in eng.enum_tables.items():
        if k_.endswith("Error") and "InvalidDigit" in t_.values() and "lexical" in k_:
            return k_, t_
    return None, None


def error_map(config, unit, body):
    """Outcome of converting a decimal literal when lexical-core's parser reports each of its error variants
    (the parser call is modelled as returning Err(variant)); independent of how the mapping code is organised."""
    P = facts.program(config)
    u = P.unit(unit)
    base = engine(config, unit)
    adt, tab = lexical_error_table(base)
    if tab is None:
        raise facts.AnchorLost("variant table of lexical_core::Error")
    out = {}
    for d, vn in sorted(tab.items()):
        def m_parse(eng, st, fr, t, name, rname, args, d=d, vn=vn):
            st.trace.append(fdai.Event("call", name, rname, tuple(fdai.snapshot(a) for a in args), fr.bi, t.get("line"), len(st.frames), fr.body.npath, extra={"gargs": tuple(t["callee"].get("gargs", ()))}))
            return fdai.mk_err(EnumV(adt, vn, d, {0: SymV("pos", "pos")}))
        eng = fdai.Engine(P, u, inline=no_compare_inline, models={"lexical_core::parse": m_parse}, max_paths=3000, max_depth=10)
        res = eng.run(body, [M.token(eng, "DecimalNumericProgramData")])
        out[vn] = {M.outcome(r) for r in res}
    return out


def expected_error(vn):
    return {"Err(DataOutOfRange)"} if vn in ("Overflow", "Underflow") else {"Err(InvalidCharacterInNumber)"} if vn == "InvalidDigit" else {"Err(NumericDataError)"}


# ---- folded evaluation of a conversion on concrete character data -------------------------------------------------------
def fold_engine(config="dflt", unit="scpi"):
    key = ("fold", config, unit)
    if key in _C:
        return _C[key]
    P = facts.program(config)
    u = P.unit(unit)

    def inl(n, r):
        return r.startswith(("scpi::", "scpi_contrib::")) or n.startswith(("scpi::", "scpi_contrib::")) or (r.startswith("<") and ("parser::" in r or "error::" in r or "scpi1999" in r))

    eng = fdai.Engine(P, u, inline=inl, models=M.with_lists(M.FOLD_MODELS), max_paths=64, max_depth=12, loop_limit=64)
    _C[key] = eng
    return eng


def keyword_probes(keywords):
    """texts around every keyword: both forms in several letter cases, and near misses (one letter short, one too
    many, with a numeric suffix, partial long form)"""
    out = []
    for kw in keywords:
        short = kw.rstrip(b"abcdefghijklmnopqrstuvwxyz")
        forms = [kw, kw.upper(), kw.lower(), short, short.lower(), kw.swapcase(), short[:1] + short[1:].lower()]
        miss = [short[:-1], kw[:-1] if kw[:-1] != short else kw + b"q", kw + b"x", short + b"x", kw + b"1", short + b"1", short + b"01", b"x" + kw]
        if len(kw) - len(short) >= 2:
            miss.append(kw[: len(short) + 1])
        out.extend(forms + miss)
    out.extend([b"FOO", b"A", b""])
    seen = set()
    res = []
    for t in out:
        if t not in seen and len(t) <= 12:
            seen.add(t)
            res.append(t)
    return res


def fold_character(eng, body, text):
    """outcomes of converting Token::CharacterProgramData(text)"""
    tok = M.token(eng, "CharacterProgramData", [RefV(Cell(fdai.BytesV(bytes(text)), "chars"))])
    try:
        return eng.run(body, [tok])
    except (fdai.TooManyPaths, RecursionError):
        return None


# ---- decimal literals: lexical-core's complete integer parser as audited, integer TryFrom by contract ------------------------------

import re as _re

_INTTY = _re.compile(r"[iu](8|16|32|64|128|size)")


def m_lexical_parse_int(eng, st, fr, t, name, rname, args):
    """lexical_core::parse::<T>(text) for integer T as audited on the pinned lexical-core (probed on the real crate when
    defect F17 was triaged): optional sign (a `-` is an invalid digit for unsigned T), digits only; overflow is recognised
    from the digit count (more significant digits than T's largest magnitude has) or, at exactly that count, from the
    wrapped magnitude being below 10^(count-1) - so `356` is returned as 100u8, `75536` as 10000u16, `-896` as -128i8.
    Floats are not modelled here (the caller's float fallback stays undecided)."""
    b_ = M._bytes_of(eng, st, args[0])
    g = [str(x) for x in eng.concrete_gargs(st, t["callee"]) if _INTTY.fullmatch(str(x))]
    if b_ is None or len(g) != 1:
        return NotImplemented
    ty = g[0]
    lo, hi = fdai._INT_RANGE[ty]
    bits = (hi - lo + 1).bit_length() - 1
    txt = bytes(b_)
    adt, tab = lexical_error_table(eng)

    def err(variant, pos):
        d = [k for k, n_ in (tab or {}).items() if n_ == variant]
        return fdai.mk_err(EnumV(adt, variant, d[0] if d else 0, {0: K(pos)}))
    if not txt:
        return err("Empty", 0)
    neg = False
    i = 0
    if txt[:1] in (b"+", b"-"):
        if txt[:1] == b"-":
            if lo == 0:
                return err("InvalidDigit", 0)
            neg = True
        i = 1
    if i >= len(txt):
        return err("Empty", i)
    j = i
    while j < len(txt) and 48 <= txt[j] <= 57:
        j += 1
    if j < len(txt):
        return err("InvalidDigit", j) if j > i else err("InvalidDigit", i)
    sig = txt[i:j].lstrip(b"0") or b"0"
    mag = int(sig)
    maxmag = -lo if neg else hi
    maxd = len(str(max(hi, -lo)))
    if len(sig) > maxd:
        return err("Underflow" if neg else "Overflow", j)
    if mag <= maxmag:
        return fdai.mk_ok(K(-mag if neg else mag))
    wrapped = mag % (2 ** bits)
    if len(sig) == maxd and wrapped >= 10 ** (maxd - 1) and wrapped <= maxmag:
        return fdai.mk_ok(K(-wrapped if neg else wrapped))   # the audited defect: overflow goes unnoticed
    return err("Underflow" if neg else "Overflow", j)


def m_int_try_from(eng, st, fr, t, name, rname, args):
    g = [str(x) for x in eng.concrete_gargs(st, t["callee"]) if _INTTY.fullmatch(str(x))]
    v = eng.resolve(st, args[0])
    if len(g) != 2 or not isinstance(v, K) or isinstance(v.v, bool):
        return NotImplemented
    lo, hi = fdai._INT_RANGE[g[1] if name.endswith("try_into") else g[0]]
    return fdai.mk_ok(K(v.v)) if lo <= v.v <= hi else fdai.mk_err(SymV("TryFromIntError", "TryFromIntError"))


def decimal_engine(config="dflt", unit="scpi"):
    key = ("decimal", config, unit)
    if key in _C:
        return _C[key]
    P = facts.program(config)
    u = P.unit(unit)

    def inl(n, r):
        return r.startswith(("scpi::", "scpi_contrib::")) or n.startswith(("scpi::", "scpi_contrib::")) or (r.startswith("<") and ("parser::" in r or "error::" in r or "scpi1999" in r))
    ms = M.with_lists(M.FOLD_MODELS)
    ms["lexical_core::parse"] = m_lexical_parse_int
    ms["core::convert::TryFrom::try_from"] = m_int_try_from
    ms["core::convert::TryInto::try_into"] = m_int_try_from
    eng = fdai.Engine(P, u, inline=inl, models=ms, max_paths=64, max_depth=14, loop_limit=64)
    _C[key] = eng
    return eng


def fold_decimal(eng, body, text):
    """outcomes of converting Token::DecimalNumericProgramData(text)"""
    tok = M.token(eng, "DecimalNumericProgramData", [RefV(Cell(fdai.BytesV(bytes(text)), "digits"))])
    try:
        return eng.run(body, [tok])
    except (fdai.TooManyPaths, RecursionError):
        return None


def nr1_probes(ty):
    """NR1 texts around the limits of integer type `ty`, including the literals with as many digits as the largest
    magnitude whose value exceeds it by a multiple of 2^bits (where a wrapping parser goes wrong)"""
    lo, hi, bits = INTS[ty]
    vals = {0, 1, 7, hi, hi - 1, hi + 1, hi + 2, lo, lo - 1, 10 ** len(str(hi)) - 1, 10 ** len(str(hi))}
    d = len(str(hi))
    for k in (1, 2, 3):
        for base in (10 ** (d - 1), hi, 10 ** (d - 1) + 1):
            v = k * 2 ** bits + base
            if len(str(v)) == d:
                vals.add(v)
    if lo < 0:
        dn = len(str(-lo))
        vals |= {lo + 1, -1, -(10 ** dn - 1)}
        for k in (1, 2, 3):
            for base in (10 ** (dn - 1), -lo):
                v = k * 2 ** bits + base
                if len(str(v)) == dn:
                    vals.add(-v)
    else:
        vals |= {-1, -hi}
    texts = [str(v).encode() for v in sorted(vals)]
    texts += [b"+7", b"007", b"-0", b"+0"]
    return [(t, int(t)) for t in texts]

