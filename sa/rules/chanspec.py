"""Value tables of the ChannelSpec -> integer / tuple conversions.

The TryFrom<ChannelSpec> impls are folded by the FDAI engine on concrete channel specs (text and dimension as the
channel-list reader produces them), with lexical-core's partial integer parser and the integer TryFrom conversions
interpreted by contract and the workspace's own TryFrom / From impls analysed in place. The result - the tuple of
numbers, or the error code - is exact for each input, however the conversion is organised (through the signed tuple,
directly, through a shared helper ...)."""
import re
from .. import facts, fdai, scpi_models as M
from ..fdai import EnumV, AggV, K, SymV, RefV, Cell, TOP
from . import dispatch as D

_INT = re.compile(r"[iu](8|16|32|64|128|size)")

TEXTS = [b"7", b"-7", b"+7", b"0", b"12!34", b"12!-34", b"-12!34", b"+12!+34", b"1!2!3", b"-1!2!3", b"1!-2!3", b"1!2!-3", b"1!2!3!4", b"65535!65536"]


def _int_ty_of(g):
    for x in g or ():
        if _INT.fullmatch(str(x)):
            return str(x)
    return None


def m_parse_partial(eng, st, fr, t, name, rname, args):
    """lexical_core::parse_partial::<T>: the longest leading integer of the text (sign allowed for signed T; a `-` is
    no number for unsigned T), Err when there is none or it does not fit T"""
    b_ = M._bytes_of(eng, st, args[0])
    ty = _int_ty_of(eng.concrete_gargs(st, t["callee"]))
    if b_ is None or ty is None:
        return NotImplemented
    txt = bytes(b_)
    lo, hi = fdai._INT_RANGE[ty]
    i = 0
    if txt[:1] in (b"+", b"-"):
        if txt[:1] == b"-" and lo == 0:
            return fdai.mk_err(SymV("lexical-error", "lexical-error"))
        i = 1
    j = i
    while j < len(txt) and chr(txt[j]).isdigit():
        j += 1
    if j == i:
        return fdai.mk_err(SymV("lexical-error", "lexical-error"))
    v = int(txt[:j])
    if not lo <= v <= hi:
        return fdai.mk_err(SymV("lexical-error", "lexical-error"))
    return fdai.mk_ok(AggV("tuple", {0: K(v), 1: K(j)}))


def m_int_try(eng, st, fr, t, name, rname, args):
    g = [str(x) for x in eng.concrete_gargs(st, t["callee"]) if _INT.fullmatch(str(x))]
    v = eng.resolve(st, args[0])
    if len(g) != 2 or not isinstance(v, K) or isinstance(v.v, bool):
        return NotImplemented
    lo, hi = fdai._INT_RANGE[g[1] if name.endswith("try_into") else g[0]]
    return fdai.mk_ok(K(v.v)) if lo <= v.v <= hi else fdai.mk_err(SymV("TryFromIntError", "TryFromIntError"))


_C = {}


def engine():
    if "eng" not in _C:
        P = D.prog()
        u = P.unit("scpi")
        ms = dict(M.FOLD_MODELS)
        ms["lexical_core::parse_partial"] = m_parse_partial
        ms["core::convert::TryInto::try_into"] = m_int_try
        ms["core::convert::TryFrom::try_from"] = m_int_try
        eng = fdai.Engine(P, u, inline=lambda n, r: "channel_list" in r or r.startswith(("scpi::error::", "<scpi::error::", "<error::")) or "error::Error" in r, models=ms, loop_limit=40, max_paths=64)
        for k in ("core::convert::TryInto::try_into", "core::convert::TryFrom::try_from", "core::convert::Into::into", "core::convert::From::from"):
            eng.redirect[k] = fdai.conversion_redirect
        _C["eng"] = (eng, u)
    return _C["eng"]


def conversions(u):
    return [b for b in u.bodies if b.name == "try_from" and "TryFrom<parser::expression::channel_list::ChannelSpec" in (b.impl_trait or "")]


def arity(ty):
    ty = ty.strip()
    return ty.count(",") + 1 if ty.startswith("(") else 1


def reference(ty, txt):
    """-> ("Ok", (numbers...)) | ("Err", "syntax" | "value")  for converting the channel spec `txt` into `ty`"""
    nums = [int(x) for x in txt.split(b"!")]
    if len(nums) != arity(ty):
        return ("Err", "syntax")
    elem = _INT.search(ty).group(0)
    lo, hi = fdai._INT_RANGE[elem]
    if any(not lo <= n <= hi for n in nums):
        return ("Err", "value")
    return ("Ok", tuple(nums))


def texts(thorough):
    if not thorough:
        return TEXTS
    import itertools
    vals = [b"0", b"7", b"-7", b"+7", b"65536", b"-32769"]
    out = list(TEXTS)
    for n in (1, 2, 3, 4):
        for combo in itertools.product(vals, repeat=n):
            if n == 4 and any(c not in (b"7", b"-7") for c in combo):
                continue
            out.append(b"!".join(combo))
    seen = set()
    return [t for t in out if not (t in seen or seen.add(t))]


def table(thorough=False):
    """{(type, text): (("Ok", numbers) | ("Err", {codes}) | ("undecided", why), reference)}"""
    key_ = "table-thorough" if thorough else "table"
    if key_ in _C:
        return _C[key_]
    eng, u = engine()
    adt = [a for a in u.adts if a.endswith("channel_list::ChannelSpec")]
    if len(adt) != 1:
        raise facts.AnchorLost("ADT channel_list::ChannelSpec")
    fields = u.adts[adt[0]]["variants"][0]["fields"]
    if len(fields) != 2:
        raise facts.AnchorLost("ChannelSpec(text, dimension)")
    out = {}
    for b in conversions(u):
        for txt in texts(thorough):
            spec = AggV(adt[0], {0: M._mkslice(txt), 1: K(txt.count(b"!") + 1)})
            ref = reference(b.impl_self, txt)
            try:
                res = eng.run(b, [spec])
            except (fdai.TooManyPaths, RecursionError) as e:
                out[(b.impl_self, txt)] = (("undecided", type(e).__name__), ref, b)
                continue
            if len(res) != 1 or res[0].outcome != "return":
                out[(b.impl_self, txt)] = (("undecided", "%d paths: %s" % (len(res), [M.outcome(r) if r.outcome == "return" else r.outcome for r in res][:3])), ref, b)
                continue
            r = res[0]
            if M.outcome(r) == "Ok":
                v = r.retval.fields.get(0)
                elems = [v.fields[i] for i in sorted(v.fields)] if isinstance(v, AggV) else [v]
                got = ("Ok", tuple(e.v if isinstance(e, K) else repr(e) for e in elems))
            else:
                got = ("Err", frozenset(M.err_codes(r.retval)))
            out[(b.impl_self, txt)] = (got, ref, b)
    _C[key_] = out
    return out


# ---- overridden Iterator methods ---------------------------------------------------------------------------------------------
def check_iterator_overrides(R, rule):
    """The list iterators define `next`; every other Iterator method a caller may use (`nth`, `skip`, `step_by`, `last`,
    `count` ...) is core's, defined through `next`. An override is a second implementation of the same sequence: it is
    folded against `next` - from a fresh and from a partly consumed iterator, `nth(k)` must return what k + 1 calls of
    `next` return and leave the iterator where they leave it (seed C19-O). An override of another method is reported as not
    decided."""
    import copy
    eng, u = engine()
    its = {}
    for b in u.bodies:
        if (b.impl_trait or "").endswith(" as core::iter::Iterator>") and b.name and b.kind != "Closure" and "/parser/" in ("/" + b.file()):
            its.setdefault(b.impl_self or "?", {})[b.name] = b
    R.floor(rule, "iterator impls of the parser", len(its), 4)
    n_over = 0
    for ty, ms in sorted(its.items()):
        extra = sorted(set(ms) - {"next"})
        if "next" not in ms:
            R.violation(rule, "overrides:%s" % ty, "impl Iterator for %s without `next`" % ty)
            continue
        bad = []
        for name in extra:
            n_over += 1
            if name == "size_hint":
                continue            # bounds only; no element is produced through it
            if not (name == "nth" and ty.endswith("ChannelSpecIterator<'a>")):
                bad.append("%s::%s is overridden and its agreement with `next` is not decided" % (ty, name))
                continue
            adt = [a for a in u.adts if a.endswith("channel_list::ChannelSpec")][0]
            into = [b for b in u.bodies if b.name == "into_iter" and (b.impl_self or "").endswith("ChannelSpec<'a>")]
            if len(into) != 1:
                bad.append("IntoIterator for ChannelSpec not found")
                continue

            def fresh(txt):
                res = eng.run(into[0], [AggV(adt, {0: M._mkslice(txt), 1: K(txt.count(b"!") + 1)})])
                return Cell(res[0].retval, "it") if len(res) == 1 and res[0].outcome == "return" else None

            def call(body, cell, *more):
                res = eng.run(body, [RefV(cell, (), True)] + list(more))
                if len(res) != 1 or res[0].outcome != "return":
                    return "undecided"
                return repr(fdai.snapshot(res[0].retval))
            for txt in (b"11!22!33", b"7", b"1!-2", b"5!6!7!8"):
                ref_it = fresh(txt)
                if ref_it is None:
                    bad.append("%r: into_iter undecided" % txt)
                    continue
                items = [call(ms["next"], ref_it) for _ in range(txt.count(b"!") + 3)]
                for pre in range(0, 3):
                    for k in range(0, 3):
                        it = fresh(txt)
                        for _ in range(pre):
                            call(ms["next"], it)
                        got = call(ms[name], it, K(k))
                        after = call(ms["next"], it)
                        want = items[pre + k] if pre + k < len(items) else items[-1]
                        want_after = items[pre + k + 1] if pre + k + 1 < len(items) else items[-1]
                        if got != want or after != want_after:
                            bad.append("%r: after %d next(), nth(%d) returns %s then next() %s; %d calls of next() return %s then %s" % (txt, pre, k, _short(got), _short(after), k + 1, _short(want), _short(want_after)))
        R.check(not bad, rule, "overrides:%s" % ty.split("::")[-1], "defines %s; the other Iterator methods are core's, defined through next" % (["next"] + extra), "; ".join(bad[:3]), where=ms["next"].span)
    R.count("iterator_overrides", n_over)


def _short(s):
    """`Some(Ok(22))` instead of the snapshot's nested tuples"""
    m = re.search(r"'K', (-?\d+)", s)
    if "'None'" in s and not m:
        return "None"
    if m:
        return "Some(Ok(%s))" % m.group(1)
    return "Some(Err)" if "'Err'" in s else s[:50]
