"""C20 - derived enums map mnemonics to variants and back consistently."""
from .. import facts, fdai, scpi_models as M, sym
from . import contrib as CB_
from ..fdai import EnumV, AggV, K, SymV, RefV, Cell, Loc, TOP, load, snapshot, BytesV
from . import dispatch as D, convert as CV
from .c08 import C_bytes

LEVEL = "translation_validation"
TECHNIQUE = "translation validation of #[derive(ScpiEnum)]: for every derived enum compiled in the workspace and in the witness crate the expansion's MIR is tabulated by FDAI (from_mnemonic guard chain, mnemonic() table, TryFrom<Token> row) and checked to be mutually inverse and complete; the response text of every variant is obtained by constant-folding the blanket ResponseData impl on the variant's own mnemonic constant and folded back through from_mnemonic; typed echo tables (sa/rules/echotable.py, witness/echo): `Node::run` folded end to end on messages to a witness command that pulls one parameter of the type (`next_data::<T>()` / `next_optional_data`) and writes it back - lexer, dispatcher, Parameters, the conversion, the ResponseData writer and the formatter analysed in place, lexical-core's parsers / integer writer by contract - the answer compared with a reference written from the property's statement: a derive(ScpiEnum) enum with suffixed siblings as parameter and answer: short / long form in any case, default-1 suffix rule, foreign and leading-zero suffixes, partial long forms, one letter more or less"
LEVEL_TEXT = "Each derive instance (programs = derived enums) is validated against the attribute table recovered from its own expansion: from_mnemonic is a first-match chain of scpi's mnemonic_match guards, one per attributed variant, returning that variant; mnemonic() is its inverse; the Token conversion accepts character data only. Because the mnemonics are program constants, the response formatter and the matcher are partially evaluated on them: the emitted text of every variant is computed and shown to select the same variant again."
LEVEL_NOTE = "Not decided: enums with colliding mnemonics (excluded by the property); enum shapes not present among the witnesses. Trusted: rustc MIR, FDAI models of slice iterators/split/all/rposition used for constant folding."

MATCHERS = ("scpi::parser::tokenizer::util::mnemonic_match",)


def derived_enums(prog):
    out = []
    for u in prog.units:
        for b in u.bodies:
            if b.name == "from_mnemonic" and "option::ScpiEnum" in (b.impl_trait or ""):
                mn = [x for x in u.bodies if x.name == "mnemonic" and x.impl_trait == b.impl_trait]
                tf = [x for x in u.bodies if x.name == "try_from" and x.impl_self == b.impl_self and "TryFrom<" in (x.impl_trait or "") and "Token<" in (x.impl_trait or "")]
                out.append((u, b.impl_self, b, mn[0] if mn else None, tf[0] if tf else None))
    return out


def enum_adt(u, self_ty):
    for k, a in u.adts.items():
        if k.endswith("::" + self_ty) or k == self_ty or k.endswith(self_ty):
            return k, a
    return None, None


def fold_engine(prog, unit):
    def inl(n, r):
        return r.startswith(("scpi::parser::tokenizer::", "scpi::option::ScpiEnum::")) or n.startswith(("scpi::parser::tokenizer::", "scpi::option::ScpiEnum::")) or "as scpi::option::ScpiEnum>" in r or "as option::ScpiEnum>" in r
    # (private helpers of the response module are analysed in place)
    from . import dispatch as D_
    _resp = D_.inline_inherent(("scpi::parser::response::", "scpi::parser::format::", "scpi::option::"))
    return fdai.Engine(prog, unit, inline=lambda n, r: inl(n, r) or _resp(n, r), models=M.FOLD_MODELS, loop_limit=60, max_depth=12)


def response_text(prog, unit, adt_path, variant, discr, nfields):
    """Constant-fold the blanket `impl<T: ScpiEnum> ResponseData for T` on one variant: returns emitted bytes or error str."""
    us = prog.unit("scpi")
    bs = [b for b in us.bodies if b.name == "format_response_data" and (b.impl_self or "") == "T" and "ResponseData" in (b.impl_trait or "")]
    if len(bs) != 1:
        raise facts.AnchorLost("blanket impl<T: ScpiEnum> ResponseData for T")
    body = bs[0]
    eng = fold_engine(prog, unit)
    # `mnemonic::<T>(self)` is a trait call on the generic T: resolve it to this enum's impl
    mn = [x for x in unit.bodies if x.name == "mnemonic" and "option::ScpiEnum" in (x.impl_trait or "") and adt_path.endswith(x.impl_self or "?")]
    if len(mn) != 1:
        raise facts.AnchorLost("ScpiEnum::mnemonic for %s" % adt_path)

    def m_mnemonic(eng_, st, fr, t, name, rname, args):
        return eng_.call_closure(st, fr, fdai.FnV(mn[0].npath), [args[0]], t)

    eng.models["scpi::option::ScpiEnum::mnemonic"] = m_mnemonic
    eng.inline = (lambda old: (lambda n, r: old(n, r) or r == mn[0].npath or n == mn[0].npath))(eng.inline)
    val = EnumV(adt_path, variant, discr, {i: TOP for i in range(nfields)})
    res = eng.run(body, [RefV(Cell(val, "self")), RefV(Cell(TOP, "fmt"), (), True)])
    texts = set()
    for r in res:
        if r.outcome != "return":
            texts.add("<%s>" % r.outcome)
            continue
        if not (isinstance(r.retval, EnumV) and r.retval.name == "Ok") and not isinstance(r.retval, SymV):
            continue  # a failed push (buffer error) path
        parts = []
        ok = True
        for e in r.trace:
            if e.kind == "call" and e.name.split("::")[-1] in ("push_str", "push_ascii", "push_byte"):
                b = C_bytes(e.args[1]) if e.args[1][0] != "sym" else None      # (bytes inside the description of an unknown value are not the value)
                if b is None and e.args[1][0] == "K":
                    b = bytes([e.args[1][1]])
                if b is None:
                    ok = False
                else:
                    parts.append(b)
        # only complete outputs (all pushes succeeded)
        fails = [e for e in r.trace if e.kind == "assume" and e.name == "variant" and e.args[1] == "Err"]
        if fails:
            continue
        texts.add(b"".join(parts) if ok else "<unknown bytes>")
    return texts


def select(prog, unit, from_body, text):
    eng = fold_engine(prog, unit)
    res = eng.run(from_body, [RefV(Cell(BytesV(text), "text"))])
    out = set()
    for r in res:
        v = r.retval
        if r.outcome == "return" and isinstance(v, EnumV) and v.name == "Some" and isinstance(v.fields.get(0), EnumV):
            out.add(v.fields[0].name)
        elif r.outcome == "return" and isinstance(v, EnumV) and v.name == "None":
            out.add(None)
        else:
            out.add("<%s>" % r.outcome)
    return out


def probe_texts(mnemonics):
    """texts around every variant mnemonic: both forms and letter cases, with / without / with another numeric suffix,
    near misses"""
    from .c03 import ref_split, ref_short
    out = []
    for m in mnemonics:
        name, suf = ref_split(m)
        short = ref_short(name)
        for base in (name, name.upper(), name.lower(), short, short.lower(), name + b"x", short[:-1] if len(short) > 1 else b"q", name[: len(short) + 1] if len(name) - len(short) >= 2 else name):
            for s_ in (suf or b"", b"", b"1", b"01", b"2", (suf or b"") + b"0"):
                out.append(base + s_)
    out += [b"", b"1", b"ZZZ"]
    seen, res = set(), []
    for t in out:
        if t not in seen and len(t) <= 12:
            seen.add(t)
            res.append(t)
    return res


def selection_mismatches(prog, u, fm, ordered):
    """from_mnemonic folded on the probe texts vs the rule: the first declared variant whose mnemonic the text matches
    (short or long form, any case, default-1 suffix); ordered = [(variant, mnemonic)] in declaration order"""
    from .c03 import ref_match
    bad = []
    n = 0
    for text in probe_texts([m for _, m in ordered]):
        n += 1
        exp = next((v for v, m in ordered if ref_match(m, text)), None)
        got = select(prog, u, fm, text)
        if got != {exp}:
            bad.append("%r selects %s, the rule gives %s" % (text, sorted(map(str, got)), exp))
    return bad, n


def run(R, tier):
    PW = facts.program("witness")
    PD = D.prog()
    R.configs += ["witness", "dflt"]
    prog = facts.Merged(PW, PD)
    enums = derived_enums(prog)
    R.count("derived_enums", len(enums))
    R.floor("R20.1", "derive instances (programs)", len(enums), 5)
    n_var = 0
    for u, self_ty, fm, mn, tf in enums:
        adt_path, adt = enum_adt(u, self_ty)
        label = self_ty.split("::")[-1]
        if adt is None or mn is None or tf is None:
            R.anchor_lost("R20.1", "expansion of derive(ScpiEnum) for %s" % self_ty)
            continue
        variants = {v["name"]: (int(v["discr"]), len(v["fields"])) for v in adt["variants"]}
        # (the iterator models let a table of (mnemonic, constructor) pairs searched with `find` read like the guard chain)
        eng = fdai.Engine(prog, u, inline=lambda n, r: False, models=dict(M.FOLD_MODELS), max_paths=400)
        # ---- from_mnemonic: guard chain ---------------------------------------------------------------
        res = eng.run(fm, [SymV("s", "s")])
        table = {}
        order_ok = True
        matcher_ok = True
        none_ok = False
        for r in res:
            calls = [e for e in r.trace if e.kind == "call" and e.name.split("::")[-1] in ("mnemonic_match", "mnemonic_compare")]
            asg = [e for e in r.trace if e.kind == "assume" and e.name == "sym" and isinstance(e.args[0][2], tuple) and e.args[0][2][0] == "ret" and e.args[0][2][1].split("::")[-1] in ("mnemonic_match", "mnemonic_compare")]
            for c in calls:
                if not (c.rname in MATCHERS or c.name in MATCHERS or c.name == "scpi::parser::mnemonic_match" or (c.rname.startswith("scpi::parser::") and c.rname.endswith("::mnemonic_match"))):
                    matcher_ok = False
                if c.name.split("::")[-1] != "mnemonic_match":
                    matcher_ok = False
                if ("sym", "s", "s") not in _flat(c.args[1]):
                    matcher_ok = False
            lits = [C_bytes(c.args[0]) for c in calls]
            trues = [i for i, a in enumerate(asg) if a.args[1] is True]
            v = r.retval
            if not trues:
                none_ok = none_ok or (isinstance(v, EnumV) and v.name == "None" and len(asg) == len(calls))
                continue
            if len(trues) != 1 or trues[0] != len(asg) - 1:
                order_ok = False
                continue
            lit = lits[trues[0]]
            var = v.fields[0].name if isinstance(v, EnumV) and v.name == "Some" and isinstance(v.fields.get(0), EnumV) else None
            table.setdefault(lit, set()).add(var)
        # ---- mnemonic(): variant -> literal -------------------------------------------------------------------
        back = {}
        for vn, (d, nf) in variants.items():
            rr = eng.run(mn, [RefV(Cell(EnumV(adt_path, vn, d, {i: TOP for i in range(nf)}), "self"))])
            lit = None
            if len(rr) == 1 and rr[0].outcome == "return":
                lit = M._bytes_of(eng, rr[0], rr[0].retval)
            back[vn] = lit
        fwd = {lit: next(iter(vs)) for lit, vs in table.items() if len(vs) == 1}
        inverse = all(back.get(var) == lit for lit, var in fwd.items()) and all(fwd.get(lit) == var for var, lit in back.items())
        R.check(matcher_ok, "R20.3", "%s:matcher" % label, "every guard is scpi's mnemonic_match(literal, datum) (short/long form + default-1 suffix rule)", "the derive for %s does not compare with scpi::parser::mnemonic_match(literal, datum) in every arm" % label, where=fm.span)
        R.check(order_ok and none_ok and len(fwd) == len(table) == len(variants) and inverse, "R20.1", "%s:tables" % label,
                "from_mnemonic: %d first-match guards %s; mnemonic() is the inverse table; no match -> None" % (len(fwd), {k.decode(): v for k, v in fwd.items()}),
                "derive tables of %s are inconsistent: from_mnemonic %s, mnemonic() %s" % (label, {(k or b'?').decode(): sorted(map(str, v)) for k, v in table.items()}, {k: (v or b'?').decode() for k, v in back.items()}), where=fm.span)
        # ---- R20.5 selection table: from_mnemonic folded on texts around every mnemonic ------------------------------------
        if all(back.get(vn) for vn in variants):
            ordered = [(vn, back[vn]) for vn, _ in sorted(variants.items(), key=lambda kv: kv[1][0])]
            badsel, nsel = selection_mismatches(prog, u, fm, ordered)
            R.check(not badsel, "R20.5", "%s:selection" % label, "a datum selects the first declared variant whose mnemonic it matches (short/long form, any case, default-1 suffix) and nothing else (%d texts)" % nsel, "; ".join(badsel[:4]), where=fm.span)
        # ---- R20.2 TryFrom<Token> row ---------------------------------------------------------------------------------
        engc = CV.engine("dflt", "scpi")
        # helpers of scpi::option shared by all generated impls (an ordinary generic function the macro calls) are analysed
        # in place; from_mnemonic stays an event, whose Self type must be this enum
        from . import dispatch as D_
        _opt = D_.inline_inherent(("scpi::option::",))
        engc = fdai.Engine(prog, u, inline=lambda n, r: _opt(n, r), models={})
        rowbad = {}
        for name in M.DATA:
            rr = engc.run(tf, [M.token(engc, name)])
            oc = {M.outcome(r) for r in rr}
            if name == "CharacterProgramData":
                def own(e):
                    g = " ".join(str(x) for x in ((e.extra or {}).get("gargs") or ())) + " " + str((e.extra or {}).get("self_ty") or "") + " " + str(e.rname)
                    return adt_path.split("::")[-1] in g or "Self" in g
                calls_ok = all(any(e.kind == "call" and e.name.endswith("from_mnemonic") and CB_.holds(e.args[0], "tok-CharacterProgramData-0") and own(e) for e in r.trace) for r in rr)
                if not (oc == {"Ok", "Err(IllegalParameterValue)"} and calls_ok):
                    rowbad[name] = sorted(oc)
            elif oc != {"Err(DataTypeError)"}:
                rowbad[name] = sorted(oc)
        R.check(not rowbad, "R20.2", "%s:token-row" % label, "character data -> from_mnemonic (Ok / -224); every other element type -> -104", "Token conversion of %s wrong for %s" % (label, rowbad), where=tf.span)
        # ---- R20.4 response text re-selects the variant (constant folding on the mnemonic constants) ----------------------
        for vn, (d, nf) in sorted(variants.items()):
            n_var += 1
            try:
                texts = response_text(prog, u, adt_path, vn, d, nf)
            except fdai.TooManyPaths as ex:
                texts = {"<%s>" % ex}
            key = "%s::%s" % (label, vn)
            if len(texts) != 1 or not isinstance(next(iter(texts)), bytes):
                R.violation("R20.4", key + ":text", "cannot determine the response text of %s (%s): %s" % (key, back.get(vn), sorted(map(str, texts))))
                continue
            text = next(iter(texts))
            sel = select(prog, u, fm, text)
            R.check(sel == {vn}, "R20.4", key + ":round-trip", "emitted %r selects %s" % (text.decode("latin1"), vn), "variant %s (mnemonic %r) is written as %r, which selects %s when sent back" % (key, (back.get(vn) or b"?").decode("latin1"), text.decode("latin1"), sorted(map(str, sel))), where=fm.span)
            R.sample({"rule": "R20.4", "enum": label, "variant": vn, "mnemonic": (back.get(vn) or b"").decode("latin1"), "emitted": text.decode("latin1")})
    R.count("variants_round_tripped", n_var)
    R.floor("R20.4", "variants", n_var, 19)

    # ---- R20.6 typed echo tables: a derived enum as parameter and answer, end to end -------------------------------------------------
    from . import echotable as ET
    ET.check(R, "R20.6", "enums", tier, "`*MODE? <mnemonic>` through Node::run on the echo witness (derive(ScpiEnum) on a five-variant enum with suffixed siblings): short / long form in any case, the default-1 suffix rule, leading-zero and foreign suffixes, partial long forms, one letter more or less - the answer is the selected variant's own mnemonic or -224; other element types -104", 90)

def _flat(t):
    out = []
    if isinstance(t, tuple):
        out.append(t)
        for x in t:
            out.extend(_flat(x))
    return out
