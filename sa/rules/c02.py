"""C02 - compound-command header paths resolve to exactly the SCPI-designated handler."""
from .. import facts, fdai, scpi_models as M
from . import dispatch as D

LEVEL = "other"
TECHNIQUE = "finite-domain abstract interpretation (FDAI) of Node::exec / Node::run_tokens, helpers analysed in place: exec on a branch is interpreted with `sub` bound to every list of up to two abstract children (kind x default flag x 'name matches') and on a leaf over all token classes; run_tokens over header/terminator classes with a common and a plain representative mnemonic (the `*` test is folded); results (handler form, consumed tokens, recursion receiver, path-cell content, error code) compared with the SCPI-99 6.2.4 / IEEE 488.2 7.6 compound-header rules; Token::match_program_header folded on definition/candidate pairs; lexer typestate rows for `;` and `:`; hidden-state census; whole-message tables (sa/rules/msgtable.py): Node::run folded end to end on concrete messages against a concrete tree with the real tokenizer, dispatcher, Parameters, ResponseUnit and formatter impl analysed in place and scripted handlers, compared with a reference execution written from SCPI-99 6.2.4 / IEEE 488.2 7-8 - every spelling of every header alone and in two- / three-unit messages (level left behind, absolute / relative / common headers, white space in front of headers); the node values that `Leaf!` / `Branch!` / `Root!` and the `const fn` constructors build, evaluated from a witness crate's constants (R02.11)"
LEVEL_TEXT = "Decision tables computed from the MIR and compared with the compound-header rules: for a branch, every child list up to length two (73 lists) x six header contexts gives the recursion target, what is consumed and what the path cell holds; for a leaf and for run_tokens every token class (pairs where a second look-ahead matters). This decides 'which level a unit resolves from', 'event vs query', 'common commands do not move the level', 'default nodes may be omitted', 'first matching child wins', '-113 without a handler call', 'no state survives a message'. The tables do not depend on how the search is written (loop, Iterator::find, helper functions)."
LEVEL_NOTE = "Not decided: trees other than the enumerated one beyond what the per-step tables generalise to; trees violating the documented constraints (two defaults in one branch); mnemonic comparison itself (C03)."

HANDLER_EVENT = "Command::event"
HANDLER_QUERY = "Command::query"
HDR_END = ["ProgramHeaderSeparator", "ProgramMessageUnitSeparator", M.END]


def run(R, tier):
    R.configs.append("dflt")
    rows = D.exec_table()
    eng = D._CACHE["exec_eng"]
    R.count("exec_table_rows", len(rows))
    R.count("exec_paths", sum(len(v) for v in rows.values()))

    def all_paths(kind, first, second=None):
        return rows[(kind, first, second)]

    # ---- R02.5 leaf table ----------------------------------------------------------------------
    for first in M.NONDATA + M.DATA + ["ERR", M.END]:
        if first == "HeaderQuerySuffix":
            continue
        ps = all_paths("Leaf", first)
        key = "leaf[%s]" % first
        desc = "; ".join(p.describe() for p in ps)
        if first in HDR_END:
            ok = len(ps) >= 1 and all(p.outcome == "ret:event" and p.call_names.count("scpi::tree::command::Command::event") == 1 and not p.has_call(HANDLER_QUERY) and not p.has_call("response_unit") and not p.has_call("Node::exec") and set(p.consumed) <= {"ProgramHeaderSeparator"} and (p.consumed == ["ProgramHeaderSeparator"]) == (first == "ProgramHeaderSeparator") for p in ps)
            R.check(ok, "R02.5", key, "event form: Command::event in tail position, only the header separator consumed", "leaf at %s must run the event form once (tail call), consume only a header separator and not touch the response: %s" % (first, desc))
        elif first in ("HeaderMnemonicSeparator", "ProgramMnemonic"):
            ok = len(ps) >= 1 and all(p.outcome == "Err(UndefinedHeader)" and not p.calls and not p.consumed for p in ps)
            R.check(ok, "R02.5", key, "-113 Undefined header, no handler, nothing consumed", "a header continuing below a leaf must fail with -113 without invoking a handler: %s" % desc)
        elif first == "ERR":
            ok = len(ps) >= 1 and all(p.outcome == "Err(<lexer-error>)" and not p.has_call(HANDLER_EVENT) and not p.has_call(HANDLER_QUERY) for p in ps)
            R.check(ok, "R02.5", key, "lexer error propagated, no handler", "a lexical error after the header must be returned as is, without a handler call: %s" % desc)
        else:
            ok = len(ps) >= 1 and all(p.outcome.startswith("Err(") and not p.has_call(HANDLER_EVENT) and not p.has_call(HANDLER_QUERY) and not p.consumed for p in ps)
            R.check(ok, "R02.5", key, "error, no handler", "unexpected element after a leaf header must be an error without a handler call: %s" % desc)
    for second in ["ProgramHeaderSeparator", "ProgramMessageUnitSeparator", M.END, "CharacterProgramData"]:
        ps = all_paths("Leaf", "HeaderQuerySuffix", second)
        key = "leaf[?,%s]" % second
        desc = "; ".join(p.describe() for p in ps)
        good = True
        nq = 0
        for p in ps:
            exp_cons = ["HeaderQuerySuffix"] + (["ProgramHeaderSeparator"] if second == "ProgramHeaderSeparator" else [])
            if p.consumed != exp_cons or p.has_call(HANDLER_EVENT) or p.has_call("Node::exec"):
                good = False
            ru = p.index_of("Formatter::response_unit")
            q = p.index_of(HANDLER_QUERY)
            if ru is None or p.call_names.count("scpi::parser::response::Formatter::response_unit") != 1:
                good = False
            if q is not None:
                nq += 1
                if not (ru is not None and ru < q and p.outcome == "ret:query" and p.call_names.count("scpi::tree::command::Command::query") == 1):
                    good = False
            else:
                if not p.outcome.startswith("Err("):
                    good = False
        R.check(good and nq >= 1, "R02.5", key, "query form: `?` (and header separator) consumed, response_unit once before Command::query (tail)", "leaf at `?` must consume it, open exactly one response unit and run the query form: %s" % desc)

    # ---- R02.6 branch table -------------------------------------------------------------------------
    # Node::exec on a branch is analysed with `sub` bound to every list of up to two abstract children
    # (kind x default flag x "its name matches the mnemonic"), so that the table does not depend on how the search
    # is written (for loop, Iterator::find, helper functions). Expected target per SCPI-99 6.2.4 / 5.1:
    #   header ends here  -> first default leaf, else first default branch, else -113; nothing consumed, cell untouched
    #   another mnemonic   -> cell := this branch; first child whose name matches (mnemonic consumed), else first
    #                         default branch (mnemonic not consumed), else -113
    def expected(children, descend):
        if descend:
            for i, (k, d, m) in enumerate(children):
                if m:
                    return i, True
            for i, (k, d, m) in enumerate(children):
                if k == "Branch" and d:
                    return i, False
            return None, False
        for i, (k, d, m) in enumerate(children):
            if k == "Leaf" and d:
                return i, False
        for i, (k, d, m) in enumerate(children):
            if k == "Branch" and d:
                return i, False
        return None, False

    lists = D.child_lists(3 if tier == "thorough" else 2)   # 73 lists quick, 585 thorough
    n_rows = 0
    for ctx, stream, descend in (("ProgramHeaderSeparator", ["ProgramHeaderSeparator"], False), ("ProgramMessageUnitSeparator", ["ProgramMessageUnitSeparator"], False), ("HeaderQuerySuffix", ["HeaderQuerySuffix"], False), (M.END, [M.END], False),
                                 ("ProgramMnemonic", ["ProgramMnemonic"], True), ("HeaderMnemonicSeparator,ProgramMnemonic", ["HeaderMnemonicSeparator", "ProgramMnemonic"], True)):
        bad = []
        pre = ["HeaderMnemonicSeparator"] if stream[0] == "HeaderMnemonicSeparator" else []
        for kids in lists:
            ps = D.exec_children(kids, stream)
            n_rows += 1
            tgt, consume = expected(kids, descend)
            label = "[%s]" % ",".join("%s%s%s" % (k[0], "d" if d else "-", "m" if m else "-") for k, d, m in kids)
            if len(ps) != 1:
                bad.append("%s: %d paths (%s)" % (label, len(ps), "; ".join(p.describe() for p in ps[:3])))
                continue
            p = ps[0]
            execs = [e for e in p.calls if e.name.endswith("Node::exec")]
            ok = not p.has_call(HANDLER_EVENT) and not p.has_call(HANDLER_QUERY)
            ok = ok and leaf_state(p) == ("self" if descend else "unchanged")
            if not descend:
                ok = ok and not p.has_call("match_program_header")
            if tgt is None:
                ok = ok and p.outcome == "Err(UndefinedHeader)" and not execs and p.consumed == pre
            else:
                ok = ok and len(execs) == 1 and p.outcome == "ret:exec" and p.consumed == pre + (["ProgramMnemonic"] if consume else [])
                if ok:
                    e = execs[0]
                    a0, a1 = e.args[0], e.args[1]
                    ok = isinstance(a0, tuple) and a0[0] == "ref" and a0[1] == "child%d" % tgt
                    ok = ok and isinstance(a1, tuple) and a1[0] == "ref" and a1[1] == "leafcell"
                    ok = ok and e.args[4][0] == "ref" and e.args[4][1] == "tokens" and e.args[5][0] == "ref" and e.args[5][1] == "response"
            if not ok:
                bad.append("children %s: expected %s, got %s (consumed %s, path cell %s)" % (label, ("recursion into child %d%s" % (tgt, ", mnemonic consumed" if consume else "")) if tgt is not None else "-113 Undefined header", p.describe(), p.consumed, leaf_state(p)))
        R.check(not bad, "R02.6", "branch[%s]" % ctx,
                ("descend: path cell := this branch; first child whose name matches consumes the mnemonic and recurses; else first default branch (not consuming); else -113" if descend else "header ends on a branch: first default leaf, else first default branch, else -113; nothing consumed, path cell untouched") + " - over %d child lists" % len(lists),
                "; ".join(bad[:4]))
    R.count("exec_children_rows", n_rows)

    for second in M.NONDATA + ["CharacterProgramData", "ERR", M.END]:
        if second == "ProgramMnemonic":
            continue
        ps = all_paths("Branch", "HeaderMnemonicSeparator", second)
        desc = "; ".join(p.describe() for p in ps)
        if second == "ERR":
            ok = ps and all(p.outcome == "Err(<lexer-error>)" and not p.calls for p in ps)
        else:
            ok = ps and all(p.outcome.startswith("Err(") and not p.calls for p in ps)
        R.check(ok, "R02.6", "branch[:,%s]" % second, "`:` not followed by a mnemonic is an error, no handler", "`:` must be followed by a mnemonic: %s" % desc)
    for first in ["ProgramDataSeparator"] + M.DATA + ["ERR"]:
        ps = all_paths("Branch", first)
        desc = "; ".join(p.describe() for p in ps)
        ok = ps and all(p.outcome.startswith("Err(") and not p.calls and not p.consumed for p in ps)
        if first == "ERR":
            ok = ok and all(p.outcome == "Err(<lexer-error>)" for p in ps)
        R.check(ok, "R02.6", "branch[%s]" % first, "error, no handler, nothing consumed", "unexpected element at a branch must be an error: %s" % desc)

    # ---- R02.1-4 path variable discipline in run_tokens --------------------------------------------
    rt = D.run_tokens_table()
    R.count("run_tokens_rows", len(rt))
    R.count("run_tokens_paths", sum(len(v) for v in rt.values()))

    def execs_of(p):
        return [e for e in p.calls if e.name.endswith("Node::exec")]

    # first unit
    n_abs = n_star = n_rel = 0
    for post in [M.END, "ProgramMessageUnitSeparator"]:
        for p in rt[("HeaderMnemonicSeparator", post)]:
            ex = execs_of(p)
            if not ex:
                continue
            e = ex[0].extra
            n_abs += 1
            R.check(e["recv"] == "self" and e["leafcell"] != "?" and e["leaf_before"] == "self" and p.consumed[:1] == ["HeaderMnemonicSeparator"] and e["stream_passed"] and e["response_passed"],
                    "R02.2", "first-unit[:]@%s" % post, "leading `:` is consumed and the unit resolves from the root with the path cell reset to the root",
                    "a unit with a leading colon must resolve from the root with the path cell reset: %s" % (e,))
        for p in rt[("ProgramMnemonic", post)]:
            ex = execs_of(p)
            if not ex:
                continue
            e = ex[0].extra
            star = D.star_assumption(p, 1)
            if star is True:
                n_star += 1
                R.check(e["recv"] == "self" and e["leafcell"] not in ("?",), "R02.3", "first-unit[*]@%s" % post, "common command resolves at the root", "common command must be executed from the root: %s" % (e,))
            elif star is False:
                n_rel += 1
                R.check(e["recv"] == "self" and e["leaf_before"] == "self", "R02.1", "first-unit[rel]@%s" % post, "first unit resolves from the root (path cell initialised to the root)", "the first unit of a message must resolve from the root: %s" % (e,))
            else:
                R.violation("R02.3", "first-unit[?]@%s" % post, "cannot tell the common-command arm: the test is not `starts_with(mnemonic, b\"*\")`: %s" % p.describe())
    # the starts_with needle is b"*" and its subject is the peeked mnemonic
    for p in rt[("ProgramMnemonic", M.END)]:
        sw = [e for e in p.calls if e.name.endswith("starts_with")]
        if not sw:
            continue
        ok = len(sw) == 1 and "ProgramMnemonic" in repr(sw[0].args[0]) and ("bytes", b"*") in _flatten(sw[0].args[1])
        R.check(ok, "R02.3", "common-test", "common commands are recognised by a leading `*` of the peeked mnemonic", "common-command test must be starts_with(<peeked mnemonic>, b\"*\"): %s" % (sw,))
        break
    # second unit: relative / absolute / common
    for h1 in ("HeaderMnemonicSeparator", "ProgramMnemonic"):
        for h2 in ("HeaderMnemonicSeparator", "ProgramMnemonic"):
            for p in rt[(h1, "ProgramMessageUnitSeparator", h2, M.END)]:
                ex = execs_of(p)
                if len(ex) < 2:
                    continue
                e1, e2 = ex[0].extra, ex[1].extra
                # which cell is "the" path cell: the one passed by a relative/absolute unit
                if h1 == "ProgramMnemonic" and D.star_assumption(p, 1) is True:
                    first_common = True
                else:
                    first_common = False
                moved = "sym:moved1"
                key = "second-unit[%s%s;%s]" % (h1[:6], "*" if first_common else "", h2[:6])
                if h2 == "HeaderMnemonicSeparator":
                    R.check(e2["recv"] == "self" and e2["leaf_before"] == "self", "R02.2", key, "`:` after `;` resets the path cell to the root", "a unit with a leading colon must resolve from the root whatever preceded it: %s" % (e2,))
                else:
                    nth = 2 if h1 == "ProgramMnemonic" else 1
                    star2 = D.star_assumption(p, nth)
                    if star2 is True:
                        n_star += 1
                        # the cell handed to a common command is not the path cell
                        same_cell = e2["leafcell"] == e1["leafcell"] and not first_common
                        R.check(e2["recv"] == "self" and not same_cell, "R02.3", key + "*", "common command: root receiver and a throw-away path cell", "a common command must resolve at the root and must not be given the path cell (it would move the level): %s" % (e2,))
                    elif star2 is False:
                        n_rel += 1
                        if first_common:
                            # level not moved by the common command: still the root
                            R.check(e2["recv"] == "self" and e2["leaf_before"] == "self", "R02.3", key, "the level is unchanged by a preceding common command", "a common command moved the tree level used by the next relative unit: %s" % (e2,))
                        else:
                            R.check(e2["recv"] == moved and e2["leaf_before"] == moved and e2["leafcell"] == e1["leafcell"], "R02.4", key, "relative unit resolves from the level the previous unit left in the path cell", "a relative unit must resolve from the previous unit's level: %s" % (e2,))
    R.floor("R02.2", "absolute units analysed", n_abs, 1)
    R.floor("R02.3", "common-command units analysed", n_star, 2)
    R.floor("R02.4", "relative units analysed", n_rel, 2)

    # ---- R02.7 no hidden state ---------------------------------------------------------------------------
    P = D.prog()
    u = P.unit("scpi")
    bad = []
    n_st = 0
    for path, c in u.consts.items():
        if c["kind"].startswith("Static"):
            n_st += 1
            if c.get("static_mut") or not c.get("freeze", True):
                bad.append(path)
    tl = [b.npath for b in u.bodies for m in b.all_mirs() for bi in m.live_blocks() for st in m.blocks[bi]["stmts"] if st["k"] == "assign" and st["rv"]["k"] == "threadlocal"]
    R.check(not bad and not tl, "R02.7", "no-hidden-state", "no static mut, interior-mutable static or thread_local in crate scpi (%d immutable statics)" % n_st, "mutable global state found: %s %s - path state could survive a message" % (bad, tl))
    node = u.adts.get("scpi::tree::Node")
    if node is None:
        R.anchor_lost("R02.7", "ADT scpi::tree::Node")
    else:
        tys = [f["ty"] for v in node["variants"] for f in v["fields"]]
        R.check(not any("&mut" in t or "Cell" in t for t in tys), "R02.7", "node-immutable", "Node holds only shared references: %s" % tys, "Node contains mutable state: %s" % tys)
    # ---- R02.8 routing --------------------------------------------------------------------------------------
    # which child a header selects is decided by Token::match_program_header: it must apply the full mnemonic rule to
    # header mnemonics (table shared with C03, where the rule itself is decided)
    from . import c03
    c03.header_match_table(R, "R02.8")
    # ---- R02.9 lexer typestate between units -----------------------------------------------------------------------
    from . import lexer as LX
    LX.check_unit_separator_typestate(R, "R02.9")
    # header mnemonics of every legal length (up to 12 characters, `*` included) reach the tree as one element
    LX.check_elements(R, "R02.9", ("mnemonic",), tier == "thorough")
    # ---- R02.11 the tree the macros and the `const fn` constructors build ------------------------------------------------------------
    # The branch tables above quantify over trees given as node values; users write those values with `Leaf!`, `Branch!`, `Root!`
    # or `Node::leaf` ... `Node::root`. A witness crate (witness/echo) declares one tree with every macro form and the same tree
    # with the constructors; both constants are evaluated from the witness crate's MIR and must be the documented structure:
    # names and default flags as written, children in order, and `Branch!(name => handler; ..)` = the branch with its handler
    # in a default leaf with an EMPTY name in front of the children (a named one would answer to `name:name` - seed C02-M).
    macro_trees(R)

    # ---- R02.10 whole messages: the composition of the per-step tables, folded end to end --------------------------------------------
    from . import msgtable as MT
    MT.check(R, "R02.10", "resolve", tier, "Node::run on whole messages against a concrete tree (default leaves and branches at several depths and positions, numeric suffixes, an unnamed default leaf, common commands) with the real tokenizer, dispatcher and matcher analysed in place: every spelling of every header (optional nodes omitted or spelled, short / long form) runs its own handler in the form `?` selects, and in two- and three-unit messages every relative, absolute and common header resolves - or fails with -113 - as SCPI-99 6.2.4 says from the level the previous unit left", 300)
    R.trust("IEEE 488.2 7.6 / SCPI-99 6.2.4 compound header rules as encoded in the expected tables of sa/rules/c02.py")


def leaf_state(p):
    """State of the path cell when the recursion is entered (or at return when there is none)."""
    for e in p.calls:
        if e.name.endswith("Node::exec"):
            a1 = e.args[1]
            if isinstance(a1, tuple) and a1[0] == "ref" and a1[1] == "leafcell":
                v = a1[3]
                if v[0] == "sym" and v[1] == "oldleaf":
                    return "unchanged"
                if v[0] == "ref" and v[1] == "self":
                    return "self"
                return "other:%r" % (v,)
            return "not-passed"
    return p.leaf_after


def _flatten(t):
    out = []
    if isinstance(t, tuple):
        out.append(t)
        for x in t:
            out.extend(_flatten(x))
    return out


def _tree_shape(eng, v, depth=0):
    """(kind, name, default, handler type | [children]) of an evaluated Node value"""
    from . import msgtable as MT
    v = eng.resolve(fdai.State(), v) if not isinstance(v, fdai.EnumV) else v
    hops = 0
    while isinstance(v, fdai.RefV) and hops < 4:
        v = fdai.load(fdai.Loc(v.cell, v.path))
        hops += 1
    if not (isinstance(v, fdai.EnumV) and v.name in ("Leaf", "Branch")) or depth > 6:
        return ("?", repr(v)[:60])
    f = MT._node_fields(MT.engine(), v.name)      # (field indices from the declaration of Node in the scpi crate)

    def deref(x):
        n = 0
        while isinstance(x, fdai.RefV) and n < 4:
            x = fdai.load(fdai.Loc(x.cell, x.path))
            n += 1
        return x
    nm = deref(v.fields.get(f["name"]))
    name = bytes(nm.b) if isinstance(nm, fdai.BytesV) else None
    d = v.fields.get(f["default"])
    default = d.v if isinstance(d, fdai.K) else None
    if v.name == "Leaf":
        h = deref(v.fields.get(f["handler"]))
        hk = h.kind if isinstance(h, fdai.AggV) else repr(h)[:40]
        return ("L", name, default, hk.split("::")[-1].replace("new:", "").split("<")[0])
    sub = deref(v.fields.get(f["sub"]))
    if isinstance(sub, fdai.ListV):
        kids = [c.v for c in sub.cells]
    elif isinstance(sub, fdai.AggV) and sub.kind == "array":
        kids = [sub.fields[i] for i in sorted(sub.fields)]
    else:
        return ("B", name, default, "?%r" % (sub,))
    return ("B", name, default, [_tree_shape(eng, k, depth + 1) for k in kids])


def macro_trees(R):
    P = facts.Merged(facts.program("dflt"), facts.program("witness"))      # the library's constructors + the witness crate
    R.configs.append("witness")
    u = P.unit("witness_echo")
    eng = fdai.Engine(P, u, inline=lambda n, r: True, models=dict(M.FOLD_MODELS), loop_limit=50, max_paths=8, max_depth=30)
    want = ("B", b"", False, [
        ("L", b"LEAf", False, "EchoChr"),
        ("L", b"DLEaf", True, "EchoStr"),
        ("B", b"BRANch", False, [("L", b"SUB", False, "EchoChr"), ("L", b"OTHer", False, "EchoStr")]),
        ("B", b"HBRanch", False, [("L", b"", True, "EchoArb"), ("L", b"SUB", False, "EchoChr")]),
        ("B", b"DBRanch", True, [("L", b"SUB", True, "EchoChr")]),
    ])
    n = 0
    for cname, what in (("MACRO_TREE", "Root! / Leaf! / Branch! in each of their forms"), ("CTOR_TREE", "Node::root / leaf / default_leaf / branch / default_branch")):
        bs = [b for b in u.bodies if b.path.endswith("::" + cname)]
        if len(bs) != 1:
            R.anchor_lost("R02.11", "const %s in the witness crate" % cname)
            continue
        try:
            res = eng.run(bs[0], [])
        except (fdai.TooManyPaths, RecursionError):
            res = []
        got = _tree_shape(eng, res[0].retval) if len(res) == 1 and res[0].outcome == "return" else ("undecided", len(res))
        n += 1
        R.check(got == want, "R02.11", cname, "%s build the documented nodes (names, default flags, children in order; a branch's own handler is a default leaf with an empty name in front)" % what,
                "%s evaluates to %s, expected %s" % (cname, got, want), where=bs[0].span)
    R.floor("R02.11", "tree constants", n, 2)
