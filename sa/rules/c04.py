"""C04 - lexing is faithful: element boundaries and types follow IEEE 488.2 section 7 (structural clauses)."""
from .. import facts, fdai, scpi_models as M, sym, cfg
from ..fdai import EnumV, AggV, K, SymV, RefV, Cell, Loc, TOP, load, snapshot
from . import dispatch as D, contrib as CB, lexer as LX, convert as CV

LEVEL = "other"
TECHNIQUE = 'FDAI dispatch table of Tokenizer::next over (class of first byte, class of second byte or end, lexer state) compared with the IEEE 488.2 section 7 dispatch rules (result, bytes consumed, state afterwards); the lexer states are not named by field: they are explored from the constructors of the library along the transitions of the lexer itself, each paired with the section 7 state of its history (product exploration); whole-element tables: Tokenizer::next folded, with every tokenizer function analysed in place, on representative complete elements of every kind (mnemonics, character data, decimal numbers with suffixes, strings, expressions, definite/indefinite blocks, non-decimal numbers, the data separator followed by each kind) and compared with a reference lexer written from 488.2 section 7 - token kind, payload bytes and bytes consumed; the 12-character limits and the separator-after-datum rule are named rows of those tables; non-ASCII rejection sites; block-length dataflow; radix table; thorough tier: every text over a small alphabet of the distinguished bytes up to a length bound (about 9200 inputs); whole-message tables (sa/rules/msgtable.py): Tokenizer::new and next() to the end folded end to end on concrete messages, compared with the element sequence the message was rendered from - about 690 complete well-formed messages (every data kind, separators with and without white space, white space in front of the first header)'
LEVEL_TEXT = 'The per-element dispatch of the lexer is a finite function of the byte classes it distinguishes and its bookkeeping state; it is enumerated completely over every bookkeeping state reachable from the constructors (about 3700 rows) and compared row by row with the section 7 rules the statement names (`:` only inside a non-common header before a letter, `?` only in a header before white space/`;`/end, `,` only right after a data element, NL only as last byte, data only outside the header, ...). Element boundaries, payloads, the length limits and the separator-after-datum rule are decided by folding the lexer on representative elements and comparing with the reference lexer.'
LEVEL_NOTE = "Not decided: elements beyond the enumerated representatives (uniformity of the readers' per-byte loops); the numeric value of decimal data (C07/C08). Trusted: rustc MIR, FDAI byte-cursor models, lexical-core's integer parsers by contract."

TK = "scpi::parser::tokenizer::Tokenizer::"
WS = LX.WS
expect = LX.expect   # IEEE 488.2 section 7 dispatch (sa/rules/lexer.py)


def run(R, tier):
    R.configs.append("dflt")
    P = D.prog()
    u = P.unit("scpi")

    # ---- R04.7 dispatch table -------------------------------------------------------------------------
    # The lexer's bookkeeping is never named here: the table runs over every bookkeeping state the lexer reaches from its
    # own constructors, each paired with the section 7 state (header? common? datum just read?) of the history that led
    # to it (sa/rules/lexer.py: tokenizer_states). That the bookkeeping is updated as section 7 says is part of that
    # exploration: the state a row leaves behind is explored under the section 7 state `expect` gives for it, so a wrong
    # update shows as a wrong result in the rows of the successor state.
    rows, classes, consts, pairs = LX.next_table()
    R.count("lexer_rows", len(rows))
    R.count("lexer_states", len(pairs))
    R.count("byte_classes", len(classes))
    bad = {}
    groups = {}
    for r in rows:
        groups.setdefault((r.n1, r.b1, r.n2, r.b2, r.in_header, r.in_common, r.after_data, r.sid), []).append(r)
    for key, rs in groups.items():
        n1, b1, n2, b2, h, c, a, sid = key
        exp_res, exp_next, exp_pos = expect(b1, b2, h, c, a)
        for r in rs:
            got = r.result
            ok = got == exp_res
            if not ok and exp_res == "reader:read_nondecimal_data" and got == "Err(NumericDataError)" and chr(b2) not in "HhQqBb":
                ok = True          # `#` + a byte that is no radix letter: refused by the reader or, just as well, before it
            if ok and exp_res.startswith("reader:") and got.startswith("reader:"):
                nm, args = r.reader
                if nm == "read_mnemonic":
                    ok = ok and args[0] == ("K", b1 == ord("*"))
                if nm == "read_arbitrary_data" or (nm == "read_nondecimal_data" and args):
                    # (a reader that is told the radix some other way - a const parameter - is decided by the element rows
                    # `#H10` / `#Q10` / `#B10` of R04.6 and R09.8)
                    ok = ok and args[0] == ("K", b2)
                if nm == "read_string_data":
                    ok = ok and args[0] == ("K", b1) and args[1] == ("K", True)
            elif ok:
                if exp_pos is not None:
                    ok = ok and r.final.get("pos") == exp_pos
                if exp_res.startswith("Ok("):
                    ok = ok and r.final_state is not None   # (a definite state, explored as the successor)
            if not ok:
                bad.setdefault((n1, exp_res), []).append("%s second=%s hdr=%d com=%d aft=%d -> %s pos=%s" % (n1, n2, h, c, a, got, r.final.get("pos")))
    for (n1, exp_res), items in sorted(bad.items()):
        R.violation("R04.7", "dispatch[%s->%s]" % (n1, exp_res), "lexer dispatch differs from IEEE 488.2 section 7 for %d abstract state(s), e.g. %s" % (len(items), items[:2]))
    firsts = sorted({r.n1 for r in rows})
    for n1 in firsts:
        if not any(k[0] == n1 for k in bad):
            R.ok("R04.7", "dispatch[%s]" % n1, "all states with first byte class %s follow the section 7 dispatch" % n1)
    R.floor("R04.7", "lexer dispatch rows", len(rows), 2500)
    labels = {lab for _, lab in pairs}
    need = {(True, False, False), (True, True, False), (False, False, False), (False, False, True), (False, True, False), (False, True, True)}
    R.check(need <= labels, "R04.7", "states", "the exploration reaches every section 7 state of a message (%d bookkeeping states)" % len(pairs), "section 7 states never reached from the constructors: %s" % sorted(need - labels))
    # a data separator needs a datum before it
    LX.check_separator_typestate(R, "R04.3")
    nb = LX.tokenizer_next_body(u)
    # the bookkeeping is written only by Tokenizer::next and the constructors (the readers leave it alone)
    tk_fields = LX.tokenizer_fields(u)
    writers = {}
    for b in u.bodies:
        for fld, kind, line in CB.stores_to_fields(b, set(tk_fields) - {"chars"}):
            if "parser::tokenizer" in b.npath or "tokenizer::Tokenizer" in (b.impl_self or ""):
                writers.setdefault(fld, set()).add(b.npath)
    allowed = {nb.npath, TK + "new_params", TK + "from_byte_iter", TK + "new"}
    extra = {f: sorted(w - allowed) for f, w in writers.items() if w - allowed}
    R.check(not extra and writers, "R04.7", "flag-writers", "the lexer's bookkeeping fields are written only by Tokenizer::next and the constructors (readers leave them alone)", "lexer bookkeeping written elsewhere: %s" % extra)

    # ---- R04.8 whole-element tables (sa/rules/lexer.py: element_table) -----------------------------------------------------
    LX.check_elements(R, "R04.8", ("mnemonic", "chardata", "decimal", "string", "expression", "block", "non-decimal", "separator"), tier == "thorough")
    # ---- R04.9 whole messages: the element sequence of complete well-formed messages (sa/rules/msgtable.py) ------------------
    from . import msgtable as MT
    MT.check_tokens(R, "R04.9", tier, 500)
    # ---- R04.10 single-point corruptions, end to end: whichever layer notices (lexer, dispatcher, Parameters), the message fails
    # with a command error even when the handler takes its parameters as optional
    MT.check(R, "R04.10", "corrupt", tier, "single-point corruptions of well-formed messages (dangling / doubled / leading `,`, missing separator, misplaced `:`, over-long mnemonic or suffix, unterminated string, truncated block, non-ASCII byte) run through Node::run with handlers that take every parameter as optional: each fails with a command error reported once", 90)

    # ---- R04.1 length limits / R04.2 a datum is followed by a separator: named rows of the element tables -----------------
    # (Earlier versions inspected the readers' counters and their final skip_ws_to_separator call; that demanded one
    # particular way of counting - a u8 counter - and of ending a reader, and reported behaviour-preserving rewrites:
    # a slice-length difference instead of a counter, `let .. else` with slice patterns in read_numeric_data.)
    table, span = LX.element_table(("mnemonic", "chardata", "decimal", "string", "expression", "block", "non-decimal"), tier == "thorough")
    by_kind = {k: {d: (g, e) for d, g, e in table[k]} for k in table}

    def named(rule, key, inputs, ok_text, kind=None):
        rows = by_kind[kind or key.split(":")[0]]
        missing = [d for d in inputs if d not in rows]
        bad = ["%r: lexed as %s, expected %s" % (d, rows[d][0], rows[d][1]) for d in inputs if d in rows and rows[d][0] != rows[d][1]]
        if missing:
            R.anchor_lost(rule, "element table rows %r" % missing)
        R.check(not bad and not missing, rule, key, ok_text + " (%d inputs)" % len(inputs), "; ".join(bad[:3]), where=span)

    named("R04.1", "mnemonic:limit", [b"ABCDEFGHIJKL", b"ABCDEFGHIJKLM", b"ABCDEFGHIJKL:X", b"*ABCDEFGHIJK", b"*ABCDEFGHIJKL", b"SENSE12345678"], "12 characters accepted, 13 rejected")
    named("R04.1", "chardata:limit", [b"ABCDEFGHIJKL", b"ABCDEFGHIJKLM", b"ABCDEFGHIJKL ,"], "12 characters accepted, 13 rejected")
    named("R04.1", "suffix:limit", [b"1 ABCDEFGHIJKL", b"1 ABCDEFGHIJKLM"], "12 characters accepted, 13 rejected", kind="decimal")
    named("R04.2", "string", [b'"abc"x', b'"abc" x', b'"abc" ,1', b'"abc";'], "only white space and then a separator may follow")
    named("R04.2", "expression", [b"(a)x", b"(a) ,"], "only white space and then a separator may follow")
    named("R04.2", "block", [b"#13abcd", b"#10x", b"#13abc ;", b"#10 ,5"], "only white space and then a separator may follow")
    named("R04.2", "decimal", [b"1 2", b"1V 2", b"1 V ,2", b"1 ,2", b"1.5.5"], "only white space, a suffix and then a separator may follow")
    named("R04.2", "non-decimal", [b"#HFFG", b"#Q7x", b"#HFF ,", b"#B1 ;"], "only white space and then a separator may follow")
    named("R04.2", "chardata", [b"ON x", b"max,1", b"A_1;"], "only white space and then a separator may follow")

    eng = fdai.Engine(P, u, inline=lambda n, r: False, models={}, loop_limit=2, max_paths=4000)
    # ---- R04.4 non-ASCII ------------------------------------------------------------------------------------------------
    for reader, err, args in (("read_string_data", "InvalidCharacter", [RefV(Cell(TOP, "tok"), (), True), SymV("quote", "quote"), K(True)]), ("read_expression_data", "InvalidExpression", [RefV(Cell(TOP, "tok"), (), True)])):
        b = u.body(TK + reader)
        res = eng.run(b, args)
        rej = False
        leak = False
        for r in res:
            p = CB.Path(r)
            flags = [e for e in r.trace if e.kind == "assume" and e.name == "sym" and isinstance(e.args[0][2], tuple) and e.args[0][2][0] == "ret" and e.args[0][2][1].endswith("is_ascii")]
            if any(f.args[1] is False for f in flags):
                if M.outcome(r) == "Err(%s)" % err:
                    rej = True
                elif r.outcome == "return":
                    leak = True
        R.check(rej and not leak, "R04.4", reader + ":non-ascii", "a non-ASCII byte is rejected with %s" % err, "%s lets a non-ASCII byte through (or reports the wrong error)" % reader, where=b.span)
    b = u.body(TK + "read_arbitrary_data")
    R.check(not any(c.name.endswith("is_ascii") for c in b.calls()), "R04.4", "read_arbitrary_data:8-bit", "block payload is not restricted to ASCII", "block data must be 8-bit clean", where=b.span)

    # R04.5 (a dataflow rule that looked for `chars[0..n]` with n parsed from the header's digits) was retired: it recognised one
    # way of writing the reader and reported behaviour-preserving rewrites with split_at / sub-slices (round-5 refactorings);
    # the block rows of the whole-element tables (R04.8: #0 / #1n / #2nn forms, exact, short and long payloads, stray bytes)
    # decide the same clause by value.

    # ---- R04.6 radix table and exact values (shared with C09/R09.8): named rows of the element tables -------------------------
    # (Earlier this rule read the radix from the generic arguments of a lexical-core call; the reader now scans and
    # accumulates the digits itself - fix F15/F16 - and is decided by value like the other elements.)
    named("R04.6", "radix-letters", [b"#H10", b"#h10", b"#Q10", b"#q10", b"#B10", b"#b10", b"#X10", b"#Z10"], "#H/#h -> 16, #Q/#q -> 8, #B/#b -> 2, any other letter is an error", kind="non-decimal")
    named("R04.6", "non-decimal:value", [b"#HFF", b"#hff", b"#Q17", b"#B101", b"#HFFFFFFFFFFFFFFFF", b"#H10000000000000000", b"#Q1777777777777777777777", b"#Q2000000000000000000000", b"#Q3000000000000000000000", b"#Q7777777777777777777777",
                                         b"#B" + b"1" * 64, b"#B" + b"1" * 65, b"#H+2A", b"#Q+17", b"#B-1", b"#H", b"#HG"], "digits only; the exact value up to 2^64-1, beyond that an error", kind="non-decimal")
