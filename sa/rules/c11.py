"""C11 - fixed-capacity, allocation-free operation: overflow is an error, never a panic."""
import hashlib, json
from .. import facts, fdai, scpi_models as M, sym
from ..fdai import EnumV, AggV, K, SymV, RefV, Cell, Loc, TOP, load, snapshot
from . import dispatch as D, contrib as CB

LEVEL = "other"
TECHNIQUE = "op table of the ArrayVec formatter (only non-panicking try_* container calls, every failure mapped to -225), sibling agreement of the Vec and ArrayVec formatter impls, no-dropped-write discipline over every fallible formatter call, response-unit error latch, and a build-graph witness for 'no heap': the no-alloc configuration's resolved crate graph contains neither alloc nor std, the items that exist only with alloc are an explicit allow-list, every other body is identical in both configurations, and no body outside the allow-list calls into alloc; refused-write sequences over [header] data* finish (every position of the refused write ends in exactly that failure); writers hand a refused write back as it is; writers' stack buffers hold every value of their type; whole-message tables (sa/rules/msgtable.py): Node::run folded end to end on concrete messages against a concrete tree with the real tokenizer, dispatcher, Parameters, ResponseUnit and formatter impl analysed in place and scripted handlers, compared with a reference execution written from SCPI-99 6.2.4 / IEEE 488.2 7-8 - the framing messages against ArrayVec<u8, N> for N at and around every size of the expected response: identical bytes when they fit, OutOfMemory from the unit whose write does not fit; finish() returns the stored outcome and leaves it stored (8 unit states); the panic audit of C01 run on the response modules (R11.10)"
LEVEL_TEXT = "Capacity: the fixed-capacity formatter's two push primitives are enumerated path by path (try_extend_from_slice / try_push, Err mapped to OutOfMemory, no panicking container call anywhere in the impl) and every call site whose Result carries a write failure is checked to propagate it, so exhaustion at any write surfaces as -225. Bytes: the two formatter impls agree on every method other than the two primitives. Heap: code that cannot name the allocator cannot call it - the no-alloc build of scpi (and scpi-contrib) type-checks with a crate graph without alloc/std, and the alloc-only items are exactly the Vec-based conveniences."
LEVEL_NOTE = "Not decided: allocation/capacity behaviour of user handlers; panics inside arrayvec/lexical-core when used within their contracts (C01's trusted base). Trusted: rustc MIR and crate-graph resolution, cargo feature resolution of the analysed configurations."

ALLOC_ONLY_ALLOWED = ("vecformatter", "alloc::vec::Vec", "VecErrorQueue")


def norm_mir(m):
    def strip(o):
        if isinstance(o, dict):
            return {k: strip(v) for k, v in o.items() if k not in ("line", "mac", "dpath", "resolved_dpath")}
        if isinstance(o, list):
            return [strip(x) for x in o]
        return o
    return hashlib.sha1(json.dumps(strip(m), sort_keys=True).encode()).hexdigest()


def result_used(mir, c):
    from .c05 import _result_used
    return _result_used(mir, c)


def run(R, tier):
    R.configs.append("dflt")
    P = D.prog()
    u = P.unit("scpi")
    eng = fdai.Engine(P, u, inline=lambda n, r: r.endswith("error::Error::new") or "From<error::ErrorCode>>::from" in r, models={})

    # ---- R11.1 ArrayVec formatter op table --------------------------------------------------------------
    def fimpl(self_contains, method):
        # the impl's own method, or the trait's provided method when the impl does not override it
        return u.trait_method("parser::response::Formatter", method, self_contains)

    for meth, callee in (("push_str", "try_extend_from_slice"), ("push_byte", "try_push")):
        b = fimpl("arrayvec::ArrayVec", meth)
        ps = [CB.Path(r) for r in eng.run(b, [RefV(Cell(TOP, "buf"), (), True), SymV("arg", "arg")])]
        good = len(ps) == 2
        kinds = set()
        for p in ps:
            c0 = p.calls[0] if p.calls else None
            if c0 is None or c0.name.split("::")[-1] != callee or c0.args[1] != ("sym", "arg", "arg") or c0.args[0][:2] != ("ref", "buf"):
                good = False
                continue
            v = p.assumed_variant(callee, 0)
            if v == "Ok":
                kinds.add("fits")
                good = good and M.outcome(p.r) == "Ok" and p.count(callee) == 1
            elif v == "Err":
                kinds.add("full")
                good = good and M.outcome(p.r) == "Err(OutOfMemory)"
            else:
                good = False
        R.check(good and kinds == {"fits", "full"}, "R11.1", "ArrayVec::" + meth, "%s(arg): Ok, or -225 Out of memory when it does not fit" % callee, "fixed-capacity %s must append its argument with %s and map failure to -225: %s" % (meth, callee, [p.describe() for p in ps]), where=b.span)
    # no panicking container operation anywhere in the impl
    PANICKY = ("push", "extend_from_slice", "insert", "push_unchecked", "remove", "swap_remove", "index", "index_mut", "unwrap", "expect", "set_len", "extend")
    bad = []
    n_m = 0
    for b in u.trait_methods_for("parser::response::Formatter", "arrayvec::ArrayVec").values():
        if True:
            n_m += 1
            for c in b.calls():
                nm = c.name.split("::")[-1]
                if nm in PANICKY and ("arrayvec" in c.name or "ArrayVec" in c.name or nm in ("unwrap", "expect")):
                    bad.append("%s in %s" % (c.name, b.name))
            for bi in b.mir.live_blocks():
                t = b.mir.blocks[bi]["term"]
                if t["k"] == "assert" and not b.in_trait:
                    bad.append("%s assert in %s" % (t["msg"], b.name))
    R.check(not bad and n_m >= 8, "R11.1", "ArrayVec:no-panicking-op", "only non-panicking container calls in the %d methods of the fixed-capacity formatter" % n_m, "fixed-capacity formatter uses a panicking operation (%s): a full buffer would panic instead of returning -225" % bad)

    # ---- R11.2 sibling agreement ----------------------------------------------------------------------------
    def summary(b):
        res = eng.run(b, [RefV(Cell(TOP, "buf"), (), True)] + [SymV("a%d" % i, "arg") for i in range(b.mir.arg_count - 1)])
        out = set()
        for r in res:
            ev = []
            for e in r.trace:
                if e.kind == "call":
                    ev.append((e.name.split("::")[-1], tuple(a for a in e.args if isinstance(a, tuple) and a and a[0] == "K")))
                elif e.kind == "assume":
                    ev.append(("assume", e.args[1]))
            out.add((tuple(ev), M.outcome(r)))
        return out

    for meth in ("as_slice", "clear", "len", "message_start", "message_end", "response_unit"):
        a = fimpl("arrayvec::ArrayVec", meth)
        v = fimpl("alloc::vec::Vec", meth)
        sa_, sv_ = summary(a), summary(v)
        R.check(sa_ == sv_, "R11.2", "siblings:" + meth, "Vec and ArrayVec formatters behave identically (%d paths)" % len(sa_), "formatter impls disagree on %s: ArrayVec %s vs Vec %s - the bytes would differ between a growable and a fixed buffer" % (meth, sorted(sa_, key=repr)[:2], sorted(sv_, key=repr)[:2]), where=a.span)
    for meth, callee in (("push_str", "extend_from_slice"), ("push_byte", "push")):
        b = fimpl("alloc::vec::Vec", meth)
        ps = [CB.Path(r) for r in eng.run(b, [RefV(Cell(TOP, "buf"), (), True), SymV("arg", "arg")])]
        ok = len(ps) == 1 and ps[0].names == [callee] and ps[0].calls[0].args[1] == ("sym", "arg", "arg") and M.outcome(ps[0].r) == "Ok"
        R.check(ok, "R11.2", "Vec::" + meth, "%s(arg)" % callee, "growable %s must append exactly its argument: %s" % (meth, [p.describe() for p in ps]), where=b.span)

    # ---- R11.3 no dropped write --------------------------------------------------------------------------------
    n_sites = 0
    for unit in P.units:
        for b in unit.bodies:
            for c in b.calls():
                is_write = (c.trait or "").endswith(("parser::response::Formatter", "parser::response::ResponseData")) and c.method in ("push_str", "push_byte", "push_ascii", "data_separator", "header_separator", "message_start", "message_end", "format_response_data", "response_unit")
                if not is_write and not c.name.endswith(("response::push_escaped",)):
                    continue
                n_sites += 1
                used = result_used(b.mir, c)
                R.check(used, "R11.3", "%s@%s#%d" % (c.method or c.name.split("::")[-1], b.npath, [x.bi for x in b.calls() if x.name == c.name].index(c.bi)), "write result propagated", "the Result of %s in %s is dropped: a full buffer would go unnoticed" % (c.name, b.npath), where=c.line)
    R.floor("R11.3", "fallible write call sites", n_sites, 45)
    # response unit keeps the first failure (shared with C05/R05.6)
    _latch(R, P, u)
    _finish_keeps(R, P, u)
    _surface(R, P, u)
    _writer_panics(R, P, u)
    # R11.7 ... and every writer hands a refused write back as it is (emit.check_all_writers, shared with C05/R05.9)
    from . import emit as E
    E.check_all_writers(R, "R11.7", P)
    # R11.8 the writers' own stack buffers hold every value of their type: a short one makes lexical-core panic (shared
    # with C09/R09.1)
    from . import c09
    c09.int_writers(R, "R11.8")
    # R11.9 whole messages against ArrayVec<u8, N> for N around every write boundary of the expected response: what fits is byte for
    # byte what the growable buffer holds, what does not fit fails with -225 at the unit that overflows (no later handler runs)
    from . import msgtable as MT
    MT.check(R, "R11.9", "capacity", tier, "Node::run on whole messages with the fixed-capacity formatter analysed in place (container operations by contract on a concrete buffer of capacity N): identical bytes when the response fits, OutOfMemory at the first write that does not, never a panic", 250)

    # ---- R11.5 no heap: direct census + build-graph witness --------------------------------------------------------
    n_alloc_calls = 0
    bad = []
    for unit in P.units:
        for b in unit.bodies:
            allowed = any(a in (b.path + " " + (b.impl_self or "") + " " + b.file()) for a in ALLOC_ONLY_ALLOWED)
            for c in b.calls(with_promoted=True):
                kr = c.callee.get("resolved_krate") or c.callee.get("krate") or ""
                if kr in ("alloc", "std") or c.rname.startswith(("alloc::", "std::")) and not c.rname.startswith(("std::cmp", "std::convert", "std::ops", "std::option", "std::result", "std::iter", "std::clone", "std::mem", "std::fmt", "std::default", "std::marker", "std::slice", "std::num", "std::str")):
                    n_alloc_calls += 1
                    if not allowed and "core::fmt::" not in (b.impl_trait or "") and "std::fmt::" not in (b.impl_trait or ""):
                        bad.append("%s calls %s" % (b.npath, c.rname))
    R.check(not bad, "R11.5", "alloc-calls", "calls into alloc occur only in the Vec-based conveniences (%d call sites)" % n_alloc_calls, "heap-allocating calls outside the allow-list: %s" % bad[:4])
    try:
        PN = facts.program("noalloc")
        R.configs.append("noalloc")
    except SystemExit as e:
        R.violation("R11.5", "noalloc-build", "scpi does not build without alloc (--no-default-features --features arrayvec,unit-*): %s" % e)
        return
    un = PN.unit("scpi")
    R.check("alloc" not in un.crates and "std" not in un.crates, "R11.5", "noalloc:crate-graph", "resolved crate graph of no-alloc scpi: %s" % un.crates, "the no-alloc build of scpi links %s" % [c for c in un.crates if c in ("alloc", "std")])
    R.check("alloc" not in un.features and "std" not in un.features and "arrayvec" in un.features, "R11.5", "noalloc:features", "features %s" % [f for f in un.features if not f.startswith("unit-")], "no-alloc configuration has features %s" % un.features)
    d_bodies = {b.path: b for b in u.bodies}
    n_bodies = {b.path: b for b in un.bodies}
    only_alloc = sorted(set(d_bodies) - set(n_bodies))
    not_allowed = [p for p in only_alloc if not any(a in (p + " " + (d_bodies[p].impl_self or "") + " " + d_bodies[p].file()) for a in ALLOC_ONLY_ALLOWED)]
    R.check(not not_allowed, "R11.5", "alloc-only-items", "%d items exist only with alloc, all Vec-based conveniences" % len(only_alloc), "items that exist only in the alloc configuration but are not on the allow-list: %s" % not_allowed[:5])
    differ = [p for p in sorted(set(d_bodies) & set(n_bodies)) if norm_mir(d_bodies[p].j["mir"]) != norm_mir(n_bodies[p].j["mir"]) or [norm_mir(x) for x in d_bodies[p].j["promoted"]] != [norm_mir(x) for x in n_bodies[p].j["promoted"]]]
    R.check(not differ, "R11.5", "config-independent-bodies", "%d bodies are identical with and without alloc" % len(set(d_bodies) & set(n_bodies)), "bodies that change with the alloc feature (allocation-dependent code in parsing/dispatch/formatting): %s" % differ[:5])
    R.floor("R11.5", "bodies compared across configurations", len(set(d_bodies) & set(n_bodies)), 300)
    if tier == "thorough":
        try:
            PC = facts.program("noalloc_contrib")
            R.configs.append("noalloc_contrib")
            for uu in PC.units:
                R.check("alloc" not in uu.crates or uu.crate == "scpi_contrib", "R11.5", "noalloc:%s:crate-graph" % uu.crate, "crate graph %s" % uu.crates, "no-alloc build of %s links alloc" % uu.crate)
        except SystemExit as e:
            R.violation("R11.5", "noalloc-contrib-build", "scpi-contrib does not build in its default (no alloc) configuration: %s" % e)


def _latch(R, P, u, rule="R11.3"):
    """ResponseUnit keeps its first error and stops writing (so a failed write cannot be overwritten by a later success)."""
    ru_adt = "scpi::parser::response::ResponseUnit"
    from . import emit as _E0
    eng = fdai.Engine(P, u, inline=_E0._helpers_of_response_module(P), models={})
    fields = [f["name"] for f in u.adts[ru_adt]["variants"][0]["fields"]]
    for meth in ("data", "header"):
        b = u.body("scpi::parser::response::ResponseUnit::" + meth)
        for flags in ((False, False), (True, False), (False, True), (True, True)):
            if meth == "header" and flags[1]:
                continue
            from . import emit as E_
            ri_ = E_.unit_layout(u)[1]
            ucell = Cell(E_.mk_unit(u, E_.unit_states(P)[flags], result=fdai.mk_err(SymV("first-error", "first-error"))), "unit")
            res = eng.run(b, [RefV(ucell, (), True), SymV("payload", "payload")])
            for r in res:
                writes = [e.name for e in r.trace if e.kind == "call" and ("Formatter::" in e.name or "format_response_data" in e.name)]
                rv = r.retval
                final = load(Loc(rv.cell, rv.path)) if isinstance(rv, RefV) else None
                fres = final.fields.get(ri_) if isinstance(final, AggV) else None
                keep = isinstance(fres, EnumV) and fres.name == "Err" and isinstance(fres.fields.get(0), SymV) and fres.fields[0].id == "first-error"
                R.check(not writes and keep, rule, "ResponseUnit::%s[after-error,%s]" % (meth, flags), "after a failed write nothing more is written and the failure is kept", "after a failed write (e.g. -225) ResponseUnit::%s still writes %s / replaces the stored error by %r: a later, shorter datum would turn the failure into a truncated success" % (meth, writes, fres), where=b.span)


def _finish_keeps(R, P, u, rule="R11.3"):
    """finish() hands out the stored outcome and leaves it stored: a handler that polls finish() after every datum and once
    more at the end still gets the failure (seed C11-O: `mem::replace(&mut self.result, Ok(()))` lets the second call say Ok)"""
    from . import emit as E_
    eng = fdai.Engine(P, u, inline=E_._helpers_of_response_module(P), models={})
    b = u.body("scpi::parser::response::ResponseUnit::finish")
    ri_ = E_.unit_layout(u)[1]
    bad = []
    for flags in ((False, False), (True, False), (False, True), (True, True)):
        for label, stored in (("failure", fdai.mk_err(SymV("first-error", "first-error"))), ("success", fdai.mk_ok(fdai.UNIT))):
            ucell = Cell(E_.mk_unit(u, E_.unit_states(P)[flags], result=stored), "unit")
            try:
                res = eng.run(b, [RefV(ucell, (), True)])
            except (fdai.TooManyPaths, RecursionError):
                res = []
            if len(res) != 1 or res[0].outcome != "return":
                bad.append("%s/%s: %d paths" % (label, flags, len(res)))
                continue
            rv = res[0].retval
            after = load(Loc(ucell, ())).fields.get(ri_)
            def same(x):
                if label == "failure":
                    return isinstance(x, EnumV) and x.name == "Err" and isinstance(x.fields.get(0), SymV) and x.fields[0].id == "first-error"
                return isinstance(x, EnumV) and x.name == "Ok"
            writes = [e.name for e in res[0].trace if e.kind == "call" and ("Formatter::" in e.name or "format_response_data" in e.name)]
            if not same(rv) or not same(after) or writes:
                bad.append("stored %s, unit state %s: finish() returns %r, afterwards the unit holds %r, writes %s" % (label, flags, rv, after, writes))
    R.check(not bad, rule, "ResponseUnit::finish[idempotent]", "returns the stored outcome, leaves it stored and writes nothing (8 unit states)", "; ".join(bad[:3]), where=b.span)


def _writer_panics(R, P, u):
    """R11.10 "never panics" for the writing side: every panic-capable construct in the response modules (index and
    arithmetic checks, unwraps, the debug assertion of Formatter::push_ascii) is discharged by the panic audit of C01 - run
    here on those modules alone, so that a writer that stops validating what it pushes (a non-ASCII message reaching
    push_ascii - seed C11-P) or indexes a list by its capacity is reported under this property too"""
    from . import panics as PN, c01 as C01
    dg = PN.Discharger(u, P)
    n = 0
    for s_ in PN.enumerate_sites(u):
        f_ = s_.body.file()
        if "/parser/response/" not in "/" + f_ and not f_.endswith("parser/format.rs"):
            continue
        n += 1
        d = dg.try_discharge(s_)
        if d is None:
            R.violation("R11.10", s_.key, "panic-capable site in the response writers without a discharge argument: %s in %s" % (s_.what, s_.body.npath), where=s_.line)
        elif d == "debug_assert":
            ok, why = C01.debug_assert_ok(P, u, s_)
            R.check(ok, "R11.10", s_.key, "debug_assert! precondition: %s" % why, "debug assertion in %s can be violated by library callers: %s" % (s_.body.npath, why), where=s_.line)
        else:
            R.ok("R11.10", s_.key, d)
    R.floor("R11.10", "panic-capable sites of the response writers", n, 3)


def _surface(R, P, u):
    """R11.6 a write the buffer refuses surfaces as exactly that failure: [header] data* finish on a unit whose k-th write
    is refused ends in Err(that failure) - whichever write it was (the first one included) and whatever else the unit
    would have written. (The fixed-capacity formatter's own failure is -225: R11.1.)"""
    import itertools
    ru_adt = "scpi::parser::response::ResponseUnit"
    fields = [f["name"] for f in u.adts[ru_adt]["variants"][0]["fields"]]
    WR = ("Formatter::push_str", "Formatter::push_byte", "Formatter::push_ascii", "Formatter::data_separator", "Formatter::header_separator", "ResponseData::format_response_data")

    def mk_engine(fail_at):
        ctr = {"n": 0}

        def m_write(eng_, st, fr, t, name, rname, args):
            k = st.extra.get("writes", 0)
            st.extra["writes"] = k + 1
            if k == st.extra.get("fail_at"):
                return fdai.mk_err(SymV("refused", "the refused write"))
            return fdai.mk_ok(fdai.UNIT)
        ms = {}
        for w in WR:
            ms["scpi::parser::response::" + w] = m_write
        return fdai.Engine(P, u, inline=lambda n, r: r.startswith("scpi::parser::response::ResponseUnit::") or r.startswith("scpi::error::"), models=ms, max_paths=32)
    eng = mk_engine(None)
    bodies = {m: u.body("scpi::parser::response::ResponseUnit::" + m) for m in ("header", "data", "finish")}
    bad = []
    n_seq = 0
    for seq in (("data",), ("data", "data"), ("header", "data"), ("header", "data", "data"), ("data", "data", "data")):
        # how many writes does the sequence make when nothing fails?
        total = None
        for fail_at in [None] + list(range(0, 8)):
            if fail_at is not None and total is not None and fail_at >= total:
                break
            from . import emit as E_
            ucell = Cell(E_.mk_unit(u, E_.unit_states(P)[(False, False)]), "unit")
            st_extra = {"writes": 0, "fail_at": fail_at}
            ok_run = True
            res = None
            for meth in seq + ("finish",):
                st = fdai.State()
                st.extra.update(st_extra)
                st.extra["unit"] = ucell
                args = [RefV(ucell, (), True)] + ([SymV("payload", "payload")] if meth != "finish" else [])
                try:
                    rs = eng.run(bodies[meth], args, st)
                except (fdai.TooManyPaths, RecursionError):
                    rs = []
                if len(rs) != 1 or rs[0].outcome != "return":
                    ok_run = False
                    bad.append("%s (write %s refused): %s is undecided (%d paths%s)" % ("+".join(seq), fail_at, meth, len(rs), ", " + rs[0].outcome if len(rs) == 1 else ""))
                    break
                st_extra = {"writes": rs[0].extra.get("writes", 0), "fail_at": fail_at}
                ucell = rs[0].extra.get("unit")
                res = rs[0]
            if not ok_run:
                break
            n_seq += 1
            oc = M.outcome(res)
            if fail_at is None:
                total = st_extra["writes"]
                if oc != "Ok":
                    bad.append("%s with no refusal ends in %s" % ("+".join(seq), oc))
            else:
                v = res.retval
                e0 = v.fields.get(0) if isinstance(v, EnumV) and v.name == "Err" else None
                if not (isinstance(e0, SymV) and e0.id == "refused"):
                    bad.append("%s with write #%d refused ends in %s instead of that failure" % ("+".join(seq), fail_at, oc))
    R.check(not bad and n_seq >= 12, "R11.6", "unit:refused-write-surfaces", "whichever write of a unit the buffer refuses, finish() returns exactly that failure (%d sequences)" % n_seq, "; ".join(bad[:3]))

