"""A small difference-constraint prover over normalised symbolic expressions (sa/sym.py).

It decides the arithmetic part of panic-freedom obligations - "this checked subtraction cannot wrap", "this
`+ k` cannot overflow", "this index is within the slice" - from
  * the branch conditions that dominate the site (comparisons, is_empty, starts_with/ends_with a literal,
    ASCII class predicates, `match n { 0 => .., _ => here }`, Some/Ok edges of position()/rposition()),
  * a handful of library axioms (slice lengths are within 0..=isize::MAX, a found position is < the length of the
    slice searched, the result of a checked op that did not panic is the exact sum/difference),
independent of how the source spells the guard (if/else, early return, `?`, match guards, flipped operands).

Facts are `x - y >= c` over atoms (expressions) and the distinguished atom ZERO; entailment is shortest paths.
"""
from .. import sym

ZERO = ("zero",)
ISIZE_MAX = (1 << 63) - 1
TYMAX = {"u8": 255, "u16": 65535, "u32": (1 << 32) - 1, "u64": (1 << 64) - 1, "usize": (1 << 64) - 1}
BITS = {"u8": 8, "u16": 16, "u32": 32, "u64": 64, "usize": 64, "i8": 8, "i16": 16, "i32": 32, "i64": 64, "isize": 64}


def untry(e):
    """Rewrite values obtained through `?` into the form a `match`/`if let` would give:
    (Try::branch(x) as Continue).0  ==>  (x as Some).0 / (x as Ok).0"""
    if not isinstance(e, tuple) or not e or not isinstance(e[0], str):
        return e
    if e[0] == "downcast" and e[2] == "Continue" and e[1][0] == "call" and e[1][1].endswith("Try::branch") and len(e[1][3]) == 1:
        inner = untry(e[1][3][0])
        return ("downcast", inner, "Some" if "option::Option" in e[1][2] else "Ok")
    out = []
    for x in e:
        if isinstance(x, tuple) and x and isinstance(x[0], str):
            out.append(untry(x))
        elif isinstance(x, tuple):
            out.append(tuple(untry(y) for y in x))
        else:
            out.append(x)
    return tuple(out)


def untry_cond(e, v):
    """the same for a branch condition (expression, value)"""
    if e[0] == "discr" and e[1][0] == "call" and e[1][1].endswith("Try::branch") and len(e[1][3]) == 1:
        inner = untry(e[1][3][0])
        is_opt = "option::Option" in e[1][2]
        adt = "core::option::Option" if is_opt else "core::result::Result"
        cont = v == 0 or v == ("not", [1])
        brk = v == 1 or v == ("not", [0])
        if cont:
            return ("discr", inner, adt), (1 if is_opt else 0)
        if brk:
            return ("discr", inner, adt), (0 if is_opt else 1)
    return untry(e), v


def strip_widen(e):
    """drop value-preserving integer casts (unsigned to an at-least-as-wide integer type)"""
    while e[0] == "cast" and e[1] == "IntToInt":
        to, frm = e[3], (e[4] if len(e) > 4 else None)
        if frm in TYMAX and to in BITS and BITS[to] >= BITS[frm] and (to in TYMAX or BITS[to] > BITS[frm]):
            e = e[2]
        else:
            break
    return e


def lin(e):
    """e == atom + k  ->  (atom or ZERO, k)"""
    e = strip_widen(e)
    if e[0] == "int":
        return ZERO, e[1]
    l_ = is_len_of(e) if e[0] in ("call", "unop") else None
    if l_ is not None and sym.norm(l_)[0] == "bytes":
        return ZERO, len(sym.norm(l_)[1])
    if e[0] == "field" and e[2] == "0" and e[1][0] == "binop" and e[1][1] in ("AddWithOverflow", "SubWithOverflow"):
        a, b = e[1][2], e[1][3]
        ta, ka = lin(a)
        tb, kb = lin(b)
        if tb == ZERO:
            return (ta, ka + kb) if e[1][1].startswith("Add") else (ta, ka - kb)
        if ta == ZERO and e[1][1].startswith("Add"):
            return tb, ka + kb
    if e[0] == "binop" and e[1] in ("Add", "Sub") and strip_widen(e[3])[0] == "int":
        # unchecked form (release builds / wrapping is excluded separately by the assert sites of the debug build)
        ta, ka = lin(e[2])
        k = strip_widen(e[3])[1]
        return (ta, ka + k) if e[1] == "Add" else (ta, ka - k)
    return e, 0


def is_len_of(e):
    if e[0] == "call" and e[1].split("::")[-1] == "len" and len(e[3]) == 1:
        return e[3][0]
    if e[0] == "unop" and e[1] == "PtrMetadata":
        return e[2]
    return None


_SPLITS = ("split", "splitn", "rsplit", "rsplitn", "split_inclusive", "chunks", "rchunks", "windows", "chunks_exact", "split_mut")


def split_piece_root(expand, e, depth=0):
    """Y when `e` is an item of `Y.split..(..)`: next() / next_back() / last() of the iterator, unwrapped by `?`, a match or
    unwrap; the iterator variable is followed to its (single) definition"""
    e = sym.norm(e)
    for _ in range(10):
        if e[0] in ("ref", "deref") and len(e) > 1 and isinstance(e[1], tuple):
            e = sym.norm(e[1])
        elif e[0] == "field" and str(e[2]) == "0" and isinstance(e[1], tuple):
            e = sym.norm(e[1])
        elif e[0] == "downcast":
            e = sym.norm(e[1])
        elif e[0] == "call" and e[1].endswith("Try::branch") and e[3]:
            e = sym.norm(e[3][0])
        elif e[0] == "call" and e[1].split("::")[-1] in ("unwrap", "expect", "unwrap_unchecked", "ok_or", "ok_or_else") and e[1].startswith("core::") and e[3]:
            e = sym.norm(e[3][0])
        elif e[0] == "var":
            e2 = sym.norm(expand(e))
            if e2 == e:
                return None
            e = e2
        else:
            break
    if e[0] == "call" and e[1].split("::")[-1] in ("get", "get_mut", "strip_prefix", "strip_suffix") and e[1].startswith("core::slice::") and e[3]:
        return sym.norm(e[3][0])          # `Y.get(range)?`, `Y.strip_prefix(p)?`: a sub-slice of Y
    if e[0] == "call" and e[1].split("::")[-1] in ("next", "next_back", "last", "nth") and e[3]:
        it = sym.norm(e[3][0])
        for _ in range(6):
            if it[0] in ("ref", "deref", "addr") and len(it) > 1 and isinstance(it[-1], tuple):
                it = sym.norm(it[-1])
            elif it[0] == "var":
                it2 = sym.norm(expand(it))
                if it2 == it:
                    return None
                it = it2
            else:
                break
        if it[0] == "call" and it[1].startswith("core::slice::") and it[1].split("::")[-1] in _SPLITS and it[3]:
            return sym.norm(it[3][0])
    return None


def position_payload(e):
    """e is the index found by position()/rposition(): returns the call expression"""
    if e[0] == "field" and e[2] == "0" and e[1][0] == "downcast" and e[1][2] == "Some":
        c = e[1][1]
        if c[0] == "call" and c[1].split("::")[-1] in ("position", "rposition"):
            return c
    if e[0] == "call" and e[1].split("::")[-1] in ("unwrap", "expect", "unwrap_unchecked") and e[3]:
        c = e[3][0]
        if c[0] == "call" and c[1].split("::")[-1] in ("position", "rposition"):
            return c
    return None


_TYRANGE = {"u8": (0, 255), "u16": (0, 65535), "u32": (0, 2**32 - 1), "u64": (0, 2**64 - 1), "usize": (0, 2**64 - 1),
            "i8": (-128, 127), "i16": (-32768, 32767), "i32": (-2**31, 2**31 - 1), "i64": (-2**63, 2**63 - 1), "isize": (-2**63, 2**63 - 1)}

ASCII_CLASS = {"is_ascii_digit": (48, 57), "is_ascii_lowercase": (97, 122), "is_ascii_uppercase": (65, 90), "is_ascii_alphabetic": (65, 122), "is_ascii_alphanumeric": (48, 122), "is_ascii_hexdigit": (48, 102), "is_ascii_whitespace": (9, 32), "is_ascii_punctuation": (33, 126), "is_ascii_graphic": (33, 126), "is_ascii": (0, 127)}


class Facts:
    def __init__(self, expand=None):
        self.w = {}      # (x, y) -> c : x - y >= c
        self.ne = []     # (x, kx, y, ky): x + kx != y + ky
        self.atoms = set([ZERO])
        self.expand = expand or (lambda e: e)
        self.notes = []

    def add(self, x, y, c, why=None):
        if x == y:
            return
        self.atoms.add(x)
        self.atoms.add(y)
        if self.w.get((x, y), None) is None or self.w[(x, y)] < c:
            self.w[(x, y)] = c
        if why:
            self.notes.append(why)

    def ge(self, a, b, k=0, why=None):
        """a >= b + k for expressions a, b"""
        ta, ka = lin(a)
        tb, kb = lin(b)
        self.add(ta, tb, kb - ka + k, why)

    def eq(self, a, b, why=None):
        self.ge(a, b, 0, why)
        self.ge(b, a, 0)

    def axioms_for(self, e):
        """library facts about every sub-expression of e"""
        for x in sym.walk(e):
            x = strip_widen(x)
            if is_len_of(x) is not None or (x[0] == "call" and x[1].split("::")[-1] in ("count", "len")):
                self.add(x, ZERO, 0)
                self.add(ZERO, x, -ISIZE_MAX)
            lx = is_len_of(x) if x[0] in ("call", "unop") else None
            if lx is not None:
                # a piece handed out by a split-family iterator over Y (split, splitn, rsplit, rsplitn, split_inclusive, chunks,
                # windows ...) is a sub-slice of Y: no longer than Y
                root = split_piece_root(self.expand, lx)
                if root is not None:
                    for l_ in self._len_atom_of(sym.norm(root)):
                        self.add(l_, x, 0, "a piece yielded by a split of a slice is no longer than the slice")
            if x[0] == "call" and x[1].split("::")[-1] in ("from", "into") and "From<bool>" in str(x[2]):
                # integer from bool: 0 or 1
                self.atoms.add(x)
                self.add(x, ZERO, 0)
                self.add(ZERO, x, -1)
            c = position_payload(x)
            if c is not None:
                self.add(x, ZERO, 0)
                self.add(ZERO, x, -(ISIZE_MAX - 1))
                # the slice searched: iterator expression -> iter(X)
                it = self.expand(c[3][0]) if c[3] else None
                if it is not None and it[0] == "call" and it[1].split("::")[-1] in ("iter", "iter_mut") and it[3]:
                    ln = self._len_atom_of(sym.norm(it[3][0]))
                    for l_ in ln:
                        self.add(l_, x, 1, "position found in a slice is < its length")
            if x[0] == "call" and x[1].split("::")[-1] == "count" and x[3]:
                # count() of a length-non-increasing adaptor chain over X.iter() is at most len(X)
                src = x[3][0]
                for _ in range(8):
                    src = self.expand(src) if src[0] == "var" else src
                    if src[0] == "call" and src[1].split("::")[-1] in ("rev", "take_while", "skip_while", "filter", "skip", "take", "step_by", "copied", "cloned", "peekable", "enumerate", "map", "fuse", "by_ref", "inspect") and src[3]:
                        src = src[3][0]
                        continue
                    break
                if src[0] == "call" and src[1].split("::")[-1] in ("iter", "iter_mut", "into_iter") and src[3]:
                    for l_ in self._len_atom_of(sym.norm(src[3][0])):
                        self.add(l_, x, 0, "count() of an adaptor chain over a slice <= its length")
            if x[0] == "call" and x[1].split("::")[-1] == "unwrap_or" and len(x[3]) == 2:
                # position(..).unwrap_or(d): either an index < len(X) or d
                c = x[3][0]
                if c[0] == "call" and c[1].split("::")[-1] in ("position", "rposition") and c[3]:
                    self.add(x, ZERO, 0)
                    it = self.expand(c[3][0])
                    td, kd = lin(x[3][1])
                    if it is not None and it[0] == "call" and it[1].split("::")[-1] in ("iter", "iter_mut") and it[3]:
                        for l_ in self._len_atom_of(sym.norm(it[3][0])):
                            if td == l_ and kd <= 0 or (td == ZERO and False):
                                self.add(l_, x, 0, "position(..).unwrap_or(len) <= len")
            if x[0] == "field" and x[2] == "0" and x[1][0] == "binop" and x[1][1] in ("AddWithOverflow", "SubWithOverflow"):
                # a checked result that is used was not an overflow: exact arithmetic on non-negative operands
                a, b = x[1][2], x[1][3]
                t, k = lin(x)
                if (t, k) == (x, 0):
                    # atom - atom: result <= minuend, result >= 0
                    if x[1][1].startswith("Sub"):
                        self.ge(a, x, 0)
                        self.add(x, ZERO, 0)
                    else:
                        self.ge(x, a, 0)
                        self.ge(x, b, 0)

            if x[0] == "binop" and x[1] == "Sub" and strip_widen(x[3])[0] != "int":
                # unchecked atom - atom (release builds): wrap-around is excluded by the overflow assertion the debug build
                # has at the same place, which the audit discharges in the debug configuration; hence exact arithmetic
                t, k = lin(x)
                if (t, k) == (x, 0):
                    self.ge(x[2], x, 0)
                    self.add(x, ZERO, 0)
                    # x + b == a
                    tb, kb = lin(x[3])
                    ta, ka = lin(x[2])
                    if tb != ZERO and ta != ZERO:
                        self.sums = getattr(self, "sums", [])
                        self.sums.append((x, x[3], x[2]))

    def _len_atom_of(self, slice_expr):
        out = []
        for a in list(self.atoms) + list(self._pending_len):
            l_ = is_len_of(a) if isinstance(a, tuple) and a and a[0] in ("call", "unop") else None
            if l_ is not None and sym.norm(l_) == slice_expr:
                out.append(a)
        return out

    _pending_len = ()

    def cond(self, e, v):
        """record a dominating branch condition"""
        e, v = untry_cond(e, v)
        if e[0] == "binop" and e[1] in ("Eq", "Ne", "Lt", "Le", "Gt", "Ge") and isinstance(v, bool):
            op, a, b = e[1], e[2], e[3]
            if not v:
                op = {"Eq": "Ne", "Ne": "Eq", "Lt": "Ge", "Le": "Gt", "Gt": "Le", "Ge": "Lt"}[op]
            if op == "Eq":
                self.eq(a, b)
            elif op == "Ne":
                ta, ka = lin(a)
                tb, kb = lin(b)
                self.atoms.add(ta)
                self.atoms.add(tb)
                self.ne.append((ta, ka, tb, kb))
            elif op == "Lt":
                self.ge(b, a, 1)
            elif op == "Le":
                self.ge(b, a, 0)
            elif op == "Gt":
                self.ge(a, b, 1)
            elif op == "Ge":
                self.ge(a, b, 0)
            return
        if e[0] == "call" and isinstance(v, bool) and e[1].split("::")[-1] == "contains" and len(e[3]) == 2 and ("Range" in e[1] or "Range" in e[2]):
            rng = self.expand(sym.norm(e[3][0]))
            item = sym.norm(e[3][1])
            bounds = None
            if rng[0] == "aggr" and rng[2] and rng[2].split("::")[-1] in ("Range", "RangeInclusive") and len(rng[4]) >= 2 and rng[4][0][0] == "int" and rng[4][1][0] == "int":
                bounds = (rng[4][0][1], rng[4][1][1] - (0 if rng[2].endswith("RangeInclusive") else 1))
            elif rng[0] == "call" and rng[1].endswith("RangeInclusive::new") and len(rng[3]) == 2 and rng[3][0][0] == "int" and rng[3][1][0] == "int":
                bounds = (rng[3][0][1], rng[3][1][1])
            if bounds and v:
                t, k = lin(item)
                self.add(t, ZERO, bounds[0] - k, "range membership")
                self.add(ZERO, t, k - bounds[1])
            return
        if e[0] == "call" and isinstance(v, bool) and e[3]:
            nm = e[1].split("::")[-1]
            subj = sym.norm(e[3][0])
            if nm == "is_empty":
                for l_ in self._len_atom_of(subj):
                    if v:
                        self.add(ZERO, l_, 0)
                    else:
                        self.add(l_, ZERO, 1, "is_empty() == false")
            elif nm in ("starts_with", "ends_with") and v and len(e[3]) > 1 and e[3][1][0] == "bytes":
                for l_ in self._len_atom_of(subj):
                    self.add(l_, ZERO, len(e[3][1][1]), "%s a %d-byte literal" % (nm, len(e[3][1][1])))
            elif nm in ASCII_CLASS and v:
                lo, hi = ASCII_CLASS[nm]
                x = strip_widen(subj)
                if nm == "is_ascii_alphabetic" and x[0] == "call" and x[1].split("::")[-1] == "to_ascii_lowercase":
                    lo = 97
                self.add(x, ZERO, lo, "ASCII class %s" % nm)
                self.add(ZERO, x, -hi)
            return
        if isinstance(v, tuple) and v[0] == "not" and 0 in v[1] and e[0] != "discr":
            # match n { 0 => .., _ => here } on an unsigned value
            t, k = lin(e)
            self.ne.append((t, k, ZERO, 0))
            self.atoms.add(t)
            return
        if isinstance(v, int) and not isinstance(v, bool) and e[0] != "discr":
            t, k = lin(e)
            self.add(t, ZERO, v - k)
            self.add(ZERO, t, k - v)
            return
        if e[0] == "discr" and e[1][0] == "call" and e[1][1].split("::")[-1] in ("position", "rposition") and (v == 1 or v == ("not", [0])):
            p = ("field", ("downcast", e[1], "Some"), "0")
            self.atoms.add(p)
            self.axioms_for(p)

    def close(self):
        atoms = list(self.atoms)
        INF = None
        for rounds in range(3):
            d = {}
            for (x, y), c in self.w.items():
                d[(x, y)] = c
            for k_ in atoms:
                for i in atoms:
                    a = d.get((i, k_)) if i != k_ else 0
                    if a is None:
                        continue
                    for j in atoms:
                        if i == j:
                            continue
                        b = d.get((k_, j)) if k_ != j else 0
                        if b is None:
                            continue
                        if d.get((i, j)) is None or d[(i, j)] < a + b:
                            d[(i, j)] = a + b
            self.d = d
            changed = False
            # x + kx != y + ky and x - y >= ky - kx  ==>  x - y >= ky - kx + 1
            for (x, kx, y, ky) in self.ne:
                if x == y:
                    continue
                lo = d.get((x, y))
                if lo is not None and lo == ky - kx:
                    self.add(x, y, ky - kx + 1)
                    changed = True
                lo2 = d.get((y, x))
                if lo2 is not None and lo2 == kx - ky:
                    self.add(y, x, kx - ky + 1)
                    changed = True
            if not changed:
                break
        return self

    def lower(self, x, y):
        if x == y:
            return 0
        return self.d.get((x, y))

    def proves_ge(self, a, b, k=0):
        """a >= b + k ?"""
        ta, ka = lin(a)
        tb, kb = lin(b)
        lo = self.lower(ta, tb)
        return lo is not None and lo >= kb - ka + k

    def range(self, e, depth=0):
        """interval of an arithmetic expression from the known bounds of its atoms: (lo, hi), None = unbounded"""
        e = strip_widen(e)
        if e[0] == "int":
            return e[1], e[1]
        if depth < 8:
            if e[0] == "cast" and e[1] == "IntToInt":
                lo, hi = self.range(e[2], depth + 1)
                rng = _TYRANGE.get(e[3])
                if rng and lo is not None and hi is not None and rng[0] <= lo and hi <= rng[1]:
                    return lo, hi
                return (rng if rng else (None, None))
            if e[0] == "unop" and e[1] == "Neg":
                lo, hi = self.range(e[2], depth + 1)
                return (None if hi is None else -hi), (None if lo is None else -lo)
            if e[0] == "call" and len(e[3]) == 1 and e[1].startswith("core::"):
                nm = e[1].split("::")[-1]
                if nm in ("from", "into") and "core::convert::num" in str(e[2]):
                    lo, hi = self.range(e[3][0], depth + 1)         # lossless integer widening
                    import re as _re
                    m_ = _re.search(r"From<([iu](?:8|16|32|64|128|size))>", str(e[2]))
                    src = _TYRANGE.get(m_.group(1)) if m_ else None
                    if src:
                        lo = src[0] if lo is None else max(lo, src[0])
                        hi = src[1] if hi is None else min(hi, src[1])
                    return lo, hi
                if nm in ("unsigned_abs", "abs"):
                    lo, hi = self.range(e[3][0], depth + 1)
                    if lo is not None and hi is not None:
                        return (lo, hi) if lo >= 0 else (-hi, -lo) if hi <= 0 else (0, max(-lo, hi))
            core = e[1] if e[0] == "binop" else (e[1][1].replace("WithOverflow", "") if e[0] == "field" and e[2] == "0" and e[1][0] == "binop" else None)
            ops = (e[2], e[3]) if e[0] == "binop" else ((e[1][2], e[1][3]) if core else None)
            if core in ("Add", "Sub", "Mul", "Div", "Rem", "BitAnd", "Shr") and ops:
                (al, ah), (bl, bh) = self.range(ops[0], depth + 1), self.range(ops[1], depth + 1)
                if None not in (al, ah, bl, bh):
                    if core == "Add":
                        return al + bl, ah + bh
                    if core == "Sub":
                        return al - bh, ah - bl
                    if core == "Mul":
                        c = [al * bl, al * bh, ah * bl, ah * bh]
                        return min(c), max(c)
                    if core == "Div" and bl == bh and bl > 0 and al >= 0:
                        return al // bl, ah // bl
                    if core == "Rem" and bl == bh and bl > 0 and al >= 0:
                        return 0, min(ah, bl - 1)
                    if core == "BitAnd" and al >= 0 and bl >= 0:
                        return 0, min(ah, bh)
                    if core == "Shr" and bl == bh and bl >= 0 and al >= 0:
                        return al >> bl, ah >> bl
        return self.lower_bound(e), self.upper(e)

    def upper(self, a):
        """least known upper bound of expression a (or None)"""
        ta, ka = lin(a)
        lo = self.lower(ZERO, ta)
        return None if lo is None else -lo + ka

    def lower_bound(self, a):
        ta, ka = lin(a)
        lo = self.lower(ta, ZERO)
        return None if lo is None else lo + ka


SUBROOT = None   # set by the panic-site audit: slice expression -> the slice it is (transitively) a sub-slice of


def build(conds, exprs, expand=None, unsigned=(), stable=None):
    """Facts from dominating conditions `conds` [(expr, value, block)] plus axioms for every expression involved."""
    F = Facts(expand)
    allx = [untry(x) for x in exprs] + [untry_cond(e, v)[0] for e, v, _ in conds]
    # length atoms first, so that conditions about a slice can be attached to every spelling of its length
    lens = []
    for x in allx:
        for y in sym.walk(x):
            y = strip_widen(y)
            if is_len_of(y) is not None:
                lens.append(y)
                F.atoms.add(y)
    F._pending_len = tuple(lens)
    # two length expressions of the same (unmodified) slice value are equal
    for i, a in enumerate(lens):
        for b in lens[i + 1:]:
            if a != b and sym.norm(is_len_of(a)) == sym.norm(is_len_of(b)) and (_pure_place(sym.norm(is_len_of(a))) or (stable is not None and stable(a) and stable(b))):
                F.add(a, b, 0)
                F.add(b, a, 0)
    for x in allx:
        F.axioms_for(x)
    if SUBROOT is not None:
        # a slice variable that only ever holds sub-slices of X (slice patterns, `rest @ ..`) is no longer than X
        for a in list(lens):
            v = is_len_of(a)
            r = SUBROOT(v) if v is not None else None
            if r is not None and sym.norm(r) != sym.norm(v):
                root_lens = [b for b in lens if sym.norm(is_len_of(b)) == sym.norm(r)]
                if not root_lens:
                    ra = ("call", "core::slice::len", "core::slice::len", (sym.norm(r),), -1)
                    F.atoms.add(ra)
                    F.add(ra, ZERO, 0)
                    root_lens = [ra]
                for b in root_lens:
                    F.add(b, a, 0, "a sub-slice is no longer than the slice it was taken from")
    for u in unsigned:
        t, k = lin(untry(u))
        F.add(t, ZERO, -k if t != ZERO else 0)
    for e, v, _ in conds:
        F.cond(e, v)
    return F.close()


def _pure_place(e):
    """an argument / immutable local / field path thereof: evaluating its length twice gives the same value"""
    while e[0] in ("field", "downcast"):
        e = e[1]
    return e[0] == "arg"
