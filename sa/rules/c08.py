"""C08 - float, boolean and keyword parameters convert to the exact denoted value; accept lists."""
from .. import facts, fdai, scpi_models as M, sym
from . import contrib as CB_
from ..fdai import EnumV, AggV, K, SymV, RefV, Cell, Loc, TOP, load
from . import dispatch as D, convert as C

LEVEL = "other"
TECHNIQUE = "FDAI accept-list matrix of every TryFrom<Token> impl (scpi and scpi-contrib) x 13 token variants compared with the documented accept lists; delegation check of the float conversions (whole literal to lexical_core::parse::<target>, no float-to-float cast); keyword tables by folding the conversion on texts around every keyword - both forms in several letter cases, near misses, numeric suffixes, partial long forms - (literal -> constant, bit-exact) via mnemonic_compare guards; boolean table; a literal the float parser accepted is never refused afterwards; the integer conversion the boolean one delegates to is evaluated with C07's rules; typed echo tables (sa/rules/echotable.py, witness/echo): `Node::run` folded end to end on messages to a witness command that pulls one parameter of the type (`next_data::<T>()` / `next_optional_data`) and writes it back - lexer, dispatcher, Parameters, the conversion, the ResponseData writer and the formatter analysed in place, lexical-core's parsers / integer writer by contract - the answer compared with a reference written from the property's statement: f32 / f64 (answered as bit patterns) on literals around the largest, smallest and halfway values, negative zero, overflow, keywords and look-alikes; booleans in every spelling incl. numbers beyond every integer; every other element type refused"
LEVEL_TEXT = "For every (target type, element type) pair the abstract interpreter enumerates all outcomes of the conversion (Ok, each error code, internal-unreachable) and the matrix is compared with the documented accept lists; the float conversions are checked to hand the whole literal to the correctly-rounding parser instantiated at the target width; the keyword and boolean tables are extracted with their constants and compared bit for bit."
LEVEL_NOTE = "Not decided: correct rounding of decimal->binary inside lexical-core (trusted); which spellings the lexer lets through (C04). The numeric part of `bool` rests on the integer conversion (C07). Trusted: rustc MIR, FDAI models."

F_CONST = {
    "f32": {"INFinity": 0x7F800000, "NINFinity": 0xFF800000, "MAXimum": 0x7F7FFFFF, "MINimum": 0xFF7FFFFF},
    "f64": {"INFinity": 0x7FF0000000000000, "NINFinity": 0xFFF0000000000000, "MAXimum": 0x7FEFFFFFFFFFFFFF, "MINimum": 0xFFEFFFFFFFFFFFFF},
}


def quantity_kind(b):
    # module name of a unit impl: scpi::parser::suffix::<quantity>::<impl ...>
    parts = b.path.split("::<impl")[0].split("::")
    return parts[-1] if len(parts) >= 4 and parts[-2] == "suffix" else None


def keyword_paths(res):
    """For paths through a chain of mnemonic_compare guards: yields (literal assumed true | None, path)"""
    out = []
    for r in res:
        lits = []
        calls = [e for e in r.trace if e.kind == "call" and e.name.endswith("mnemonic_compare")]
        assumes = [e for e in r.trace if e.kind == "assume" and e.name == "sym" and isinstance(e.args[0][2], tuple) and e.args[0][2][0] == "ret" and e.args[0][2][1].endswith("mnemonic_compare")]
        true_lit = None
        ok = len(calls) == len(assumes)
        for c, a in zip(calls, assumes):
            lit = C_bytes(c.args[0])
            if a.args[1] is True:
                true_lit = lit
        out.append((true_lit, [C_bytes(c.args[0]) for c in calls], r, ok))
    return out


def C_bytes(snap):
    def walk(t):
        if isinstance(t, tuple) and t and t[0] == "sym":
            return None      # bytes in the description of an unknown value are not the value's bytes
        if isinstance(t, tuple):
            if t and t[0] == "bytes":
                return t[1]
            for x in t:
                r = walk(x)
                if r is not None:
                    return r
        return None
    return walk(snap)


def ok_value(r):
    v = r.retval
    if isinstance(v, EnumV) and v.name == "Ok":
        return v.fields.get(0)
    return None


def float_delegation(R, rule="R08.2", fty_only=None):
    """R08.2 for each float type: the whole literal goes to lexical_core::parse::<fty>, its value is returned unchanged and
    nothing the parser accepted is refused afterwards; no float cast; error map. Returns {fty: body}."""
    out = {}
    # ---- R08.2 float delegation ---------------------------------------------------------------------------------
    P = facts.program("dflt")
    u = P.unit("scpi")
    eng = C.engine("dflt", "scpi")
    for fty, width in C.FLOATS.items():
        if fty_only is not None and fty not in fty_only:
            continue
        bs = [b for ty, b in C.conversions(u) if ty == fty]
        if len(bs) != 1:
            R.anchor_lost(rule, "TryFrom<Token> for %s" % fty)
            continue
        b = bs[0]
        out[fty] = b
        oc, res = C.outcome_set(eng, b, "DecimalNumericProgramData")
        parses = set()
        good = True
        filtered = []
        for r in res:
            pc = [e for e in r.trace if e.kind == "call" and e.name.startswith("lexical_core::parse")]
            if len(pc) != 1:
                good = False
                continue
            g = (pc[0].extra or {}).get("gargs") or ()
            parses.add(tuple(g))
            if not CB_.holds(pc[0].args[0], "tok-DecimalNumericProgramData-0"):
                good = False
            if pc[0].name != "lexical_core::parse":
                good = False  # parse_partial would accept a prefix
            v = ok_value(r)
            if v is not None and not (isinstance(v, SymV) and "lexical_core::parse" in repr(v.desc)):
                good = False  # the value returned must be the parser's value itself
            # ... and whatever the parser accepted is returned: no second opinion on a parsed value (a literal beyond the
            # type's range is the infinity of its sign, a zero written with an exponent is zero)
            parsed_ok = any(e.kind == "assume" and e.name == "variant" and e.args[1] == "Ok" and "lexical_core::parse" in repr(e.args[0]) for e in r.trace)
            if parsed_ok and M.outcome(r) != "Ok":
                good = False
                filtered.append(M.outcome(r))
        R.check(good and parses == {(fty,)}, rule, "%s:delegation" % fty, "whole literal -> lexical_core::parse::<%s>, its value returned unchanged" % fty,
                "the %s conversion must pass the whole literal to lexical_core::parse::<%s> and return that value unchanged (found parser instantiations %s%s)" % (fty, fty, sorted(parses), "; a successfully parsed literal is then refused with %s" % sorted(set(filtered)) if filtered else ""), where=b.span)
        casts = [(st["rv"]["kind"], st.get("line")) for bb in [b] + u.closures_of(b) for m in bb.all_mirs() for bi in m.live_blocks() for st in m.blocks[bi]["stmts"] if st["k"] == "assign" and st["rv"]["k"] == "cast" and st["rv"]["kind"] in ("FloatToFloat", "IntToFloat", "FloatToInt")]
        R.check(not casts, rule, "%s:no-float-cast" % fty, "no float cast (no double rounding)", "the %s conversion contains a %s cast: the literal would be rounded twice" % (fty, casts[:1]), where=b.span)
        emap = C.error_map("dflt", "scpi", b)
        bad_ = {vn: sorted(oc) for vn, oc in emap.items() if oc != C.expected_error(vn)}
        R.check(not bad_, rule, "%s:error-map" % fty, "parser Overflow/Underflow -> -222, InvalidDigit -> -121, otherwise -120", "numeric error mapping of the %s conversion is wrong for %s" % (fty, dict(list(bad_.items())[:4])), where=b.span)
    return out


def run(R, tier, configs=("dflt",)):
    for cfg in configs:
        R.configs.append(cfg)
    # ---- R08.1 accept matrix ------------------------------------------------------------------------
    n_rows = 0
    for unit in ("scpi", "scpi_contrib"):
        rows = C.matrix("dflt", unit)
        tys = []
        for (ty, name) in rows:
            if ty not in tys:
                tys.append(ty)
        for ty in tys:
            body = rows[(ty, M.DATA[0])][2]
            exp = C.expected(ty)
            q = quantity_kind(body)
            label = ty if exp is not None else ("quantity:" + q if q and "Db<" not in ty else "Db:" + q if q else ty.split("<")[0].split("::")[-1])
            for name in M.DATA:
                oc = rows[(ty, name)][0]
                n_rows += 1
                key = "%s<-%s" % (label, name)
                if exp is not None:
                    must_ok, allowed = exp[name]
                    good = oc <= allowed and (("Ok" in oc) == bool(must_ok))
                    R.check(good, "R08.1", key, "%s" % sorted(oc), "conversion of %s into %s yields %s; documented accept list allows %s%s" % (name, ty, sorted(oc), sorted(allowed), " and requires Ok" if must_ok else " (never Ok)"), where=body.span)
                elif q is not None and "Db<" not in ty:
                    if name == "DecimalNumericProgramData":
                        good = "Ok" in oc and oc <= {"Ok", "Err(?)"}
                    elif name == "DecimalNumericSuffixProgramData":
                        good = "Ok" in oc and "Err(IllegalParameterValue)" in oc and oc <= {"Ok", "Err(?)", "Err(IllegalParameterValue)"}
                    else:
                        good = oc == C.E104
                    R.check(good, "R08.1", key, "%s" % sorted(oc), "unit conversion (%s) of %s yields %s: numbers (with a known suffix) only, -224 for an unknown suffix, -104 otherwise" % (q, name, sorted(oc)), where=body.span)
                elif q is not None:
                    if name in ("DecimalNumericProgramData", "DecimalNumericSuffixProgramData"):
                        good = "Ok" in oc and oc <= {"Ok", "Err(?)"}
                    else:
                        good = oc == C.E104
                    R.check(good, "R08.1", key, "%s" % sorted(oc), "logarithmic-unit conversion (%s) of %s yields %s" % (q, name, sorted(oc)), where=body.span)
                elif "Amplitude" in ty or "NumericValue<" in ty or ty.endswith("util::Auto"):
                    # delegating wrappers: every element type ends in the underlying conversion (V) or Ok for their own keywords
                    good = oc <= {"Ok", "Err(?)"} or (("Auto" in ty or "NumericValue" in ty) and oc <= {"Ok", "Err(?)", "Err(IllegalParameterValue)", "Err(DataTypeError)"} | C.NUM_ERR)
                    R.check(good, "R08.1", key, "%s (delegates to the underlying type)" % sorted(oc), "wrapper conversion %s of %s fabricates an outcome of its own: %s" % (ty, name, sorted(oc)), where=body.span)
                else:
                    # derived enums and anything else: character data -> Ok / -224, everything else -104
                    if name == "CharacterProgramData":
                        good = "Ok" in oc and oc <= {"Ok", "Err(IllegalParameterValue)"}
                    else:
                        good = oc == C.E104
                    R.check(good, "R08.1", key, "%s" % sorted(oc), "enum-like conversion %s of %s yields %s" % (ty, name, sorted(oc)), where=body.span)
    R.count("accept_matrix_cells", n_rows)
    R.floor("R08.1", "accept matrix cells", n_rows, 7 * 38)

    # ---- R08.2 float delegation (float_delegation above) ---------------------------------------------------------------
    P = facts.program("dflt")
    u = P.unit("scpi")
    eng = C.engine("dflt", "scpi")
    fbodies = float_delegation(R)
    for fty, width in C.FLOATS.items():
        b = fbodies.get(fty)
        if b is None:
            continue
        # ---- R08.3 keyword table: the conversion folded on character data around every keyword ---------------------
        from .c03 import ref_form_match
        feng = C.fold_engine("dflt", "scpi")
        ebits = 8 if fty == "f32" else 11
        mant = width - 1 - ebits
        table = dict(F_CONST[fty])
        table["NAN"] = "nan"
        bad = {k: [] for k in list(table) + ["<other>"]}
        n_kw = 0
        for text in C.keyword_probes([k.encode() for k in table]):
            hits = [k for k in table if ref_form_match(k.encode(), text)]
            res = C.fold_character(feng, b, text)
            n_kw += 1
            if res is None or len(res) != 1 or res[0].outcome != "return":
                bad[hits[0] if hits else "<other>"].append("%r: undecided (%s)" % (text, None if res is None else [(r.outcome, r.retval) for r in res][:2]))
                continue
            r = res[0]
            v = ok_value(r)
            bits = v.fields.get(0).v if isinstance(v, AggV) and v.kind == "float" and isinstance(v.fields.get(0), K) else None
            if hits:
                exp = table[hits[0]]
                if exp == "nan":
                    ok = isinstance(bits, int) and ((bits >> mant) & ((1 << ebits) - 1)) == (1 << ebits) - 1 and (bits & ((1 << mant) - 1)) != 0
                else:
                    ok = bits == exp
                if not ok:
                    bad[hits[0]].append("%r -> %s" % (text, hex(bits) if isinstance(bits, int) else M.outcome(r)))
            elif M.outcome(r) != "Err(DataTypeError)":
                bad["<other>"].append("%r -> %s%s" % (text, M.outcome(r), "" if bits is None else " (bits %s)" % hex(bits)))
        for kw, exp in table.items():
            R.check(not bad[kw], "R08.3", "%s:%s" % (fty, kw), "short and long form in any letter case -> %s" % ("NaN" if exp == "nan" else "bits 0x%x" % exp), "keyword %s of %s: %s" % (kw, fty, "; ".join(bad[kw][:4])), where=b.span)
        R.check(not bad["<other>"], "R08.3", "%s:other-character-data" % fty, "any other character data (near misses, numeric suffix, partial long form) -> -104", "character data that is not one of the five keywords is accepted: %s" % "; ".join(bad["<other>"][:5]), where=b.span)
        R.count("keyword_evaluations_%s" % fty, n_kw)

    # ---- R08.5 the lexer hands the complete literal to the conversion (any mantissa / exponent length) -----------------
    from . import lexer as LX
    LX.check_elements(R, "R08.5", ("decimal",), tier == "thorough")

    # ---- R08.4 boolean ---------------------------------------------------------------------------------------------
    bs = [b for ty, b in C.conversions(u) if ty == "bool"]
    if len(bs) != 1:
        R.anchor_lost("R08.4", "TryFrom<Token> for bool")
        return
    b = bs[0]
    eng2 = fdai.Engine(P, u, inline=lambda n, r: r in D.INLINE_SMALL or "is_data" in r, models={})
    res = eng2.run(b, [M.token(eng2, "CharacterProgramData")])
    table = {}
    good = True
    for r in res:
        cmpc = [e for e in r.trace if e.kind == "call" and e.name.endswith("eq_ignore_ascii_case")]
        ass = [e for e in r.trace if e.kind == "assume" and e.name == "sym" and isinstance(e.args[0][2], tuple) and e.args[0][2][0] == "ret" and e.args[0][2][1].endswith("eq_ignore_ascii_case")]
        true_lit = None
        for c_, a_ in zip(cmpc, ass):
            if not CB_.holds(c_.args[0], "tok-CharacterProgramData-0") and not CB_.holds(c_.args[1], "tok-CharacterProgramData-0"):
                good = False
            if a_.args[1] is True:
                true_lit = C_bytes(c_.args)
        v = ok_value(r)
        table[true_lit] = v.v if isinstance(v, K) else M.outcome(r)
    want = {b"ON": True, b"OFF": False, None: "Err(IllegalParameterValue)"}
    if not (good and table == want):
        # the keywords are not an if-chain of comparisons (e.g. a table that is searched): decide the same table by folding the
        # conversion on character data - the two keywords in every letter case, near misses and other texts
        feng = C.fold_engine("dflt", "scpi")
        import itertools
        t2, good2 = {}, True
        texts = {b"ON": [bytes(x) for x in itertools.product(b"Oo", b"Nn")], b"OFF": [bytes(x) for x in itertools.product(b"Oo", b"Ff", b"Ff")],
                 None: [b"", b"O", b"N", b"OF", b"ONN", b"OFFF", b"ONE", b"NO", b"FFO", b"0N", b"ON1", b"OFF0", b"TRUE", b"FALSE", b"MAX", b"MIN", b"DEF", b"ONOFF", b"O_N", b"\xcfN"]}
        for kw, tx in texts.items():
            got = set()
            for text in tx:
                rs = C.fold_character(feng, b, text) or []
                if len(rs) != 1:
                    good2 = False
                    continue
                v = ok_value(rs[0])
                got.add(v.v if isinstance(v, K) else M.outcome(rs[0]))
            if len(got) == 1:
                t2[kw] = got.pop()
            else:
                good2 = False
        if (good2 and t2 == want) or set(table) <= {None}:
            good, table = good2, t2
    R.check(good and table == want, "R08.4", "bool:character", "ON -> true, OFF -> false (ASCII case-insensitive), other character data -> -224", "boolean keyword table is %s" % table, where=b.span)
    res = eng2.run(b, [M.token(eng2, "DecimalNumericProgramData")])
    good = bool(res)
    delegates = set()
    for r in res:
        conv = [e for e in r.trace if e.kind == "call" and e.name.endswith("TryFrom::try_from")]
        if len(conv) != 1:
            good = False
            continue
        st_ = (conv[0].extra or {}).get("self_ty") or ""
        g = (conv[0].extra or {}).get("gargs") or ()
        delegates |= {x for x in ([st_] + list(g[:1])) if x in C.INTS}
        if not (st_ in C.INTS or (g and g[0] in C.INTS)) or "DecimalNumericProgramData" not in repr(conv[0].args[0]):
            good = False
        if ok_value(r) is None and not M.outcome(r).startswith("Err("):
            good = False
    # what the boolean conversion makes of each answer of the integer conversion it delegates to - decided by result, not by
    # the shape of the code: n -> n != 0; "too large for the integer type" -> true (a magnitude beyond every integer
    # still rounds to non-zero, defect F22); any other error -> that error
    def m_delegate(eng_, st, fr, t, name, rname, args):
        return st.extra["delegate"] if "delegate" in st.extra else NotImplemented
    eng3 = fdai.Engine(P, u, inline=lambda n, r: r in D.INLINE_SMALL or "is_data" in r or r.startswith(("scpi::error::", "<scpi::error::", "<error::")) or (r.startswith("<") and "error::" in r), models=dict(M.FOLD_MODELS, **{"core::convert::TryFrom::try_from": m_delegate, "core::convert::TryInto::try_into": m_delegate}))
    EC_ = "scpi::error::ErrorCode"
    def mk_error(code):
        rr = eng3.run(u.body("scpi::error::Error::new"), [EnumV(EC_, code, eng3.variant_discr(EC_, code))])
        return rr[0].retval if len(rr) == 1 and rr[0].outcome == "return" else None
    rows = [("0", fdai.mk_ok(K(0)), False), ("1", fdai.mk_ok(K(1)), True), ("-1", fdai.mk_ok(K(-1)), True), ("255", fdai.mk_ok(K(255)), True), ("isize::MIN", fdai.mk_ok(K(-2 ** 63)), True)]
    for code in ("DataOutOfRange", "NumericDataError", "InvalidCharacterInNumber", "ExponentTooLarge"):
        ev = mk_error(code)
        rows.append(("Err(%s)" % code, fdai.mk_err(ev) if ev is not None else None, True if code == "DataOutOfRange" else "Err(%s)" % code))
    badb = []
    for label, answer, exp in rows:
        if answer is None:
            badb.append("%s: cannot construct the error value" % label)
            continue
        st3 = fdai.State()
        st3.extra["delegate"] = answer
        try:
            rr = eng3.run(b, [M.token(eng3, "DecimalNumericProgramData")], st3)
        except (fdai.TooManyPaths, RecursionError) as e:
            badb.append("%s: undecided (%s)" % (label, type(e).__name__))
            continue
        gotv = []
        for r in rr:
            v = ok_value(r)
            gotv.append(v.v if isinstance(v, K) else M.outcome(r))
        if gotv != [exp]:
            badb.append("integer conversion answers %s: boolean is %s, expected %s" % (label, gotv, exp))
    good = good and not badb
    R.check(good, "R08.4", "bool:numeric", "numeric -> (integer conversion, i.e. rounded) != 0; a magnitude beyond the integer type is true; any other error is passed on (%d answers of the delegate evaluated)" % len(rows), "a numeric boolean must be the rounded integer conversion compared with 0: %s" % (badb[:3] or [D.PathInfo(r).describe() for r in res]), where=b.span)
    # "rounded" is a statement about the integer conversion the boolean one hands the number to: every NR1/NR2/NR3 form
    # must reach its rounding fallback. That conversion's own rules (C07: float fallback shape, endpoints, error map)
    # are evaluated for the delegate type here, so that a change to the shared integer macro that changes what a
    # boolean accepts is reported under this property too.
    if len(delegates) == 1:
        from . import c07
        c07.run(c07.Renamed(R, "R08.4", "bool:delegate:"), tier, only=delegates, project=lambda n: n != 0)
    else:
        R.violation("R08.4", "bool:delegate", "the boolean conversion does not hand numbers to exactly one integer conversion: %s" % sorted(delegates))
    casts = [st["rv"]["kind"] for m in b.all_mirs() for bi in m.live_blocks() for st in m.blocks[bi]["stmts"] if st["k"] == "assign" and st["rv"]["k"] == "cast" and st["rv"]["kind"] in ("FloatToInt", "FloatToFloat", "IntToInt")]
    R.check(not casts, "R08.4", "bool:no-cast", "no truncating cast in the boolean conversion", "boolean conversion contains a %s cast (truncation instead of rounding)" % casts[:1], where=b.span)

    # ---- R08.6 typed echo tables: floats (answered as bit patterns), booleans and their accept lists, end to end --------------------
    from . import echotable as ET
    ET.check(R, "R08.6", "floats", tier, "`*F32?` / `*F64?` / `*BOOL?` through Node::run on the echo witness: decimal literals around the largest and smallest values of each width, halfway cases, negative zero, overflow to infinity, the keywords in short and long form and look-alikes, ON / OFF in any case, numbers that round to zero or not (incl. beyond every integer), every other element type refused", 100)
