"""C14 - every error code maps to the ESR bit of its IEEE 488.2 class."""
import json, os
from .. import facts, intervals, fdai, sym
from ..report import VERIF
from ..fdai import EnumV, AggV, K, SymV, RefV, Cell, TOP
from .. import scpi_models as M

LEVEL = "proof"
TECHNIQUE = "exhaustive interval abstract interpretation of ErrorCode::esr_mask over all 65536 error numbers (bisection-refined decision table) + table extraction from the derive-generated get_code/get_error/get_message bodies compared with the SCPI-99 error list + constructed-ErrorCode census per module + FDAI tables of the fixed-capacity formatter's fallible methods under the container contract (every failure in the execution class) and value tables of the ChannelSpec conversions (malformed -> command class, unrepresentable -> execution class); get_error evaluated on every standard code, its neighbours and the range edges"
LEVEL_TEXT = "Proof over a finite domain: the interval abstract interpreter yields an exact decision table of ErrorCode::esr_mask for all 65536 error numbers (every input interval is analysed, undecided comparisons are refined by bisection) and each number's result is compared with the IEEE 488.2 / SCPI-99 class table; the derive-generated code/message/lookup tables are extracted per variant and compared with the SCPI-99 list, and every ErrorCode the library constructs is classified."
LEVEL_NOTE = "Trusted: rustc's MIR for the analysed functions, the extractor, the transcription of the SCPI-99 list in oracle/errors.json. Not decided: errors returned by user handlers (only library-constructed codes are classified)."

EC = "scpi::error::ErrorCode"


def oracle():
    return json.load(open(os.path.join(VERIF, "oracle", "errors.json")))


def expected_mask(o, v):
    for c in o["classes"]:
        if c["lo"] <= v <= c["hi"]:
            return c["mask"]
    return o["default_mask"]


def variant_table(R, eng, u, body_name, rule):
    """Run the derive-generated `fn(self)` for every ErrorCode variant; returns {variant: value}"""
    b = u.body(body_name)
    table = eng.enum_tables[EC]
    out = {}
    for d, name in sorted(table.items()):
        fields = {0: fdai.SymV(-1, "custom-code"), 1: fdai.SymV(-2, "custom-msg")} if name == "Custom" else {}
        res = eng.run(b, [fdai.EnumV(EC, name, d, fields)])
        if len(res) != 1 or res[0].outcome != "return":
            R.violation(rule, "%s(%s)" % (body_name, name), "expected exactly one returning path, got %s" % [r.outcome for r in res])
            continue
        out[name] = res[0].retval
    return out


def exhaustive_table(P, u, b):
    """esr_mask folded by the FDAI engine on every i16 (get_code answered with the number, helpers of the error module in
    place) -> [(lo, hi, ("iv", m, m))] runs of equal results, or None when some number cannot be folded"""
    from .. import scpi_models as M2
    ms = dict(M2.FOLD_MODELS)

    def m_get_code(eng_, st, fr, t, name, rname, args):
        return K(st.extra["code"])
    ms["scpi::error::ErrorCode::get_code"] = m_get_code
    eng = fdai.Engine(P, u, inline=lambda n, r: r.startswith("scpi::error::") and not r.endswith("ErrorCode::get_code"), models=ms, loop_limit=64, max_paths=4, max_depth=10)
    runs = []
    for v in range(-32768, 32768):
        st = fdai.State()
        st.extra["code"] = v
        try:
            rs = eng.run(b, [RefV(Cell(fdai.SymV("self", "self"), "self"))], st)
        except (fdai.TooManyPaths, RecursionError):
            return None
        if len(rs) != 1 or rs[0].outcome != "return" or not isinstance(rs[0].retval, K):
            return None
        m = rs[0].retval.v
        if runs and runs[-1][2] == m and runs[-1][1] == v - 1:
            runs[-1][1] = v
        else:
            runs.append([v, v, m])
    return [(lo, hi, ("iv", m, m)) for lo, hi, m in runs]


def run(R, tier):
    o = oracle()
    P = facts.program("dflt")
    R.configs.append("dflt")
    u = P.unit("scpi")
    eng = fdai.Engine(P, u, inline=lambda n, r: False)

    # ---- R14.1 class table, all 65536 numbers ----------------------------------------------------
    b = u.body("scpi::error::ErrorCode::esr_mask")
    getcode_calls = [c for c in b.calls() if c.name.endswith("ErrorCode::get_code")]
    if len(getcode_calls) != 1:
        R.anchor_lost("R14.1", "esr_mask must obtain the number through exactly one ErrorCode::get_code call (found %d)" % len(getcode_calls))
    else:
        cur = {}

        def model(term, args):
            p = term["callee"].get("path", "")
            if p.endswith("ErrorCode::get_code"):
                return cur["x"]
            # a helper of the error module (e.g. the range match split out of esr_mask): analysed in place
            rn = u.qualify(facts.strip_generics(term["callee"].get("resolved") or p), term["callee"].get("resolved_krate") or term["callee"].get("krate"))
            hb = next((x for x in u.bodies if x.npath == rn and x.kind in ("Fn", "AssocFn") and not x.in_trait), None)
            if hb is not None and rn.startswith("scpi::error::") and len(cur.get("stack", ())) < 4:
                cur["stack"] = cur.get("stack", ()) + (rn,)
                try:
                    return intervals.Interp(hb.mir, model).run({i + 1: a for i, a in enumerate(args)})
                finally:
                    cur["stack"] = cur["stack"][:-1]
            return None

        def mk(x):
            cur["x"] = x
            return {}

        try:
            table, evals = intervals.decision_table(b.mir, mk, -32768, 32767, model)
        except (intervals.Unsupported, intervals.Undecided) as e:
            # the interval interpreter does not know a construct the function uses (a lookup table, an adaptor chain ...):
            # decide the same 65 536 numbers by folding the function on every one of them
            table = exhaustive_table(P, u, b)
            if table is None:
                R.violation("R14.1", "esr_mask:undecidable", "neither the interval analysis (%s) nor constant folding on every number can decide esr_mask; failing closed" % e, where=b.span)
            else:
                evals = 65536
                R.note("R14.1 decided by folding esr_mask on each of the 65536 numbers (interval analysis: %s)" % e) if hasattr(R, "note") else None
        if table is not None:
            R.count("esr_mask_intervals", len(table))
            R.count("esr_mask_interval_evaluations", evals)
            bad = []
            covered = 0
            for lo, hi, r in table:
                for v in range(lo, hi + 1):
                    covered += 1
                    exp = expected_mask(o, v)
                    if not (r[0] == "iv" and r[1] == r[2] == exp):
                        bad.append((v, r, exp))
            R.count("error_numbers_checked", covered)
            # one obligation per maximal run of numbers with the same expected class
            runs = []
            for c in o["classes"]:
                runs.append((c["lo"], c["hi"], c["mask"], c["name"]))
            runs.append((-32768, -900, o["default_mask"], "unclassified negative -> device-specific (bit 3)"))
            runs.append((1, 32767, o["default_mask"], "positive -> device-specific (bit 3)"))
            for lo, hi, mask, nm in runs:
                b_ = [x for x in bad if lo <= x[0] <= hi]
                R.check(not b_, "R14.1", "esr_mask[%d..%d]" % (lo, hi), "all %d numbers map to 0x%02x (%s)" % (hi - lo + 1, mask, nm),
                        "numbers %s map to %s, expected 0x%02x (%s)" % ([x[0] for x in b_[:6]], [x[1] for x in b_[:3]], mask, nm), where=b.span)
            R.check(covered == 65536, "R14.1", "esr_mask:coverage", "decision table covers all 65536 values in %d intervals" % len(table), "table covers %d values" % covered)
            R.sample({"rule": "R14.1", "decision_table": [[lo, hi, r[1] if r[0] == "iv" else str(r)] for lo, hi, r in table]})
            R.exhaustive = True

    # ---- R14.4 Error::esr_mask delegates -----------------------------------------------------------
    eb = u.body("scpi::error::Error::esr_mask")
    S = sym.Sym(eb.mir)
    rets = S.local(0)
    ok = rets[0] == "call" and rets[1].endswith("ErrorCode::esr_mask") and sym.norm(rets[3][0]) == ("field", ("arg", 1, "self"), "0")
    R.check(ok, "R14.4", "Error::esr_mask", "returns ErrorCode::esr_mask(&self.0)", "Error::esr_mask is not a plain delegation to ErrorCode::esr_mask(&self.0): %s" % sym.show(rets), where=eb.span)
    # Error::get_code delegates
    gb = u.body("scpi::error::Error::get_code")
    g = sym.Sym(gb.mir).local(0)
    ok = g[0] == "call" and g[1].endswith("ErrorCode::get_code") and sym.norm(g[3][0]) == ("field", ("arg", 1, "self"), "0")
    R.check(ok, "R14.4", "Error::get_code", "returns ErrorCode::get_code(self.0)", "Error::get_code does not return the code of its ErrorCode: %s" % sym.show(g), where=gb.span)

    # ---- R14.2 / R14.3 derive-generated tables ---------------------------------------------------------
    by_variant = {e["variant"]: e for e in o["errors"]}
    table = eng.enum_tables[EC]
    names = set(table.values())
    R.check(names == set(by_variant) | {"Custom"}, "R14.2", "variants", "%d standard variants + Custom" % len(by_variant),
            "variant set differs from the SCPI-99 list: missing %s, extra %s" % (sorted(set(by_variant) - names), sorted(names - set(by_variant) - {"Custom"})))
    codes = variant_table(R, eng, u, "scpi::error::ErrorCode::get_code", "R14.2")
    code_of = {}
    for name, v in codes.items():
        if name == "Custom":
            R.check(isinstance(v, fdai.SymV) and v.id == -1, "R14.3", "get_code(Custom)", "passes the custom number through", "Custom(c, m).get_code() is %r, not c" % (v,))
            continue
        exp = by_variant.get(name)
        got = v.v if isinstance(v, fdai.K) else None
        code_of[name] = got
        if exp is not None:
            R.check(got == exp["code"], "R14.2", "get_code(%s)" % name, "= %s" % got, "get_code(%s) = %r, SCPI-99 says %d" % (name, v, exp["code"]))
    vals = [c for c in code_of.values() if c is not None]
    R.check(len(vals) == len(set(vals)), "R14.2", "get_code:injective", "%d distinct codes" % len(set(vals)), "two variants share a code")
    msgs = variant_table(R, eng, u, "scpi::error::ErrorCode::get_message", "R14.2")
    for name, v in msgs.items():
        if name == "Custom":
            R.check(isinstance(v, fdai.SymV) and v.id == -2, "R14.3", "get_message(Custom)", "passes the custom message through", "Custom(c, m).get_message() is %r, not m" % (v,))
            continue
        got = None
        if isinstance(v, fdai.RefV):
            inner = fdai.load(fdai.Loc(v.cell, v.path))
            if isinstance(inner, fdai.BytesV):
                got = inner.b.decode("latin1")
        exp = by_variant.get(name)
        if exp is not None:
            R.check(got == exp["message"], "R14.2", "get_message(%s)" % name, "= %r" % got, "get_message(%s) = %r, SCPI-99 says %r" % (name, got, exp["message"]))
    # get_error: code -> variant; inverse of get_code on the standard variants, None elsewhere
    ge = u.body("scpi::error::ErrorCode::get_error")
    # decided by evaluating the function on every standard code, on the numbers next to each of them and on the edges
    # of the 16-bit range - however the lookup is organised (one switch, a range test in front of it, a table ...)
    probes = set(code_of.values())
    for c in list(probes):
        probes |= {c - 1, c + 1}
    probes |= {0, 1, -1, 32767, -32768, -32767, 100, -99, -900, -899, 12345}
    probes = sorted(x for x in probes if -32768 <= x <= 32767)
    seen = {}
    undecided = []
    eng_ge = fdai.Engine(P, u, inline=lambda n, r: False, models=dict(M.FOLD_MODELS), loop_limit=400, max_paths=8)
    for v in probes:
        try:
            res = eng_ge.run(ge, [fdai.K(v)])
        except (fdai.TooManyPaths, RecursionError):
            res = []
        r = res[0].retval if len(res) == 1 and res[0].outcome == "return" else None
        if isinstance(r, fdai.EnumV) and r.name == "Some" and isinstance(r.fields.get(0), fdai.EnumV):
            seen[v] = r.fields[0].name
        elif isinstance(r, fdai.EnumV) and r.name == "None":
            seen[v] = None
        else:
            undecided.append(v)
    R.check(not undecided, "R14.2", "get_error:decided", "get_error evaluated on %d numbers" % len(probes), "get_error cannot be evaluated for %s" % undecided[:6], where=ge.span)
    for name, code in sorted(code_of.items()):
        R.check(seen.get(code) == name, "R14.2", "get_error(%s)" % name, "get_error(%s) = Some(%s)" % (code, name), "get_error(%r) = %r, expected Some(%s): looking the code up does not yield the error that reports it" % (code, seen.get(code), name), where=ge.span)
    extra = sorted(v for v, n_ in seen.items() if n_ is not None and v not in set(code_of.values()))
    R.check(not extra, "R14.2", "get_error:extra", "no number outside the table maps to a variant (%d neighbours and edge values give None)" % sum(1 for v, n_ in seen.items() if n_ is None), "numbers %s map to a variant that does not report them" % extra, where=ge.span)
    R.floor("R14.2", "standard variants checked", len(code_of), 122)

    # ---- R14.5 errors raised by the library itself, by class ----------------------------------------------
    execution = {"DataOutOfRange", "IllegalParameterValue", "OutOfMemory", "ExecutionError"}
    device_specific_ok = {"DeviceSpecificError"}
    n_sites = 0
    for unit_name in ("scpi", "scpi_contrib"):
        uu = P.unit(unit_name)
        for body in uu.bodies:
            if body.npath.endswith(("ErrorCode::get_error", "ErrorCode::get_code", "ErrorCode::get_message")) or any(t in body.npath for t in ("ErrorCode::get_error::", "ErrorCode::get_code::", "ErrorCode::get_message::")) or "core::fmt::Debug" in (body.impl_trait or "") or "core::clone::Clone" in (body.impl_trait or "") or "core::cmp::PartialEq" in (body.impl_trait or ""):
                continue
            for mir in body.all_mirs():
                for bi in mir.live_blocks():
                    for st in mir.blocks[bi]["stmts"]:
                        if st["k"] != "assign" or st["rv"]["k"] != "aggr" or st["rv"].get("agg") != "adt":
                            continue
                        adt = uu.qualify(st["rv"]["adt"], uu.crate if not st["rv"]["adt"].startswith("scpi") else None)
                        if not adt.endswith("error::ErrorCode"):
                            continue
                        var = st["rv"]["variant"]
                        if var == "Custom":
                            continue
                        n_sites += 1
                        code = code_of.get(var)
                        if code is None:
                            continue
                        mask = expected_mask(o, code)
                        key = "%s:%s" % (body.npath, var)
                        mac = st.get("mac") or []
                        if var in device_specific_ok:
                            okk = ("parser_unreachable" in mac) or "format_response_data" in body.npath
                            if not okk:
                                from . import dispatch as D_
                                roots = tuple(sorted({x.npath for un in P.units for x in un.bodies if "format_response_data" in x.npath}))
                                okk = D_.only_reached_from(P, body.npath, roots)
                            R.check(okk, "R14.5", key, "device-specific error only in parser_unreachable! / empty-list response", "DeviceSpecificError (-300) constructed outside parser_unreachable!/empty list: the library's own internal error would surface for user input", where=st.get("line"))
                        elif var in execution:
                            R.check(mask == 0x10, "R14.5", key, "value fault -> execution error class", "value-fault error %s has code %s outside the execution-error class" % (var, code), where=st.get("line"))
                        elif var in ("NoError", "OperationComplete", "QueueOverflow"):
                            R.ok("R14.5", key, "status/queue event %s" % var)
                        elif unit_name == "scpi":
                            R.check(mask == 0x20, "R14.5", key, "syntax/header/type fault -> command error class", "%s (code %s) raised by the parser is not in the command-error class" % (var, code), where=st.get("line"))
    R.floor("R14.5", "ErrorCode construction sites", n_sites, 100)
    # value faults reported by the number parser (too large / too small for the target) are execution errors
    from . import convert as CV
    n_conv = 0
    for ty, b in CV.conversions(u):
        if ty not in CV.INTS and ty not in CV.FLOATS:
            continue
        n_conv += 1
        emap = CV.error_map("dflt", "scpi", b)
        for vn in ("Overflow", "Underflow"):
            codes = set()
            for oc in emap.get(vn, ()):  # outcome strings "Err(Name)"
                nm = oc[4:-1] if oc.startswith("Err(") else oc
                codes.add(nm)
            masks = {expected_mask(o, code_of[c]) if c in code_of and code_of[c] is not None else None for c in codes}
            R.check(masks == {0x10}, "R14.5", "numeric-%s:%s" % (vn.lower(), ty), "parser %s -> %s (execution error class)" % (vn, sorted(codes)), "a literal that is out of range for %s (%s) is reported as %s, which is not in the execution-error class" % (ty, vn, sorted(codes)), where=b.span)
    R.floor("R14.5", "numeric conversions", n_conv, 12)
    # ---- R14.6 an exhausted response buffer is an execution error (-2xx), whichever write hits the limit -------------------
    # The fixed-capacity formatter's fallible methods are interpreted with the container's documented contract
    # (try_push / try_extend_from_slice fail when the data does not fit); every error they can return - directly, through
    # a sibling method or through a From conversion of the container's error - must lie in the execution-error class.
    from . import c12 as Q
    ms = Q.container_models()

    def m_try_extend(eng_, st, fr, t, name, rname, args):
        # fits / does not fit, decided by the analysis state
        if st.extra.get("fits"):
            return fdai.mk_ok(fdai.UNIT)
        return fdai.mk_err(AggV("arrayvec::CapacityError", {0: fdai.UNIT}))

    def m_try_push(eng_, st, fr, t, name, rname, args):
        if st.extra.get("fits"):
            return fdai.mk_ok(fdai.UNIT)
        return fdai.mk_err(AggV("arrayvec::CapacityError", {0: args[1]}))

    def m_flag(v):
        def m(eng_, st, fr, t, name, rname, args):
            return K(v(st))
        return m
    ms.update({"arrayvec::ArrayVec::try_extend_from_slice": m_try_extend, "arrayvec::ArrayVec::try_push": m_try_push,
               "arrayvec::ArrayVec::is_empty": m_flag(lambda st: False), "arrayvec::ArrayVec::is_full": m_flag(lambda st: not st.extra.get("fits")),
               "arrayvec::ArrayVec::remaining_capacity": m_flag(lambda st: 1 if st.extra.get("fits") else 0)})
    feng = fdai.Engine(P, u, inline=lambda n, r: r.startswith(("scpi::error::", "<scpi::error::", "<error::", "scpi::parser::response::")) or ("parser::response::Formatter" in r and "ArrayVec" in r), models=ms, loop_limit=16, max_paths=64)
    n_f = 0
    n_err_total = 0
    fmethods = u.trait_methods_for("parser::response::Formatter", "arrayvec::ArrayVec")
    # calls a provided method makes on `self` go to this formatter's own methods
    for nm_, fb_ in fmethods.items():
        if not fb_.in_trait:
            feng.redirect["scpi::parser::response::Formatter::" + nm_] = fb_
    for fb in fmethods.values():
        if not str(fb.mir.locals[0].get("ty", "")).startswith("core::result::Result<"):
            continue
        n_f += 1
        bad = []
        n_err = 0
        for fits in (False, True):
            st0 = fdai.State()
            st0.extra["fits"] = fits
            try:
                rs = feng.run(fb, [RefV(Cell(TOP, "buf"), (), True)] + [SymV("arg%d" % i, "arg") for i in range(max(0, fb.mir.arg_count - 1))], st0)
            except (fdai.TooManyPaths, RecursionError) as e:
                bad.append("undecided (%s)" % type(e).__name__)
                continue
            for r in rs:
                if r.outcome != "return" or not (isinstance(r.retval, EnumV) and r.retval.name == "Err"):
                    continue
                n_err += 1
                codes = M.err_codes(r.retval)
                if not codes or any(c not in code_of or code_of[c] is None or expected_mask(o, code_of[c]) != 0x10 for c in codes):
                    bad.append("when the data does not fit the method fails with %s" % (sorted(codes) or M.outcome(r)))
        n_err_total += n_err
        R.check(not bad, "R14.6", "ArrayVec::" + fb.name, "every failure is an execution-class error (%d failing paths)" % n_err, "; ".join(sorted(set(bad))[:3]), where=fb.span)
    R.floor("R14.6", "fallible methods of the fixed-capacity formatter", n_f, 4)
    R.floor("R14.6", "failing paths of the fixed-capacity formatter", n_err_total, 4)
    # ---- R14.7 channel specs: a malformed spec is a command error, a well-formed number the target cannot hold a value fault --
    from . import chanspec as CS
    tab = CS.table(tier == "thorough")
    per = {}
    for (ty, txt), (got, ref, cb) in sorted(tab.items(), key=lambda kv: (kv[0][0], kv[0][1])):
        if ref[0] != "Err":
            continue
        want = 0x20 if ref[1] == "syntax" else 0x10
        d = per.setdefault(ty, {"n": 0, "bad": [], "body": cb})
        d["n"] += 1
        if got[0] != "Err" or not got[1]:
            d["bad"].append("%r: %s, expected %s error" % (txt, got, "a command" if want == 0x20 else "an execution"))
        elif any(c not in code_of or code_of[c] is None or expected_mask(o, code_of[c]) != want for c in got[1]):
            d["bad"].append("%r (%s) fails with %s, which is not in the %s class" % (txt, "wrong number of dimensions" if ref[1] == "syntax" else "a number the type cannot hold", sorted(got[1]), "command-error" if want == 0x20 else "execution-error"))
    for ty, d in sorted(per.items()):
        R.check(not d["bad"], "R14.7", "channel-spec:%s" % ty, "wrong dimension count -> command error, unrepresentable number -> execution error (%d refused specs)" % d["n"], "; ".join(d["bad"][:3]), where=d["body"].span)
    R.floor("R14.7", "ChannelSpec conversions", len(per), 6)
    # ---- R14.8 malformed messages end to end: whichever layer refuses them, the error is in the command-error class ----------------
    from . import msgtable as MT
    MT.check(R, "R14.8", "corrupt", tier, "single-point corruptions of well-formed messages (misplaced separators, data glued to a header, over-long elements, unterminated / truncated data, non-ASCII bytes) run through Node::run: the error returned and handed to the hook lies in -100..-199", 90)
    R.trust("SCPI-99 error list as transcribed in oracle/errors.json")
    R.assume("user handlers may return any Error; only errors constructed by the library are classified (R14.5)")
