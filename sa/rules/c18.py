"""C18 - unit suffixes scale by their SCPI multiplier; unknown suffixes are rejected."""
import json, os
from .. import facts, fdai, scpi_models as M, sym
from . import contrib as CB_
from ..fdai import EnumV, AggV, K, SymV, RefV, Cell, Loc, TOP, load, snapshot
from ..report import VERIF
from . import dispatch as D, convert as CV, contrib as CB
from .c08 import C_bytes, quantity_kind

LEVEL = "other"
TECHNIQUE = "folded decision tables: each of the 14 quantity conversions (and the decibel and amplitude wrappers) is interpreted by the FDAI engine on concrete (number, suffix) elements - every suffix spelling the conversion itself lists, every suffix derivable from the SCPI-99 multiplier table for the quantity, in three letter cases, plus foreign texts - and the uom unit type reached (generic argument of Quantity::new) is compared with the unit the multiplier rule assigns (M = milli, MA = mega, MHZ/MOHM exceptions, named units); base unit for bare numbers; element-type rows; the number handed on must be the token's own numeric part; the element type's float conversion obeys C08's delegation rule; multiplier rule for a prefix in front of a named unit; decibel conversions folded on every dB suffix in three letter cases and on near misses"
LEVEL_TEXT = "For every suffix text probed the conversion's result is computed from its MIR: a listed suffix must reach exactly one unit in any letter case and that unit must be the one SCPI-99's multiplier rule assigns; every other text must be rejected with -224; non-numeric elements with -104; the numeric part reaches the value conversion unchanged. Amplitude specifiers (PK/PP/RMS, any case) select the variant and are stripped; dB suffixes select the logarithmic form with the right reference unit."
LEVEL_NOTE = "Not decided: uom's conversion coefficients themselves (trusted); float rounding of the scaled value. Suffixes the crate defines beyond SCPI-99's table are reported only if they contradict the multiplier rule. Trusted: rustc MIR, FDAI models, uom unit type names."


def oracle():
    return json.load(open(os.path.join(VERIF, "oracle", "suffix.json")))


def expected_unit(o, quantity, suffix):
    q = o["quantities"].get(quantity)
    if q is None:
        return None
    s = suffix.upper()
    if s in o["exceptions"]:
        return o["exceptions"][s]
    if s in q["named"]:
        return q["named"][s]
    for root, word in sorted(q["roots"].items(), key=lambda kv: -len(kv[0])):
        if s.endswith(root):
            pre = s[: len(s) - len(root)]
            if pre in o["multipliers"]:
                return o["multipliers"][pre] + word
    # a multiplier in front of a named unit of the quantity (MWH = M + WH): the same multiplier rule, M = milli, MA = mega
    prefixed = tuple(v for k, v in o["multipliers"].items() if k)
    for pre in sorted((k for k in o["multipliers"] if k), key=lambda k: -len(k)):
        rest = s[len(pre):]
        if s.startswith(pre) and rest in q["named"] and not q["named"][rest].startswith(prefixed):
            return o["multipliers"][pre] + q["named"][rest]
    return None


def suffix_paths(eng, body):
    """paths of a unit conversion on a suffixed number: yields (literal assumed equal | None, path)"""
    tok = M.token(eng, "DecimalNumericSuffixProgramData")
    res = eng.run(body, [tok])
    out = []
    for r in res:
        calls = [e for e in r.trace if e.kind == "call" and e.name.endswith("eq_ignore_ascii_case")]
        other_cmp = [e for e in r.trace if e.kind == "call" and (e.name.split("::")[-1] in ("eq", "ne", "starts_with", "ends_with", "strip_suffix", "strip_prefix", "contains") and "[u8]" in repr((e.extra or {}).get("gargs")) + repr((e.extra or {}).get("self_ty")))]
        asg = [e for e in r.trace if e.kind == "assume" and e.name == "sym" and isinstance(e.args[0][2], tuple) and e.args[0][2][0] == "ret" and e.args[0][2][1].endswith("eq_ignore_ascii_case")]
        lit = None
        ok = len(calls) == len(asg)
        for c, a in zip(calls, asg):
            if not CB_.holds(c.args, "tok-DecimalNumericSuffixProgramData-1"):
                ok = False
            if a.args[1] is True:
                lit = C_bytes(c.args)
        out.append((lit, r, ok and not other_cmp, [C_bytes(c.args) for c in calls]))
    return out


def unit_of(r):
    news = [e for e in r.trace if e.kind == "call" and e.name.split("::")[-1] == "new" and "Quantity" in e.name]
    if len(news) != 1:
        return None, None
    g = (news[0].extra or {}).get("gargs") or ()
    unit = [x for x in g if x.startswith("uom::si::") and x.split("::")[-1][:1].islower()]
    return (unit[-1] if unit else None), news[0]


def run(R, tier):
    R.configs.append("dflt")
    o = oracle()
    P = D.prog()
    u = P.unit("scpi")
    eng = CV.engine("dflt", "scpi")
    quantities = {}
    dbs = {}
    for ty, b in CV.conversions(u):
        q = quantity_kind(b)
        if q is None:
            continue
        if "Db<" in ty:
            dbs[q] = b
        else:
            quantities[q] = b
    R.floor("R18.1", "unit quantities", len(quantities), 14)
    n_entries = 0
    feng = CV.fold_engine("dflt", "scpi")
    for q, b in sorted(quantities.items()):
        oq = o["quantities"].get(q)
        if oq is None:
            R.violation("R18.1", "quantity:" + q, "quantity %s has no row in the SCPI-99 oracle" % q)
            continue
        # suffix spellings the code itself knows (byte-string constants of the conversion and its helpers' call sites)
        lits = set()
        # (the conversion itself and the closures it creates - a suffix table handed to a shared helper as a closure)
        own_bodies = [b] + [c_ for c_ in u.bodies if c_.kind == "Closure" and (c_.npath.startswith(b.npath + "::{closure") or c_.path.startswith(b.path + "::{closure"))]
        for m_ in [m2_ for bb_ in own_bodies for m2_ in bb_.all_mirs()]:
            for bi in m_.live_blocks():
                blk = m_.blocks[bi]
                ops = []
                for st in blk["stmts"]:
                    if st["k"] == "assign":
                        ops.extend(_rv_operands(st["rv"]))
                if blk["term"]["k"] == "call":
                    ops.extend(blk["term"]["args"])
                for o_ in ops:
                    if o_["k"] == "const" and "bytes" in o_["c"]:
                        t_ = bytes(o_["c"]["bytes"])
                        if t_ and t_.isalnum():
                            lits.add(t_.upper())
        derived = set()
        for root in oq["roots"]:
            for pre in o["multipliers"]:
                derived.add((pre + root).encode())
        for nm in oq["named"]:
            derived.add(nm.encode())
        for ex_, unit_ in o["exceptions"].items():
            if unit_.endswith(tuple(oq["roots"].values())) or any(ex_.endswith(r_) for r_ in oq["roots"]):
                derived.add(ex_.encode())
        seen = {}
        bad_match = []
        bad_num = []
        # candidates that are NOT suffixes of the quantity: every proper prefix of a defined suffix and every defined
        # suffix with a letter appended (a matcher that treats part of the pattern as optional, or that compares prefixes,
        # accepts them - seed C18-J), next to the two unrelated texts
        known_ = {x.upper() for x in (lits | derived)}
        near = set()
        for t_ in sorted(lits | derived):
            for k_ in range(1, len(t_)):
                near.add(t_[:k_])
            near.add(t_ + b"X")
            near.add(t_ + b"Z")
        near = sorted(x for x in near if x.upper() not in known_ and len(x) <= 12)
        for text in sorted(lits | derived) + [b"XYZ", b"Q"] + near:
            for variant in (text, text.lower(), text[:1] + text[1:].lower()):
                tok = M.token(feng, "DecimalNumericSuffixProgramData", [RefV(Cell(fdai.BytesV(b"1.5"), "num")), RefV(Cell(fdai.BytesV(variant), "suffix"))])
                try:
                    res = feng.run(b, [tok])
                except (fdai.TooManyPaths, RecursionError):
                    bad_match.append("%r: undecided" % variant)
                    continue
                units = set()
                for r in res:
                    unit, newc = unit_of(r)
                    if unit:
                        units.add(unit)
                        conv = [e for e in r.trace if e.kind == "call" and e.name.endswith("TryFrom::try_from")]
                        if not (len(conv) == 1 and "DecimalNumericProgramData" in repr(conv[0].args[0]) and _all_bytes(conv[0].args[0]) == [b"1.5"]):
                            bad_num.append(variant.decode())
                ocs = {M.outcome(r) for r in res}
                if text in lits:
                    if len(units) != 1 or not ocs <= {"Ok", "Err(?)"}:
                        bad_match.append("%r (a suffix the conversion lists): %s" % (variant, sorted(ocs)))
                    else:
                        seen.setdefault(text.decode(), set()).update(units)
                else:
                    if units or ocs != {"Err(IllegalParameterValue)"}:
                        if text in derived and units:
                            seen.setdefault(text.decode(), set()).update(units)
                        else:
                            bad_match.append("%r (not a suffix of %s): %s" % (variant, q, sorted(ocs)))
        for suf, units in sorted(seen.items()):
            n_entries += 1
            exp = expected_unit(o, q, suf)
            got = sorted(x.split("::")[-1] for x in units)
            qmods = {x.split("::")[-2] for x in units}
            if exp is None:
                R.ok("R18.1", "%s:%s" % (q, suf), "%s (suffix not derivable from SCPI-99's table; informational)" % got)
                continue
            R.check(got == [exp] and qmods == {q}, "R18.1", "%s:%s" % (q, suf), "-> %s (in any letter case)" % exp, "suffix %s of %s maps to %s; SCPI-99 multiplier rule (M = milli, MA = mega; MHZ/MOHM = mega) gives %s" % (suf, q, got, exp), where=b.span)
        R.check(not bad_num, "R18.6", "%s:number" % q, "the number scaled is the token's own numeric part, converted as a plain decimal element", "the numeric part is altered before conversion for suffixes %s" % sorted(set(bad_num))[:5], where=b.span)
        R.check(not bad_match, "R18.3", "%s:matching" % q, "listed suffixes are accepted in any letter case; anything else is -224", "suffix matching of %s: %s" % (q, "; ".join(bad_match[:4])), where=b.span)
        # R18.2 bare number -> base unit
        res = eng.run(b, [M.token(eng, "DecimalNumericProgramData")])
        units = set()
        for r in res:
            unit, newc = unit_of(r)
            if unit:
                units.add(unit.split("::")[-1])
        R.check(units == {oq["base"]}, "R18.2", "%s:base" % q, "bare number -> %s" % oq["base"], "a number without suffix is taken as %s for %s, expected base unit %s" % (sorted(units), q, oq["base"]), where=b.span)
        # element types
        for name in M.DATA:
            if name in ("DecimalNumericProgramData", "DecimalNumericSuffixProgramData"):
                continue
            res = eng.run(b, [M.token(eng, name)])
            oc = {M.outcome(r) for r in res}
            R.check(oc == {"Err(DataTypeError)"}, "R18.3", "%s<-%s" % (q, name), "-104", "non-numeric element %s converted to %s yields %s instead of a data type error" % (name, q, sorted(oc)), where=b.span)
    R.floor("R18.1", "suffix table entries", n_entries, 70)

    # ---- R18.5 decibel tables ----------------------------------------------------------------------------
    n_db = 0
    for q, b in sorted(dbs.items()):
        oq = o["quantities"][q].get("db", {})
        seen = {}
        delegates = False
        not_whole = []
        for lit, r, ok, order in suffix_paths(eng, b):
            v = r.retval
            var = v.fields[0].name if isinstance(v, EnumV) and v.name == "Ok" and isinstance(v.fields.get(0), EnumV) else None
            if lit is None:
                # not a dB suffix: delegated to the linear conversion of the same token
                conv = [e for e in r.trace if e.kind == "call" and e.name.endswith("TryFrom::try_from")]
                a0 = conv[0].args[0] if len(conv) == 1 else None
                # the linear conversion must see the element as it came: number AND suffix (a token rebuilt from the
                # number alone would be scaled as the base unit and would accept undefined suffixes)
                whole = isinstance(a0, tuple) and len(a0) > 3 and a0[0] == "enum" and a0[2] == "DecimalNumericSuffixProgramData" and CB_.holds(a0, "tok-DecimalNumericSuffixProgramData-0") and CB_.holds(a0, "tok-DecimalNumericSuffixProgramData-1")
                if var == "Linear" and whole:
                    delegates = True
                elif var == "Linear":
                    not_whole.append(repr(a0)[:120])
                continue
            unit, newc = unit_of(r)
            if unit is None or var != "Logarithmic":
                continue
            conv = [e for e in r.trace if e.kind == "call" and e.name.endswith("TryFrom::try_from")]
            num_ok = len(conv) == 1 and CB_.holds(conv[0].args[0], "tok-DecimalNumericSuffixProgramData-0") and "try_from" in repr(snapshot(v.fields[0].fields.get(0)))
            seen[lit.decode()] = (unit.split("::")[-1], num_ok, "one" in repr(newc.args[0]))
        for suf, (unit, num_ok, one) in sorted(seen.items()):
            n_db += 1
            R.check(oq.get(suf) == unit and num_ok and one, "R18.5", "%s:%s" % (q, suf), "-> Logarithmic(number unchanged, reference 1 %s)" % unit, "decibel suffix %s of %s: reference unit %s (expected %s), number passed through unchanged: %s" % (suf, q, unit, oq.get(suf), num_ok), where=b.span)
        R.check(set(seen) == set(oq) and delegates and not not_whole, "R18.5", "%s:db-table" % q, "dB suffixes %s; anything else goes to the linear conversion" % sorted(seen), "decibel table of %s is %s, expected %s (other suffixes must be delegated to the linear conversion)" % (q, sorted(seen), sorted(oq)), where=b.span)
    # the same tables by folding each decibel conversion on concrete elements: every dB suffix of the quantity in three letter
    # cases -> Logarithmic with its reference unit, whatever its length (`DB` alone is the ratio's); the quantity's own linear
    # suffixes and near misses of the dB suffixes -> handed to the linear conversion (seed C18-O: a pre-check on the suffix's
    # length and first letters is invisible to the reading of the guard chain above)
    for q, b in sorted(dbs.items()):
        oq = o["quantities"][q].get("db", {})
        bad = []
        texts = [(sfx.encode(), unit_) for sfx, unit_ in sorted(oq.items())]
        for sfx, unit_ in texts:
            for variant in {sfx, sfx.lower(), sfx[:1] + sfx[1:].lower()}:
                tok = M.token(feng, "DecimalNumericSuffixProgramData", [RefV(Cell(fdai.BytesV(b"-3.5"), "num")), RefV(Cell(fdai.BytesV(variant), "suffix"))])
                try:
                    res = feng.run(b, [tok])
                except (fdai.TooManyPaths, RecursionError):
                    bad.append("%r: undecided" % variant)
                    continue
                oks = [r for r in res if M.outcome(r) == "Ok"]
                vars_ = {r.retval.fields[0].name for r in oks if isinstance(r.retval.fields.get(0), EnumV)}
                units_ = {(unit_of(r)[0] or "?").split("::")[-1] for r in oks}
                # the number handed to the element type's conversion is the token's own numeric part, as plain decimal data
                for r in oks:
                    conv = [e for e in r.trace if e.kind == "call" and e.name.endswith("TryFrom::try_from")]
                    if not (len(conv) == 1 and "DecimalNumericProgramData" in repr(conv[0].args[0]) and _all_bytes(conv[0].args[0]) == [b"-3.5"]):
                        bad.append("%r: the number is not handed on as it stands (%s)" % (variant, [repr(e.args[0])[:80] for e in conv]))
                if vars_ != {"Logarithmic"} or units_ != {unit_} or not all(M.outcome(r) in ("Ok", "Err(?)") for r in res):
                    bad.append("%r -> %s %s (%s), expected Logarithmic with reference %s" % (variant, sorted(vars_), sorted(units_), sorted({M.outcome(r) for r in res}), unit_))
        near = set()
        for sfx, _u in texts:
            near |= {sfx[:-1], sfx + b"X", b"D" + sfx[2:], sfx[1:]}
        near = sorted(x for x in near if x and x.upper() not in {t.upper() for t, _u in texts})
        for variant in near + [b"XYZ"]:
            tok = M.token(feng, "DecimalNumericSuffixProgramData", [RefV(Cell(fdai.BytesV(b"-3.5"), "num")), RefV(Cell(fdai.BytesV(variant), "suffix"))])
            try:
                res = feng.run(b, [tok])
            except (fdai.TooManyPaths, RecursionError):
                bad.append("%r: undecided" % variant)
                continue
            vars_ = {r.retval.fields[0].name for r in res if M.outcome(r) == "Ok" and isinstance(r.retval.fields.get(0), EnumV)}
            if "Logarithmic" in vars_:
                bad.append("%r is taken as a decibel suffix" % variant)
        R.check(not bad, "R18.5", "%s:db-folded" % q, "every dB suffix (%s) in three letter cases -> Logarithmic with its reference unit; %d near misses are not decibel suffixes" % (", ".join(sorted(oq)), len(near) + 1), "; ".join(bad[:4]), where=b.span)
    # a decibel parameter is a number with or without suffix: every other element type is refused here, not handed on to the
    # number type's conversion (which accepts MAXimum / MINimum / INFinity ... as character data - seed C18-K)
    for q, b in sorted(dbs.items()):
        for name in M.DATA:
            if name in ("DecimalNumericProgramData", "DecimalNumericSuffixProgramData"):
                continue
            res = eng.run(b, [M.token(eng, name)])
            oc = {M.outcome(r) for r in res}
            handed_on = any(e.kind == "call" and e.name.endswith(("TryFrom::try_from", "TryInto::try_into")) for r in res for e in r.trace)
            R.check(oc == {"Err(DataTypeError)"} and not handed_on, "R18.5", "Db<%s><-%s" % (q, name), "-104, decided by the decibel conversion itself", "non-numeric element %s converted to a decibel/linear %s yields %s%s instead of a data type error" % (name, q, sorted(oc), " (handed on to another conversion)" if handed_on else ""), where=b.span)
    R.floor("R18.5", "decibel entries", n_db, 10)

    # ---- R18.8 the number / suffix split is the lexer's: its whole-element table of decimal data (shared with C04 / C08) -------------
    from . import lexer as LX
    LX.check_elements(R, "R18.8", ("decimal",), tier == "thorough")

    # ---- R18.4 amplitude ---------------------------------------------------------------------------------------
    bs = [b for ty, b in CV.conversions(u) if "Amplitude<" in ty]
    if len(bs) != 1:
        R.anchor_lost("R18.4", "TryFrom<Token> for Amplitude")
        return
    b = bs[0]
    # The conversion is folded on concrete suffix texts: which Amplitude variant results and which (number, suffix)
    # pair is handed to the unit's own conversion - independent of how the specifier is recognised and stripped.
    from . import emit as E
    enga = fdai.Engine(P, u, inline=D.inline_inherent(("scpi::parser::suffix::",)), models=dict(M.FOLD_MODELS), loop_limit=16, max_paths=64)
    cases = []
    for unit_txt in (b"V", b"mV", b"A", b"", b"DBM", b"K"):
        for spec, var in ((b"", "None"), (b"PK", "Peak"), (b"pk", "Peak"), (b"Pk", "Peak"), (b"PP", "PeakToPeak"), (b"pP", "PeakToPeak"), (b"RMS", "Rms"), (b"rms", "Rms"), (b"rMs", "Rms")):
            cases.append((unit_txt + spec, var, unit_txt))
    # look-alikes that are not specifiers: the whole text goes to the unit conversion
    for t in (b"VP", b"VRM", b"VPKS", b"VMS", b"PKV", b"VPEAK"):
        cases.append((t, "None", t))
    bad = []
    for suffix, var, handed in cases:
        tok = M.token(enga, "DecimalNumericSuffixProgramData", [E.sl(b"1.5"), E.sl(suffix)])
        try:
            res = enga.run(b, [tok])
        except fdai.TooManyPaths:
            bad.append("%r: undecided" % suffix)
            continue
        oks = [r for r in res if M.outcome(r) == "Ok"]
        got = set()
        for r in oks:
            v = r.retval.fields.get(0)
            conv = [e for e in r.trace if e.kind == "call" and e.name.endswith("TryFrom::try_from")]
            inner = None
            if len(conv) == 1:
                bs_ = _all_bytes(conv[0].args[0])
                inner = tuple(bs_)
            got.add((v.name if isinstance(v, EnumV) else repr(v), inner))
        # the failing path of the inner conversion must surface as the unit's error
        errs = [r for r in res if M.outcome(r).startswith("Err(")]
        if got != {(var, (b"1.5", handed))} or not errs or len(oks) != 1 or any(r.outcome != "return" for r in res):
            bad.append("%r: %s, expected %s with (1.5, %r) handed to the unit conversion" % (suffix, sorted(got, key=repr) or [M.outcome(r) for r in res], var, handed))
    R.check(not bad, "R18.4", "Amplitude:table", "PK/PP/RMS in any letter case select Peak/PeakToPeak/Rms and are stripped before the unit conversion; anything else is Amplitude::None with the suffix untouched; the number is never altered (%d suffix texts)" % len(cases), "; ".join(bad[:4]), where=b.span)
    for name in M.DATA:
        if name == "DecimalNumericSuffixProgramData":
            continue
        res = enga.run(b, [M.token(enga, name)])
        conv_ok = all(len([e for e in r.trace if e.kind == "call" and e.name.endswith("TryFrom::try_from")]) == 1 for r in res)
        vars_ = {r.retval.fields[0].name for r in res if M.outcome(r) == "Ok" and isinstance(r.retval.fields.get(0), EnumV)}
        R.check(conv_ok and vars_ <= {"None"} and bool(res), "R18.4", "Amplitude<-%s" % name, "delegated to the unit conversion (Amplitude::None)", "Amplitude from %s: %s" % (name, [M.outcome(r) for r in res]), where=b.span)

    # ---- R18.7 the number of a suffixed value is converted like any decimal literal ------------------------------------------------
    # Every unit conversion hands the numeric part to the element type's own conversion (R18.6). That conversion's rules
    # (C08/R08.2: the whole literal to the float parser, its value returned unchanged, nothing it accepted refused) are
    # evaluated here as well, so that a change to the shared float conversion that changes what a quantity accepts - a zero
    # written with an exponent, say - is reported under this property too.
    from . import c08, c07
    c08.float_delegation(c07.Renamed(R, "R18.7", "number:"))


def _rv_operands(rv):
    k = rv["k"]
    if k in ("use", "cast", "unop", "repeat"):
        return [rv["a"]]
    if k == "binop":
        return [rv["a"], rv["b"]]
    if k == "aggr":
        return list(rv["fields"])
    return []


def _all_bytes(snap):
    out = []

    def walk(t):
        if isinstance(t, tuple) and t and t[0] == "sym":
            return None      # bytes in the description of an unknown value are not the value's bytes
        if isinstance(t, tuple):
            if t and t[0] == "bytes":
                out.append(t[1])
                return
            for x in t:
                walk(x)
    walk(snap)
    return out
