"""Shared analyses of the lexer (Tokenizer::next dispatch table over byte classes and flags)."""
from .. import facts, fdai, scpi_models as M
from ..fdai import EnumV, AggV, K, SymV, RefV, Cell, Loc, TOP, load
from . import dispatch as D

TOKENIZER = "scpi::parser::tokenizer::Tokenizer"
_C = {}


def tokenizer_next_body(u):
    bs = u.impl_methods("core::iter::Iterator", "next", "parser::tokenizer::Tokenizer")
    if len(bs) != 1:
        raise facts.AnchorLost("impl Iterator for Tokenizer::next (found %d)" % len(bs))
    return bs[0]


def tokenizer_fields(u):
    adt = u.adts.get(TOKENIZER)
    if adt is None:
        raise facts.AnchorLost("struct Tokenizer")
    return [f["name"] for f in adt["variants"][0]["fields"]]


def byte_constants(u, bodies):
    """u8 constants appearing in the given bodies (comparison operands and switch targets)."""
    cs = set()

    def visit(o):
        if isinstance(o, dict):
            c = o.get("c")
            if isinstance(c, dict) and c.get("ty") == "u8" and "int" in c:
                cs.add(int(c["int"]))
            if o.get("k") == "switch" and o.get("dty") == "u8":
                for v, _ in o["targets"]:
                    cs.add(int(v))
            for v in o.values():
                visit(v)
        elif isinstance(o, list):
            for v in o:
                visit(v)

    for b in bodies:
        visit(b.mir.m)
        for p in b.promoted:
            visit(p.m)
    return cs


def byte_classes(consts, predicates=None):
    """Partition 0..255 by (equality with every constant, every ASCII predicate) -> list of classes (sorted lists)."""
    preds = predicates or M.BYTE_PREDICATES
    sig = {}
    for b in range(256):
        s = tuple(b == c for c in sorted(consts)) + tuple(bool(f(b)) for _, f in sorted(preds.items()))
        sig.setdefault(s, []).append(b)
    return sorted(sig.values())


def class_name(cls):
    r = cls[0]
    if len(cls) == 1:
        return repr(chr(r)) if 32 <= r < 127 else "0x%02x" % r
    if all(48 <= b <= 57 for b in cls):
        return "digit"
    if all((65 <= b <= 90) for b in cls):
        return "upper"
    if all((97 <= b <= 122) for b in cls):
        return "lower"
    if all(b >= 128 for b in cls):
        return "non-ascii"
    if all(b in (9, 12, 13, 32) for b in cls):
        return "ws"
    return "other(%s..)" % (repr(chr(r)) if 32 <= r < 127 else "0x%02x" % r)


def m_reader(eng, st, fr, t, name, rname, args):
    """Token readers are separate analysis units: record the call (with the flags at call time) and do not
    disturb the flags - that readers never write them is established by the field-write census."""
    tk = st.extra.get("tk")
    flags = {}
    if tk is not None and isinstance(tk.v, AggV):
        for i, v in tk.v.fields.items():
            flags[i] = v.v if isinstance(v, K) else None
    st.trace.append(fdai.Event("call", name, rname, tuple(fdai.snapshot(a) for a in args[1:]), fr.bi, t.get("line"), len(st.frames), fr.body.npath, extra={"flags": flags}))
    return st.fresh(("ret", name, fr.bi, ()))


READERS = ("read_mnemonic", "read_character_data", "read_numeric_data", "read_nrf", "read_suffix_data", "read_nondecimal_data", "read_string_data", "read_arbitrary_data", "read_expression_data")


def lexer_engine():
    P = D.prog()
    u = P.unit("scpi")
    models = dict(M.FOLD_MODELS)
    for r_ in READERS:
        models["scpi::parser::tokenizer::Tokenizer::" + r_] = m_reader
    inl = ("scpi::parser::tokenizer::util::skip_ws", "scpi::parser::tokenizer::token::Token::is_data")

    def inline(n, r):
        return r in inl or n in inl or "skip_ws::{closure" in r

    eng = fdai.Engine(P, u, inline=inline, models=models, loop_limit=6, max_paths=500)
    return eng


def next_table(flag_sets=None, quick=False):
    """Decision table of Tokenizer::next: (first class, second class|END, in_header, in_common, after_data) -> rows"""
    key = ("next", quick)
    if key in _C:
        return _C[key]
    P = D.prog()
    u = P.unit("scpi")
    body = tokenizer_next_body(u)
    fields = tokenizer_fields(u)
    need = {"chars", "in_header", "in_common"}
    if not need <= set(fields):
        raise facts.AnchorLost("Tokenizer fields %s (have %s)" % (sorted(need), fields))
    has_after = "after_data" in fields
    util_bodies = [b for b in u.bodies if b.npath.startswith("scpi::parser::tokenizer::util::skip_ws")]
    # IEEE 488.2 section 7 special bytes are always classes of their own, whatever the code compares against
    consts = byte_constants(u, [body] + util_bodies) | {ord(c) for c in "*:?;\n,#\"'()+-. "}
    classes = byte_classes(consts)
    eng = lexer_engine()
    rows = []
    reps = [(class_name(c), c[0], c) for c in classes]
    # second byte matters only where next() itself looks ahead; elsewhere one representative suffices
    lookahead_firsts = {ord(c) for c in ":?\n,#;"} | {9, 12, 13, 32}
    for (n1, b1, c1) in reps:
        seconds = reps + [("END", None, [])] if (b1 in lookahead_firsts) else [("x", ord("A"), []), ("END", None, [])]
        for (n2, b2, c2) in seconds:
            for in_header in (True, False):
                for in_common in (True, False):
                    for after_data in ((True, False) if has_after else (False,)):
                        if quick and b1 not in lookahead_firsts and n2 == "END" and in_common:
                            continue
                        st = fdai.State()
                        data = [b1] + ([b2] if b2 is not None else [])
                        st.extra["bytes"] = data
                        vals = {"chars": M.mk_bytes_iter(0), "in_header": K(in_header), "in_common": K(in_common), "after_data": K(after_data)}
                        tk = AggV(TOKENIZER, {i: vals.get(nm, TOP) for i, nm in enumerate(fields)})
                        cell = Cell(tk, "tokenizer")
                        st.extra["tk"] = cell
                        res = eng.run(body, [RefV(cell, (), True)], st)
                        for r in res:
                            rows.append(Row(n1, b1, n2, b2, in_header, in_common, after_data, r, fields))
    _C[key] = (rows, classes, consts, has_after)
    return _C[key]


class Row:
    def __init__(self, n1, b1, n2, b2, in_header, in_common, after_data, r, fields):
        self.n1, self.b1, self.n2, self.b2 = n1, b1, n2, b2
        self.in_header, self.in_common, self.after_data = in_header, in_common, after_data
        self.r = r
        self.outcome = r.outcome
        self.calls = [e for e in r.trace if e.kind == "call"]
        self.reader = None
        self.reader_flags = None
        for e in self.calls:
            nm = e.name.split("::")[-1]
            if nm.startswith("read_"):
                self.reader = (nm, e.args)
                fl = (e.extra or {}).get("flags") or {}
                self.reader_flags = {fields[i]: v for i, v in fl.items() if i < len(fields)}
        # result classification
        v = r.retval
        self.result = "?"
        if r.outcome != "return":
            self.result = r.outcome
        elif isinstance(v, EnumV) and v.name == "None":
            self.result = "None"
        elif isinstance(v, EnumV) and v.name == "Some":
            x = v.fields.get(0)
            if isinstance(x, EnumV) and x.name == "Ok" and isinstance(x.fields.get(0), EnumV):
                self.result = "Ok(%s)" % x.fields[0].name
            elif isinstance(x, EnumV) and x.name == "Err":
                c = sorted(M.err_codes(x))
                self.result = "Err(%s)" % ",".join(c)
            else:
                self.result = "Some(?)"
        if self.reader:
            self.result = "reader:" + self.reader[0]
        # final tokenizer state
        self.final = {}
        tkc = r.extra.get("tk")
        if tkc is not None and isinstance(tkc.v, AggV):
            for i, nm in enumerate(fields):
                v = tkc.v.fields.get(i)
                if nm == "chars":
                    self.final["pos"] = v.fields[0].v if isinstance(v, AggV) and isinstance(v.fields.get(0), K) else None
                else:
                    self.final[nm] = v.v if isinstance(v, K) else None
        self.fields = fields

    def key(self):
        return "%s|%s|hdr=%d|com=%d|aft=%d" % (self.n1, self.n2, self.in_header, self.in_common, self.after_data)


def final_flags(row):
    """Flags of the tokenizer at the end of a path: located through the cell kept in state.extra."""
    return row.r.extra.get("final_flags")


def check_separator_typestate(R, rule):
    """A data separator is accepted only when the lexer's own state says a data element precedes it."""
    P = D.prog()
    u = P.unit("scpi")
    rows, classes, consts, has_after = next_table()
    sep = [r for r in rows if r.b1 == ord(",")]
    if not sep:
        R.anchor_lost(rule, "`,` rows of the lexer dispatch table")
        return
    R.count("lexer_separator_rows", len(sep))
    bad = [r for r in sep if r.result == "Ok(ProgramDataSeparator)" and not (r.after_data and not r.in_header)]
    good = [r for r in sep if r.result == "Ok(ProgramDataSeparator)" and r.after_data and not r.in_header]
    R.check(has_after and not bad and good, rule, "separator-needs-datum",
            "`,` yields a data separator only right after a data element outside the header (%d accepting rows, %d rows analysed)" % (len(good), len(sep)),
            "`,` is accepted as a data separator although no data element precedes it (%s): a misplaced `,` would be swallowed by the parameter iterator" % sorted({r.key() for r in bad})[:4])


def check_unit_separator_typestate(R, rule):
    """A message unit separator starts a fresh header: whatever unit preceded it (common command or not, with or
    without parameters), the lexer is back in header state with the common-command flag cleared, so that the next
    unit may use `:`."""
    rows, classes, consts, has_after = next_table()
    sep = [r for r in rows if r.b1 == ord(";")]
    if not sep:
        R.anchor_lost(rule, "`;` rows of the lexer dispatch table")
        return
    bad = [r for r in sep if not (r.result == "Ok(ProgramMessageUnitSeparator)" and r.final.get("in_header") is True and r.final.get("in_common") is False)]
    R.check(not bad, rule, "unit-separator-resets-header-state",
            "`;` yields a unit separator and leaves the lexer in header state with the common-command flag cleared, from every prior state (%d rows)" % len(sep),
            "after `;` the lexer is not in a fresh header state (%s): the next unit's `:` or `*` would be misjudged" % sorted({"%s -> %s %s" % (r.key(), r.result, r.final) for r in bad})[:3])
    colon = [r for r in rows if r.b1 == ord(":") and r.n2 not in ("END",) and r.b2 is not None and chr(r.b2).isalpha()]
    badc = [r for r in colon if r.in_header and not r.in_common and r.result != "Ok(HeaderMnemonicSeparator)"]
    badc += [r for r in colon if r.in_header and r.in_common and not r.result.startswith("Err(")]
    R.check(colon and not badc, rule, "colon-in-header",
            "`:` before a letter is a header separator in a compound header and an error inside a common command (%d rows)" % len(colon),
            "`:` in a header is misjudged: %s" % sorted({"%s -> %s" % (r.key(), r.result) for r in badc})[:3])
