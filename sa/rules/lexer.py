"""Shared analyses of the lexer (Tokenizer::next dispatch table over byte classes and flags)."""
from .. import facts, fdai, scpi_models as M
from ..fdai import EnumV, AggV, K, SymV, RefV, Cell, Loc, TOP, load
from . import dispatch as D

TOKENIZER = "scpi::parser::tokenizer::Tokenizer"
_C = {}


def tokenizer_next_body(u):
    bs = u.impl_methods("core::iter::Iterator", "next", "parser::tokenizer::Tokenizer")
    if len(bs) != 1:
        raise facts.AnchorLost("impl Iterator for Tokenizer::next (found %d)" % len(bs))
    return bs[0]


def tokenizer_fields(u):
    adt = u.adts.get(TOKENIZER)
    if adt is None:
        raise facts.AnchorLost("struct Tokenizer")
    return [f["name"] for f in adt["variants"][0]["fields"]]


def byte_constants(u, bodies):
    """u8 constants appearing in the given bodies (comparison operands and switch targets)."""
    cs = set()

    def visit(o):
        if isinstance(o, dict):
            c = o.get("c")
            if isinstance(c, dict) and c.get("ty") == "u8" and "int" in c:
                cs.add(int(c["int"]))
            if o.get("k") == "switch" and o.get("dty") == "u8":
                for v, _ in o["targets"]:
                    cs.add(int(v))
            for v in o.values():
                visit(v)
        elif isinstance(o, list):
            for v in o:
                visit(v)

    for b in bodies:
        visit(b.mir.m)
        for p in b.promoted:
            visit(p.m)
    return cs


def byte_classes(consts, predicates=None):
    """Partition 0..255 by (equality with every constant, every ASCII predicate) -> list of classes (sorted lists)."""
    preds = predicates or M.BYTE_PREDICATES
    sig = {}
    for b in range(256):
        s = tuple(b == c for c in sorted(consts)) + tuple(bool(f(b)) for _, f in sorted(preds.items()))
        sig.setdefault(s, []).append(b)
    return sorted(sig.values())


def class_name(cls):
    r = cls[0]
    if len(cls) == 1:
        return repr(chr(r)) if 32 <= r < 127 else "0x%02x" % r
    if all(48 <= b <= 57 for b in cls):
        return "digit"
    if all((65 <= b <= 90) for b in cls):
        return "upper"
    if all((97 <= b <= 122) for b in cls):
        return "lower"
    if all(b >= 128 for b in cls):
        return "non-ascii"
    if all(b in (9, 12, 13, 32) for b in cls):
        return "ws"
    return "other(%s..)" % (repr(chr(r)) if 32 <= r < 127 else "0x%02x" % r)


def m_reader(eng, st, fr, t, name, rname, args):
    """Token readers are separate analysis units: record the call (with the flags at call time) and do not
    disturb the flags - that readers never write them is established by the field-write census."""
    tk = st.extra.get("tk")
    flags = {}
    if tk is not None and isinstance(tk.v, AggV):
        for i, v in tk.v.fields.items():
            flags[i] = v.v if isinstance(v, K) else None
    st.trace.append(fdai.Event("call", name, rname, tuple(fdai.snapshot(a) for a in args[1:]), fr.bi, t.get("line"), len(st.frames), fr.body.npath, extra={"flags": flags}))
    return st.fresh(("ret", name, fr.bi, ()))


READERS = ("read_mnemonic", "read_character_data", "read_numeric_data", "read_nrf", "read_suffix_data", "read_nondecimal_data", "read_string_data", "read_arbitrary_data", "read_expression_data")


def lexer_engine():
    P = D.prog()
    u = P.unit("scpi")
    models = dict(M.FOLD_MODELS)
    for r_ in READERS:
        models["scpi::parser::tokenizer::Tokenizer::" + r_] = m_reader
    inl = ("scpi::parser::tokenizer::util::skip_ws", "scpi::parser::tokenizer::token::Token::is_data")

    _util = D.inline_inherent(("scpi::parser::tokenizer::util::",))
    _private = {}

    def private_util(r):
        # a helper of the util module that only the module itself can call (skip_ws written through a shared worker ...)
        if r not in _private:
            b_ = next((x for x in u.bodies if x.npath == r), None)
            _private[r] = b_ is not None and b_.j.get("vis") == "Restricted" and b_.kind in ("Fn", "AssocFn") and not any(
                x.npath != r and not x.npath.startswith("scpi::parser::tokenizer::util::") for x in u.bodies for c_ in x.calls() if c_.rname == r)
        return _private[r]

    def inline(n, r):
        return r in inl or n in inl or "skip_ws::{closure" in r or (r.startswith("scpi::parser::tokenizer::util::") and (("::{closure" in r) or (_util(n, r) and private_util(r))))

    eng = fdai.Engine(P, u, inline=inline, models=models, loop_limit=6, max_paths=500)
    return eng


WS = (9, 10, 12, 13, 32)


def _alpha(b):
    return b is not None and ((65 <= b <= 90) or (97 <= b <= 122))


def _digit(b):
    return b is not None and 48 <= b <= 57


def expect(b1, b2, h, c, a):
    """IEEE 488.2 section 7 dispatch on the first byte in the state (inside the header?, header is a common command?, a
    data element was just read?): (result, state afterwards, bytes consumed by next() itself or None)"""
    ch = chr(b1)
    keep = (h, c, False)
    if ch == "*":
        return "reader:read_mnemonic", (h, True, False), None
    if ch == ":":
        if b2 is not None and not _alpha(b2):
            return "Err(InvalidSeparator)", keep, 1
        if (not h) or c:
            return "Err(InvalidSeparator)", keep, 1
        return "Ok(HeaderMnemonicSeparator)", keep, 1
    if ch == "?":
        if b2 is not None and b2 not in WS and b2 != ord(";"):
            return "Err(SyntaxError)", keep, 1
        if not h:
            return "Err(SyntaxError)", keep, 1
        return "Ok(HeaderQuerySuffix)", (False, c, False), 1
    if ch == ";":
        return "Ok(ProgramMessageUnitSeparator)", (True, False, False), 2 if b2 in WS else 1
    if ch == "\n":
        if b2 is None:
            return "None", keep, 1
        return "Err(SyntaxError)", keep, 2
    if ch == ",":
        if h:
            return "Err(HeaderSeparatorError)", keep, 1
        if not a:
            return "Err(SyntaxError)", keep, 1
        if b2 in (ord(","), ord(";")):
            return "Err(SyntaxError)", keep, 1
        return "Ok(ProgramDataSeparator)", keep, 2 if b2 in WS else 1
    if b1 in WS:
        return "Ok(ProgramHeaderSeparator)", (False, c, False), 2 if b2 in WS else 1
    if _alpha(b1):
        return ("reader:read_mnemonic" if h else "reader:read_character_data"), keep, None
    if _digit(b1) or ch in "+-.":
        return ("Err(CommandHeaderError)" if h else "reader:read_numeric_data"), keep, 0 if h else None
    if ch == "#":
        if h:
            return "Err(CommandHeaderError)", keep, 1
        if b2 is None:
            return "Err(BlockDataError)", keep, 1
        return ("reader:read_arbitrary_data" if _digit(b2) else "reader:read_nondecimal_data"), keep, None
    if ch in "\"'":
        return ("Err(CommandHeaderError)" if h else "reader:read_string_data"), keep, 0 if h else None
    if ch == "(":
        return "reader:read_expression_data", keep, None
    return ("Err(SyntaxError)" if b1 < 128 else "Err(InvalidCharacter)"), keep, 1


# Complete elements that take the lexer through each of its readers (used to follow the bookkeeping across a reader call)
READER_PROBES = (b"*A", b"A", b"1", b"#H1", b"#11", b'"x"', b"(1)")
DATA_TOKENS = ("CharacterProgramData", "DecimalNumericProgramData", "DecimalNumericSuffixProgramData", "NonDecimalNumericProgramData", "StringProgramData", "ArbitraryBlockData", "ExpressionProgramData")


def _state_of(agg, ci):
    return {i: v for i, v in agg.fields.items() if i != ci}


def _state_key(state):
    return repr(fdai.snapshot(AggV("s", dict(state))))


def mk_tokenizer(state, ci, pos=0):
    import copy
    vals = {i: copy.deepcopy(v) for i, v in state.items()}
    vals[ci] = M.mk_bytes_iter(pos)
    return AggV(TOKENIZER, vals)


def tokenizer_states():
    """(list of (bookkeeping state, (h, c, a)), index of the `chars` field).

    The lexer's bookkeeping (is it inside the header? is the header a common command? was a data element just read?) is
    private state whose representation is the library's business - three bools, an enum, ... The tables never name its
    fields: they start from the states the library's own constructors produce (`Tokenizer::from_byte_iter`: start of a
    message, `Tokenizer::new_params`: inside the parameters) and follow the lexer's own transitions, pairing every state
    reached with the IEEE 488.2 section 7 state of the history that led to it (product exploration). A state in which
    the lexer does not behave as section 7 says for that history is reported by the row that shows it."""
    if "states" in _C:
        return _C["states"]
    P = D.prog()
    u = P.unit("scpi")
    fields = tokenizer_fields(u)
    if "chars" not in fields:
        raise facts.AnchorLost("Tokenizer::chars (the public input cursor)")
    ci = fields.index("chars")
    eng8 = element_engine()
    nb = tokenizer_next_body(u)

    def construct(name, arg):
        b = u.body(TOKENIZER + "::" + name) if hasattr(u, "body") else None
        if b is None:
            raise facts.AnchorLost("Tokenizer::" + name)
        st = fdai.State()
        st.extra["bytes"] = []
        res = eng8.run(b, [arg], st)
        if len(res) != 1 or not isinstance(res[0].retval, AggV):
            raise facts.AnchorLost("Tokenizer::%s does not construct one definite lexer state" % name)
        state = _state_of(res[0].retval, ci)
        if any(not isinstance(v, (K, EnumV)) for v in state.values()):
            raise facts.AnchorLost("Tokenizer::%s leaves part of the lexer state undefined (%s)" % (name, state))
        return state

    start = [(construct("from_byte_iter", M.mk_bytes_iter(0)), (True, False, False)),
             (construct("new_params", RefV(Cell(fdai.BytesV(b"", 0), "bytes"))), (False, False, False))]
    pairs = []
    seen = set()
    work = list(start)
    stub = lexer_engine()
    while work:
        state, label = work.pop(0)
        key = (_state_key(state), label)
        if key in seen:
            continue
        seen.add(key)
        pairs.append((state, label))
        if len(pairs) > 48:
            raise facts.AnchorLost("the lexer reaches more than 48 distinct bookkeeping states")
        h, c, a = label
        # transitions through next() itself (structural bytes): the section 7 state afterwards is the label of the successor
        for data in (b":A", b"?", b";", b" ", b",1", b";\n", b"? "):
            exp_res, nxt, _ = expect(data[0], data[1] if len(data) > 1 else None, h, c, a)
            if not exp_res.startswith("Ok("):
                continue
            st = fdai.State()
            st.extra["bytes"] = list(data)
            cell = Cell(mk_tokenizer(state, ci), "tokenizer")
            st.extra["tk"] = cell
            for r in stub.run(nb, [RefV(cell, (), True)], st):
                row = Row("", data[0], "", data[1] if len(data) > 1 else None, h, c, a, r, fields, ci)
                if row.result == exp_res and row.final_state is not None:
                    work.append((row.final_state, nxt))
        # transitions through the readers: a complete element, read with the reader analysed in place
        for data in READER_PROBES:
            st = fdai.State()
            st.extra["bytes"] = list(data)
            cell = Cell(mk_tokenizer(state, ci), "tokenizer")
            st.extra["tk"] = cell
            try:
                res = eng8.run(nb, [RefV(cell, (), True)], st)
            except (fdai.TooManyPaths, RecursionError):
                continue
            if len(res) != 1 or res[0].outcome != "return":
                continue
            v = res[0].retval
            tok = None
            if isinstance(v, EnumV) and v.name == "Some" and isinstance(v.fields.get(0), EnumV) and v.fields[0].name == "Ok" and isinstance(v.fields[0].fields.get(0), EnumV):
                tok = v.fields[0].fields[0].name
            tkc = res[0].extra.get("tk")
            if tok is None or tkc is None or not isinstance(tkc.v, AggV):
                continue
            fin = _state_of(tkc.v, ci)
            if any(not isinstance(x, (K, EnumV)) for x in fin.values()):
                continue
            if tok == "ProgramMnemonic":
                work.append((fin, (h, c or data[:1] == b"*", False)))
            elif tok in DATA_TOKENS:
                work.append((fin, (h, c, True)))
    _C["states"] = (pairs, ci)
    return _C["states"]


def state_for(label):
    """the first bookkeeping state found for a section 7 state (start states first)"""
    pairs, ci = tokenizer_states()
    for state, lab in pairs:
        if lab == tuple(label):
            return state, ci
    raise facts.AnchorLost("no lexer state reached for (header=%s, common=%s, after datum=%s)" % tuple(label))


def next_table(flag_sets=None, quick=False):
    """Decision table of Tokenizer::next: (first class, second class|END, lexer state) -> rows, over every bookkeeping
    state the lexer reaches (tokenizer_states), each labelled with its section 7 state"""
    key = ("next", quick)
    if key in _C:
        return _C[key]
    P = D.prog()
    u = P.unit("scpi")
    body = tokenizer_next_body(u)
    fields = tokenizer_fields(u)
    pairs, ci = tokenizer_states()
    util_bodies = [b for b in u.bodies if b.npath.startswith("scpi::parser::tokenizer::util::skip_ws")]
    # IEEE 488.2 section 7 special bytes are always classes of their own, whatever the code compares against
    consts = byte_constants(u, [body] + util_bodies) | {ord(c) for c in "*:?;\n,#\"'()+-. "}
    classes = byte_classes(consts)
    eng = lexer_engine()
    rows = []
    reps = [(class_name(c), c[0], c) for c in classes]
    # second byte matters only where next() itself looks ahead; elsewhere one representative suffices
    lookahead_firsts = {ord(c) for c in ":?\n,#;"} | {9, 12, 13, 32}
    for sid, (state, (in_header, in_common, after_data)) in enumerate(pairs):
        for (n1, b1, c1) in reps:
            seconds = reps + [("END", None, [])] if (b1 in lookahead_firsts) else [("x", ord("A"), []), ("END", None, [])]
            for (n2, b2, c2) in seconds:
                if quick and b1 not in lookahead_firsts and n2 == "END" and in_common:
                    continue
                st = fdai.State()
                data = [b1] + ([b2] if b2 is not None else [])
                st.extra["bytes"] = data
                cell = Cell(mk_tokenizer(state, ci), "tokenizer")
                st.extra["tk"] = cell
                res = eng.run(body, [RefV(cell, (), True)], st)
                for r in res:
                    row = Row(n1, b1, n2, b2, in_header, in_common, after_data, r, fields, ci)
                    row.sid = sid
                    rows.append(row)
    _C[key] = (rows, classes, consts, pairs)
    return _C[key]


class Row:
    def __init__(self, n1, b1, n2, b2, in_header, in_common, after_data, r, fields, ci=None):
        self.sid = None
        self.n1, self.b1, self.n2, self.b2 = n1, b1, n2, b2
        self.in_header, self.in_common, self.after_data = in_header, in_common, after_data
        self.r = r
        self.outcome = r.outcome
        self.calls = [e for e in r.trace if e.kind == "call"]
        self.reader = None
        self.reader_flags = None
        for e in self.calls:
            nm = e.name.split("::")[-1]
            if nm.startswith("read_"):
                self.reader = (nm, e.args)
                fl = (e.extra or {}).get("flags") or {}
                self.reader_flags = {fields[i]: v for i, v in fl.items() if i < len(fields)}
        # result classification
        v = r.retval
        self.result = "?"
        if r.outcome != "return":
            self.result = r.outcome
        elif isinstance(v, EnumV) and v.name == "None":
            self.result = "None"
        elif isinstance(v, EnumV) and v.name == "Some":
            x = v.fields.get(0)
            if isinstance(x, EnumV) and x.name == "Ok" and isinstance(x.fields.get(0), EnumV):
                self.result = "Ok(%s)" % x.fields[0].name
            elif isinstance(x, EnumV) and x.name == "Err":
                c = sorted(M.err_codes(x))
                self.result = "Err(%s)" % ",".join(c)
            else:
                self.result = "Some(?)"
        if self.reader:
            self.result = "reader:" + self.reader[0]
        # final tokenizer state: cursor position and bookkeeping state (opaque)
        self.final = {}
        self.final_state = None
        tkc = r.extra.get("tk")
        ci = fields.index("chars") if ci is None else ci
        if tkc is not None and isinstance(tkc.v, AggV):
            v = tkc.v.fields.get(ci)
            self.final["pos"] = v.fields[0].v if isinstance(v, AggV) and isinstance(v.fields.get(0), K) else None
            fin = _state_of(tkc.v, ci)
            if all(isinstance(x, (K, EnumV)) for x in fin.values()):
                self.final_state = fin
        self.fields = fields

    def key(self):
        return "%s|%s|hdr=%d|com=%d|aft=%d" % (self.n1, self.n2, self.in_header, self.in_common, self.after_data)


def final_flags(row):
    """Flags of the tokenizer at the end of a path: located through the cell kept in state.extra."""
    return row.r.extra.get("final_flags")


def check_separator_typestate(R, rule):
    """A data separator is accepted only in a state whose history says a data element precedes it."""
    rows, classes, consts, pairs = next_table()
    sep = [r for r in rows if r.b1 == ord(",")]
    if not sep:
        R.anchor_lost(rule, "`,` rows of the lexer dispatch table")
        return
    R.count("lexer_separator_rows", len(sep))
    bad = [r for r in sep if r.result == "Ok(ProgramDataSeparator)" and not (r.after_data and not r.in_header)]
    good = [r for r in sep if r.result == "Ok(ProgramDataSeparator)" and r.after_data and not r.in_header]
    R.check(not bad and good, rule, "separator-needs-datum",
            "`,` yields a data separator only right after a data element outside the header (%d accepting rows, %d rows analysed over %d lexer states)" % (len(good), len(sep), len(pairs)),
            "`,` is accepted as a data separator although no data element precedes it (%s): a misplaced `,` would be swallowed by the parameter iterator" % sorted({r.key() for r in bad})[:4])


def check_unit_separator_typestate(R, rule):
    """A message unit separator starts a fresh header: whatever unit preceded it (common command or not, with or
    without parameters), the lexer is back at the start of a header, so that the next unit may use `:`. The state after
    `;` is described by what the lexer does next (the states reached through `;` are explored under the fresh-header
    label: tokenizer_states), never by the names of its bookkeeping fields."""
    rows, classes, consts, pairs = next_table()
    sep = [r for r in rows if r.b1 == ord(";")]
    if not sep:
        R.anchor_lost(rule, "`;` rows of the lexer dispatch table")
        return
    keys = {(_state_key(st_), lab): i for i, (st_, lab) in enumerate(pairs)}
    bad = []
    for r in sep:
        succ = keys.get((_state_key(r.final_state), (True, False, False))) if r.final_state is not None else None
        ok = r.result == "Ok(ProgramMessageUnitSeparator)" and succ is not None
        if ok:
            # in the state `;` leaves behind, `:` before a letter is a header separator and a letter starts a mnemonic
            nxt = [x for x in rows if x.sid == succ]
            colon = [x for x in nxt if x.b1 == ord(":") and x.b2 is not None and chr(x.b2).isalpha()]
            letter = [x for x in nxt if _alpha(x.b1)]
            ok = bool(colon) and all(x.result == "Ok(HeaderMnemonicSeparator)" for x in colon) and bool(letter) and all(x.result == "reader:read_mnemonic" for x in letter)
        if not ok:
            bad.append(r)
    R.check(not bad, rule, "unit-separator-resets-header-state",
            "`;` yields a unit separator and leaves the lexer at the start of a header (`:` and mnemonics accepted again), from every prior state (%d rows)" % len(sep),
            "after `;` the lexer is not in a fresh header state (%s): the next unit's `:` or `*` would be misjudged" % sorted({"%s -> %s" % (r.key(), r.result) for r in bad})[:3])
    colon = [r for r in rows if r.b1 == ord(":") and r.n2 not in ("END",) and r.b2 is not None and chr(r.b2).isalpha()]
    badc = [r for r in colon if r.in_header and not r.in_common and r.result != "Ok(HeaderMnemonicSeparator)"]
    badc += [r for r in colon if r.in_header and r.in_common and not r.result.startswith("Err(")]
    R.check(colon and not badc, rule, "colon-in-header",
            "`:` before a letter is a header separator in a compound header and an error inside a common command (%d rows)" % len(colon),
            "`:` in a header is misjudged: %s" % sorted({"%s -> %s" % (r.key(), r.result) for r in badc})[:3])


# ---- reference lexer for the self-delimiting data elements (IEEE 488.2 7.7.4 - 7.7.7) -----------------------------------

def _after(data, pos):
    """white space after a data element, then a separator / terminator / end: -> consumed or None"""
    # the library's white space after a datum includes a trailing NL (the terminator is then not reported as a separate
    # element; see DESIGN.md, observation O1): positions are compared after that white space
    while pos < len(data) and data[pos] in (9, 10, 12, 13, 32):
        pos += 1
    if pos < len(data) and data[pos] not in b",;\n":
        return None
    return pos


def ref_element(data, in_header=False):
    """-> ("Ok", kind, payload, consumed) | ("Err",) for one program element at the start of `data`"""
    c = data[0:1]
    if in_header or (c and c.isalpha()):
        # program mnemonic (header) / character data: letter (or `*` letter in a header), then letters, digits, `_`; <= 12
        i = 0
        if in_header and c == b"*":
            i = 1
        if not data[i:i + 1].isalpha():
            return ("Err",)
        j = i
        while j < len(data) and data[j] < 128 and (chr(data[j]).isalnum() or data[j] == 95):
            j += 1
        if j > 12:
            return ("Err",)
        if in_header:
            return ("Ok", "ProgramMnemonic", data[:j], j)
        end = _after(data, j)
        return ("Ok", "CharacterProgramData", data[:j], end) if end is not None else ("Err",)
    if c and (c.isdigit() or c in b"+-."):
        # decimal numeric (the crate's documented subset: no white space inside the number), optional suffix
        i = 0
        if data[i:i + 1] in (b"+", b"-"):
            i += 1
        j = i
        while j < len(data) and 48 <= data[j] <= 57:
            j += 1
        lead = j > i
        i = j
        frac = False
        if data[i:i + 1] == b".":
            i += 1
            j = i
            while j < len(data) and 48 <= data[j] <= 57:
                j += 1
            frac = j > i
            i = j
        if not (lead or frac):
            return ("Err",)
        if data[i:i + 1] in (b"E", b"e"):
            i += 1
            if data[i:i + 1] in (b"+", b"-"):
                i += 1
            j = i
            while j < len(data) and 48 <= data[j] <= 57:
                j += 1
            if j == i:
                return ("Err",)
            i = j
        num = data[:i]
        k = i
        while k < len(data) and data[k] in (9, 10, 12, 13, 32):
            k += 1
        if k < len(data) and (chr(data[k]).isalpha() or data[k] == ord("/")):
            s0 = k
            while k < len(data) and (chr(data[k]).isalnum() and data[k] < 128 or data[k] in b"-/."):
                k += 1
            if k - s0 > 12:
                return ("Err",)
            end = _after(data, k)
            return ("Ok", "DecimalNumericSuffixProgramData", (num, data[s0:k]), end) if end is not None else ("Err",)
        end = _after(data, i)
        return ("Ok", "DecimalNumericProgramData", num, end) if end is not None else ("Err",)
    if c in (b'"', b"'"):
        q = data[0]
        i = 1
        while True:
            if i >= len(data):
                return ("Err",)
            if data[i] == q:
                if i + 1 < len(data) and data[i + 1] == q:
                    i += 2
                    continue
                break
            if data[i] >= 128:
                return ("Err",)
            i += 1
        end = _after(data, i + 1)
        return ("Ok", "StringProgramData", data[1:i], end) if end is not None else ("Err",)
    if c == b"(":
        i = 1
        while i < len(data) and data[i] != ord(")"):
            if data[i] in b"\"';(" or data[i] >= 128:
                return ("Err",)
            i += 1
        if i >= len(data):
            return ("Err",)
        end = _after(data, i + 1)
        return ("Ok", "ExpressionProgramData", data[1:i], end) if end is not None else ("Err",)
    if c == b"#" and len(data) > 1 and 48 <= data[1] <= 57:
        d = data[1] - 48
        if d == 0:
            rest = data[2:]
            if not rest or rest[-1] != 10:
                return ("Err",)
            return ("Ok", "ArbitraryBlockData", rest[:-1], len(data))
        digs = data[2:2 + d]
        if len(digs) != d or not digs.isdigit():
            return ("Err",)
        n = int(digs)
        pay = data[2 + d:2 + d + n]
        if len(pay) != n:
            return ("Err",)
        end = _after(data, 2 + d + n)
        return ("Ok", "ArbitraryBlockData", pay, end) if end is not None else ("Err",)
    if c == b"#" and len(data) > 1:
        radix = {72: 16, 104: 16, 81: 8, 113: 8, 66: 2, 98: 2}.get(data[1])
        if radix is None:
            return ("Err",)
        i = 2
        digits = b"0123456789abcdef"[:radix]
        while i < len(data) and bytes([data[i]]).lower() in [bytes([x]) for x in digits]:
            i += 1
        if i == 2:
            return ("Err",)
        v = int(data[2:i], radix)
        if v >= 2 ** 64:
            return ("Err",)
        end = _after(data, i)
        return ("Ok", "NonDecimalNumericProgramData", v, end) if end is not None else ("Err",)
    return ("Err",)


MNEMONIC_INPUTS = [b"A" * 255, b"A" * 256, b"A" * 257, b"A" * 268 + b" 1", b"*" + b"B" * 300, b"A", b"AB:", b"ABC?", b"ABC 1", b"A1B2", b"A_B", b"ABCDEFGHIJK", b"ABCDEFGHIJKL", b"ABCDEFGHIJKL:X", b"ABCDEFGHIJKLM", b"ABCDEFGHIJK12", b"SENSE12345678", b"*IDN?", b"*A", b"*ABCDEFGHIJK", b"*ABCDEFGHIJKL", b"*ABCDEFGHIJK?", b"TEMPERATURE2?", b"abcdefghijkl;"]
CHARDATA_INPUTS = [b"C" * 256, b"C" * 270 + b",1", b"MAX", b"max,1", b"ABCDEFGHIJKL", b"ABCDEFGHIJKLM", b"ABCDEFGHIJKL ,", b"A_1;", b"ON x", b"ON\n"]

ELEMENT_INPUTS = [
    b'"abc"', b"'abc'", b'""', b"''", b'"a""b"', b"'a''b'", b'"it\'s"', b"'say \"hi\"'", b'"""', b'""""', b'"abc', b"'abc", b'"abc" ,1', b'"abc";', b'"abc"\n', b'"abc"x', b'"abc" x', b'"a\xffb"', b'"a,b;c"', b'"a"" "',
    b"(@1,2)", b"(1:3)", b"()", b"(abc", b"(a(b)", b'(a"b)', b"(a;b)", b"(a) ,", b"(a)x", b"(a\xe9)", b"(a'b)",
    b"#10", b"#10,5", b"#10;", b"#10 ,5", b"#10\n", b"#10x", b"#13abc", b"#13abc,", b"#13abc ;", b"#13ab", b"#13abcd", b"#210abcdefghij", b"#210abcdefghi", b"#1", b"#2", b"#21", b"#1x", b"#14\xff;,\n", b"#14\xff;,\nX", b"#0abc\n", b"#0abc", b"#0", b"#0\n", b"#0a\nb\n", b"#3001x", b"#3001", b"#2+5hello", b"#3+05hello", b"#1+", b"#2-0", b"#2 5hello", b"#15hello",
    b"+-2", b"--5", b"-+1", b"2e+-3", b"1e--5", b"1", b"+1", b"-1", b"1.5", b".5", b"1.", b"-.5", b"+0.0", b"1e5", b"1E5", b"1e+5", b"1E-5", b"1.5e10", b".5E2", b"1e40000", b"1e-40000", b"0e999999", b"-2.5E+99999",
    b"1" + b"0" * 40, b"0." + b"0" * 40 + b"1", b"1e", b"1e+", b".", b"-", b"+.", b"-e5", b"1,2", b"1 ,2", b"1;", b"1\n", b"1 2", b"1 V", b"1V", b"1 mV", b"1.5e3 KHZ", b"5. KV", b"5.KV", b"-2. MIN", b"5.E3 HZ", b"12.VPK", b".5 S", b"+.5E-1 MV", b"5 . V", b"1 V/S", b"1 V.S-1",
    b"1 ABCDEFGHIJKL", b"1 ABCDEFGHIJKLM", b"1 " + b"V" * 256, b"1 " + b"V" * 268 + b";", b"1V 2", b"1 V;", b"1 V ,2", b"1.5.5", b"1..", b"12345678901234567890123",
    b"#B" + b"1" * 64, b"#B1" + b"0" * 64,
    b"#H10", b"#h10", b"#Q10", b"#q10", b"#B10", b"#b10", b"#Z10", b"#Q1777777777777777777777", b"#Q2000000000000000000000", b"#Q3000000000000000000000", b"#Q7777777777777777777777",
    b"#B" + b"1" * 64, b"#B" + b"1" * 65, b"#H+2A", b"#Q+17", b"#B-1",
    b"#HFF", b"#hff", b"#Q17", b"#q17", b"#B101", b"#b101", b"#H", b"#HG", b"#Q8", b"#B2", b"#X10", b"#HFF ,", b"#HFFG", b"#HFFFFFFFFFFFFFFFF", b"#H10000000000000000", b"#B1 ;", b"#Q7x",
]




SEPARATOR_INPUTS = [
    b",1", b", 1", b",.5", b", .5e1", b",-1", b",+2", b",#HFF", b",#13abc", b',"a"', b",'a'", b",(@1)", b",MAX", b",  \tMIN",
    b",,1", b",;", b", ,1", b",  ;*X",
]   # `,` before NL / end of input is not tabulated: the white-space skip takes the NL with it (DESIGN.md, observation O1)


def ref_separator(data):
    """`,` after a data element: a program data separator when another data element follows (white space allowed in
    between; IEEE 488.2 7.4.2.2), an error when the next thing is another separator or the end of the unit"""
    pos = 1
    while pos < len(data) and data[pos] in (9, 11, 12, 13, 32):
        pos += 1
    if pos < len(data) and data[pos] in b",;\n":
        return ("Err",)
    return ("Ok", "ProgramDataSeparator", None, pos)


def generated_inputs():
    """thorough tier: every text over a small alphabet of the bytes an element reader distinguishes, up to a length
    bound, for each kind of element (so that every order of quote / separator / digit / sign / letter is met)"""
    import itertools

    def words(alpha, lo, hi):
        for n in range(lo, hi + 1):
            for w in itertools.product(alpha, repeat=n):
                yield bytes(w)
    gen = {"mnemonic": [], "chardata": [], "data": [], "separator": []}
    gen["data"] += [b'"' + w for w in words(b"\"'a ,", 0, 4)]
    gen["data"] += [b"'" + w for w in words(b"'\"a;", 0, 3)]
    gen["data"] += [b"(" + w for w in words(b"()a\" ,", 0, 3)]
    gen["data"] += [b"#" + w for w in words(b"012a,\n", 1, 4)]
    gen["data"] += [b"#" + r + w for r in (b"H", b"q", b"B") for w in words(b"01aG ,", 0, 3)]
    gen["data"] += [w for w in words(b"1.eE+- V,", 1, 4) if w[:1] in b"1.+-"]
    gen["chardata"] += [b"A" + w for w in words(b"a1_ ,;x\n", 0, 3)]
    # `*` not followed by a letter is not tabulated: the lexer hands it on as a mnemonic and the dispatcher refuses it
    # with -113 (DESIGN.md, observation O2)
    gen["mnemonic"] += [h + w for h in (b"A", b"*A") for w in words(b"a1_:? ;*", 0, 3)]
    gen["separator"] += [b"," + w for w in words(b" ,;1.\"a#", 1, 3) if not w.rstrip(b" ").endswith(b"\n") and w.strip(b" ")]
    return gen


def element_engine():
    """the lexer with every tokenizer function analysed in place (readers included), on concrete input bytes"""
    if "eng8" in _C:
        return _C["eng8"]
    from . import convert as CV
    P = D.prog()
    u = P.unit("scpi")

    def m_parse_int(eng, st, fr, t, name, rname, args):
        b_ = M._bytes_of(eng, st, args[0])
        if b_ is None:
            return NotImplemented
        txt = bytes(b_)
        g = eng.concrete_gargs(st, t["callee"])
        rng = fdai._INT_RANGE.get(g[0] if g else "usize") or (0, 2 ** 64 - 1)
        # as audited on the pinned lexical-core (probed when defect F20 was triaged): the complete integer parser takes a
        # leading `+` for every type and a leading `-` for the signed ones
        body_txt = txt[1:] if (txt[:1] == b"+" or (txt[:1] == b"-" and rng[0] < 0)) else txt
        if body_txt.isdigit() and rng[0] <= int(txt) <= rng[1]:
            return fdai.mk_ok(K(int(txt)))
        return fdai.mk_err(fdai.SymV("lexical-error", "lexical-error"))

    def m_parse_partial_radix(eng, st, fr, t, name, rname, args):
        """lexical_core::parse_partial_with_options::<u64, FORMAT> as audited for the pinned lexical-core (probed on the
        real crate when defects F15/F16 were triaged): an optional leading `+` is taken; digits are accumulated with
        wrapping arithmetic and overflow is recognised from the digit count (more than the maximal count for the
        radix) or, at exactly the maximal count, from the wrapped value being smaller than radix^(count-1) - which
        misses 22-digit octal literals whose leading digit is 3, 5 or 7. A reader that relies on this parser for
        the value is reported through the element tables (`#H+2A`, `#Q3000000000000000000000`, ...)."""
        b_ = M._bytes_of(eng, st, args[0])
        g = eng.concrete_gargs(st, t["callee"])
        if b_ is None or len(g) < 2 or not str(g[1]).isdigit():
            return NotImplemented
        radix = (int(g[1]) >> 104) & 0xFF
        digits = "0123456789abcdefghijklmnopqrstuvwxyz"[:radix]
        txt = bytes(b_)
        i0 = 1 if txt[:1] == b"+" else 0
        i = i0
        while i < len(txt) and chr(txt[i]).lower() in digits:
            i += 1
        if i == i0:
            return fdai.mk_ok(AggV("tuple", {0: K(0), 1: K(0)}))
        sig = txt[i0:i].lstrip(b"0") or b"0"
        v = int(sig, radix)
        maxd = {16: 16, 8: 22, 2: 64}.get(radix)
        wrapped = v % (2 ** 64)
        over = maxd is not None and (len(sig) > maxd or (len(sig) == maxd and wrapped < radix ** (maxd - 1)))
        if maxd is None:
            over = v >= 2 ** 64
        adt, tab = CV.lexical_error_table(eng)
        if over and tab:
            d = [k for k, n_ in tab.items() if n_ == "Overflow"]
            return fdai.mk_err(EnumV(adt, "Overflow", d[0] if d else 0, {0: K(i)}))
        return fdai.mk_ok(AggV("tuple", {0: K(wrapped), 1: K(i)}))

    models8 = dict(M.FOLD_MODELS)
    models8["lexical_core::parse"] = m_parse_int
    models8["lexical_core::parse_partial_with_options"] = m_parse_partial_radix
    eng8 = fdai.Engine(P, u, inline=lambda n, r: r.startswith("scpi::parser::tokenizer::") or ("tokenizer::Tokenizer" in r and r.startswith("<")), models=models8, loop_limit=120, max_paths=32)
    _C["eng8"] = eng8
    return eng8


def element_table(kinds, thorough=False):
    """Tokenizer::next interpreted (all tokenizer functions in place, lexical-core's integer parsers by contract) on
    complete representative inputs; returns {kind: [mismatch descriptions]}, number of inputs evaluated, span"""
    from . import convert as CV
    key = ("elements", bool(thorough))
    if key not in _C:
        P = D.prog()
        u = P.unit("scpi")

        eng8 = element_engine()
        nb = tokenizer_next_body(u)
        tk_fields = tokenizer_fields(u)
        results = {}
        gen = generated_inputs() if thorough else {}
        for kind, inputs, in_header in (("mnemonic", MNEMONIC_INPUTS, True), ("chardata", CHARDATA_INPUTS, False), ("data", ELEMENT_INPUTS, False), ("separator", SEPARATOR_INPUTS, False)):
            seen_in = set()
            for data in list(inputs) + list(gen.get(kind, ())):
                if data in seen_in:
                    continue
                seen_in.add(data)
                st = fdai.State()
                st.extra["bytes"] = list(data)
                state0, ci0 = state_for((in_header, False, kind == "separator"))
                cell = Cell(mk_tokenizer(state0, ci0), "tokenizer")
                st.extra["tk"] = cell
                k2 = kind if kind != "data" else ("string" if data[:1] in (b'"', b"'") else "expression" if data[:1] == b"(" else "decimal" if data[:1] != b"#" else "block" if data[1:2].isdigit() else "non-decimal")
                exp = ref_element(data, in_header) if kind != "separator" else ref_separator(data)
                try:
                    res = eng8.run(nb, [RefV(cell, (), True)], st)
                except (fdai.TooManyPaths, RecursionError) as e:
                    results.setdefault(k2, []).append((data, "undecided (%s)" % type(e).__name__, exp))
                    continue
                got = None
                if len(res) == 1 and res[0].outcome == "return" and isinstance(res[0].retval, EnumV) and res[0].retval.name == "Some":
                    x = res[0].retval.fields.get(0)
                    if isinstance(x, EnumV) and x.name == "Err":
                        got = ("Err",)
                    elif isinstance(x, EnumV) and x.name == "Ok" and isinstance(x.fields.get(0), EnumV):
                        tok = x.fields[0]
                        pay = tok.fields.get(0)
                        pv = pay.v if isinstance(pay, K) else M._bytes_of(eng8, res[0], pay)
                        if 1 in tok.fields:
                            p1 = M._bytes_of(eng8, res[0], tok.fields[1])
                            pv = (bytes(pv) if pv is not None else None, bytes(p1) if p1 is not None else None)
                        tkc = res[0].extra.get("tk")
                        ch = tkc.v.fields.get(tk_fields.index("chars")) if tkc is not None and isinstance(tkc.v, AggV) else None
                        pos = ch.fields[0].v if isinstance(ch, AggV) and isinstance(ch.fields.get(0), K) else None
                        got = ("Ok", tok.name, bytes(pv) if isinstance(pv, (bytes, bytearray, list)) else pv, pos)
                elif len(res) == 1 and res[0].outcome in ("panic", "diverge"):
                    got = ("panic",)
                results.setdefault(k2, []).append((data, got if got else [(r.outcome, r.retval) for r in res][:2], exp))
        _C[key] = (results, nb.span)
    results, span = _C[key]
    return {k: results.get(k, []) for k in kinds}, span


def check_elements(R, rule, kinds, thorough=False):
    table, span = element_table(kinds, thorough)
    n = 0
    for kind in kinds:
        rows = table.get(kind, [])
        n += len(rows)
        bad = ["%r: lexed as %s, IEEE 488.2 section 7 gives %s" % (d, g, e) for d, g, e in rows if g != e]
        R.check(rows and not bad, rule, "element:" + kind, "kind, payload and consumed bytes equal the reference lexer on every representative input (%d)" % len(rows), "; ".join(bad[:4]) or "no inputs evaluated", where=span)
    R.count("element_inputs", n)
