"""Whole-message tables: Node::run folded end to end.

`Node::run(root, message, device, context, response)` is interpreted by the FDAI engine on *concrete* program messages
against *concrete* command trees, with everything the library does in between analysed in place - the real tokenizer on
the bytes of the message, `Peekable` by contract over that tokenizer, `run_tokens` / `exec` and their helpers,
`Parameters`, `ResponseUnit` and the provided methods of `Formatter`, and the formatter impl (growable `Vec<u8>` or
fixed-capacity `ArrayVec<u8, N>` with a concrete N, the container operations by contract on a concrete byte buffer).
The only things that are not library code are the user's handlers and device: handlers are *scripts* (pull k required and
j optional parameters through the real `Parameters`, then fail with a given error or answer with given header / data texts
through the real `ResponseUnit`), the device's error hook is an event.

What comes out - which handler ran in which form in which order, which data elements each was handed, the result of the
call, what the error hook was given, and the bytes left in the response buffer - is compared with a reference execution
written from SCPI-99 6.2 / IEEE 488.2 7 and 8 (`ref_run`).  This is the composition step the per-function tables of
C02/C05/C06/C10/C11 leave to a paper argument."""
import re
from .. import facts, fdai, scpi_models as M
from ..fdai import EnumV, AggV, K, SymV, RefV, Cell, Loc, TOP, BytesV, FnV, Event, load, store, mk_option, mk_ok, mk_err, UNIT
from . import dispatch as D

NODE = "scpi::tree::Node"
FMT = "scpi::parser::response::Formatter"
EC = "scpi::error::ErrorCode"
PEEKABLE = "msg::Peekable"
VECBUF = "msg::Vec<u8>"
ARRBUF = "msg::ArrayVec<u8>"
_C = {}


# ---------------------------------------------------------------------------------------------------------------------
# trees and handler scripts
# ---------------------------------------------------------------------------------------------------------------------
class H:
    """a scripted handler: pulls `req` required then `opt` optional parameters, then either fails with `fail` (an ErrorCode
    variant name) or - in query form - answers with header `hdr` (None: no header) and the data texts `data`"""

    def __init__(self, hid, req=0, opt=0, fail=None, hdr=None, data=(b"1",), qonly=False):
        self.hid, self.req, self.opt, self.fail, self.hdr, self.data = hid, req, opt, fail, hdr, tuple(data)


def L(name, hid, default=False):
    return ("L", name, default, hid)


def B(name, kids, default=False):
    return ("B", name, default, list(kids))


def _node_fields(eng, variant):
    """field name -> index of a Node variant, from the type's declaration (so that reordering the fields changes nothing)"""
    key = ("node_fields", variant)
    if key not in _C:
        adt = eng.unit.adts.get(NODE)
        v = [x for x in (adt or {}).get("variants", []) if x["name"] == variant]
        names = [f["name"] for f in v[0]["fields"]] if v else []
        want = ("name", "default", "handler" if variant == "Leaf" else "sub")
        if sorted(names) != sorted(want):
            raise facts.AnchorLost("fields %s of Node::%s (found %s)" % (list(want), variant, names))
        _C[key] = {n: i for i, n in enumerate(names)}
    return _C[key]


def build_tree(eng, spec, handlers):
    """abstract value of a Node (the statics a user's `const TREE` evaluates to)"""
    kind, name, default, x = spec
    nm = RefV(Cell(BytesV(bytes(name)), "name:" + name.decode()))
    if kind == "L":
        h = RefV(Cell(AggV("msg::handler", {0: K(x)}), "handler:%s" % x))
        f = _node_fields(eng, "Leaf")
        return EnumV(NODE, "Leaf", eng.variant_discr(NODE, "Leaf"), {f["name"]: nm, f["default"]: K(bool(default)), f["handler"]: h})
    cells = [Cell(build_tree(eng, k, handlers), "node:" + k[1].decode()) for k in x]
    f = _node_fields(eng, "Branch")
    return EnumV(NODE, "Branch", eng.variant_discr(NODE, "Branch"), {f["name"]: nm, f["default"]: K(bool(default)), f["sub"]: RefV(Cell(fdai.ListV(cells), "sub:" + name.decode()))})


# ---------------------------------------------------------------------------------------------------------------------
# models: Peekable over the real tokenizer
# ---------------------------------------------------------------------------------------------------------------------
def _loc_of(eng, st, v):
    """location a (possibly nested) reference points to"""
    v = eng.resolve(st, v)
    n = 0
    while isinstance(v, RefV) and n < 6:
        inner = eng.resolve(st, load(Loc(v.cell, v.path)))
        if not isinstance(inner, RefV):
            return Loc(v.cell, v.path), inner
        v = inner
        n += 1
    return None, v


def m_peekable(eng, st, fr, t, name, rname, args):
    return AggV(PEEKABLE, {0: args[0], 1: mk_option(None)})


def _fill(eng, st, fr, t, argi=0):
    """make sure the Peekable behind argument `argi` holds a peeked item: -> [(state, Loc of the peekable)]"""
    loc, pk = _loc_of(eng, st, eng.operand(st, st.frames[-1], t["args"][argi]) if t is not None and "args" in t else None)
    if loc is None or not isinstance(pk, AggV) or pk.kind != PEEKABLE:
        return None
    cur = pk.fields.get(1)
    if isinstance(cur, EnumV) and cur.name == "Some":
        return [(st, loc)]
    nxt = _C["tk_next"]
    out = []
    for s2, item in eng.call_closure(st, fr, FnV(nxt.npath), [RefV(loc.cell, loc.path + (0,), True)], t):
        if s2.outcome is not None:
            out.append((s2, None))
            continue
        loc2, pk2 = _loc_of(eng, s2, eng.operand(s2, s2.frames[-1], t["args"][argi]))
        pk2.fields[1] = mk_option(item)
        out.append((s2, loc2))
    return out


def m_pk_peek(eng, st, fr, t, name, rname, args):
    fs = _fill(eng, st, fr, t)
    if fs is None:
        return NotImplemented
    out = []
    for s2, loc in fs:
        if loc is None:
            out.append((s2, TOP))
            continue
        item = load(loc.sub(1).sub(0))
        if isinstance(item, EnumV) and item.name == "None":
            out.append((s2, mk_option(None)))
        else:
            out.append((s2, mk_option(RefV(loc.cell, loc.path + (1, 0, 0), True))))
    return out


def _take(eng, s2, loc):
    item = load(loc.sub(1).sub(0))
    store(loc.sub(1), mk_option(None))
    if isinstance(item, EnumV) and item.name == "Some":
        s2.extra.setdefault("consumed", []).append(_tok_desc(eng, s2, item.fields.get(0)))
    return item


def m_pk_next(eng, st, fr, t, name, rname, args):
    fs = _fill(eng, st, fr, t)
    if fs is None:
        return NotImplemented
    out = []
    for s2, loc in fs:
        out.append((s2, TOP if loc is None else _take(eng, s2, loc)))
    return out


def m_pk_next_if(eng, st, fr, t, name, rname, args):
    fs = _fill(eng, st, fr, t)
    if fs is None:
        return NotImplemented
    out = []
    for s2, loc in fs:
        if loc is None:
            out.append((s2, TOP))
            continue
        item = load(loc.sub(1).sub(0))
        if isinstance(item, EnumV) and item.name == "None":
            out.append((s2, mk_option(None)))
            continue
        f2 = s2.frames[-1]
        clo = eng.operand(s2, f2, t["args"][1])
        for s3, v in eng.call_closure(s2, f2, clo, [RefV(loc.cell, loc.path + (1, 0, 0))], t):
            if s3.outcome is not None:
                out.append((s3, TOP))
                continue
            v = eng.resolve(s3, v)
            loc3, _pk = _loc_of(eng, s3, eng.operand(s3, s3.frames[-1], t["args"][0]))
            if isinstance(v, K) and v.v is True:
                out.append((s3, _take(eng, s3, loc3)))
            elif isinstance(v, K) and v.v is False:
                out.append((s3, mk_option(None)))
            else:
                out.append((s3, s3.fresh(("next_if-undecided",))))
    return out


def m_pk_next_if_eq(eng, st, fr, t, name, rname, args):
    fs = _fill(eng, st, fr, t)
    if fs is None:
        return NotImplemented
    out = []
    for s2, loc in fs:
        if loc is None:
            out.append((s2, TOP))
            continue
        item = load(loc.sub(1).sub(0))
        if isinstance(item, EnumV) and item.name == "None":
            out.append((s2, mk_option(None)))
            continue
        exp = eng.resolve(s2, eng.operand(s2, s2.frames[-1], t["args"][1]))
        n = 0
        while isinstance(exp, RefV) and n < 4:
            exp = eng.resolve(s2, load(Loc(exp.cell, exp.path)))
            n += 1
        same = M.struct_eq(eng, s2, item.fields.get(0), exp)
        if same is True:
            out.append((s2, _take(eng, s2, loc)))
        elif same is False:
            out.append((s2, mk_option(None)))
        else:
            out.append((s2, s2.fresh(("next_if_eq-undecided",))))
    return out


def _tok_desc(eng, st, item):
    """Result<Token, ErrorCode> -> ("tok", variant, payload bytes...) | ("err", code)"""
    item = eng.resolve(st, item)
    if isinstance(item, EnumV) and item.name == "Ok":
        tok = eng.resolve(st, item.fields.get(0))
        return _token_desc(eng, st, tok)
    if isinstance(item, EnumV) and item.name == "Err":
        return ("err",) + tuple(sorted(M.err_codes(item)))
    return ("?", repr(item)[:40])


def _token_desc(eng, st, tok):
    if not isinstance(tok, EnumV):
        return ("?", repr(tok)[:40])
    pay = []
    for i in sorted(tok.fields):
        f = tok.fields[i]
        if isinstance(f, K):
            pay.append(f.v)
        else:
            b = M._bytes_of(eng, st, f)
            pay.append(bytes(b) if b is not None else "?")
    return ("tok", tok.name) + tuple(pay)


# ---------------------------------------------------------------------------------------------------------------------
# models: concrete byte buffers behind the two formatter impls
# ---------------------------------------------------------------------------------------------------------------------
def mk_buf(cap=None):
    return AggV(ARRBUF if cap is not None else VECBUF, {0: BytesV(b""), 1: K(cap)})


def _buf(eng, st, v):
    loc, b = _loc_of(eng, st, v)
    if isinstance(b, AggV) and b.kind in (VECBUF, ARRBUF) and isinstance(b.fields.get(0), BytesV) and isinstance(b.fields.get(1), K):
        return b
    return None      # not a buffer, or one an unmodelled call has been let loose on (the caller's result is then undecided)


def _content(b):
    return bytes(b.fields[0].b)


def m_buf_extend(fallible):
    def m(eng, st, fr, t, name, rname, args):
        b = _buf(eng, st, args[0])
        s = M._bytes_of(eng, st, args[1])
        if b is None or s is None:
            return NotImplemented
        cap = b.fields[1].v
        if fallible and cap is not None and len(_content(b)) + len(s) > cap:
            return mk_err(AggV("arrayvec::CapacityError", {0: UNIT}))
        b.fields[0] = BytesV(_content(b) + bytes(s))
        return mk_ok(UNIT) if fallible else UNIT
    return m


def m_buf_push(fallible):
    def m(eng, st, fr, t, name, rname, args):
        b = _buf(eng, st, args[0])
        x = eng.resolve(st, args[1])
        if b is None or not isinstance(x, K):
            return NotImplemented
        cap = b.fields[1].v
        if fallible and cap is not None and len(_content(b)) + 1 > cap:
            return mk_err(AggV("arrayvec::CapacityError", {0: x}))
        b.fields[0] = BytesV(_content(b) + bytes([x.v & 0xFF]))
        return mk_ok(UNIT) if fallible else UNIT
    return m


def m_buf_q(f):
    def m(eng, st, fr, t, name, rname, args):
        b = _buf(eng, st, args[0])
        if b is None:
            return NotImplemented
        return f(b)
    return m


def _buf_clear(b):
    b.fields[0] = BytesV(b"")
    return UNIT


BUF_MODELS = {}
for _p in ("alloc::vec::Vec::", "arrayvec::ArrayVec::"):
    BUF_MODELS[_p + "len"] = m_buf_q(lambda b: K(len(_content(b))))
    BUF_MODELS[_p + "is_empty"] = m_buf_q(lambda b: K(len(_content(b)) == 0))
    BUF_MODELS[_p + "as_slice"] = m_buf_q(lambda b: RefV(Cell(BytesV(_content(b)), "buf-slice")))
    BUF_MODELS[_p + "clear"] = m_buf_q(_buf_clear)
BUF_MODELS["alloc::vec::Vec::extend_from_slice"] = m_buf_extend(False)
BUF_MODELS["alloc::vec::Vec::push"] = m_buf_push(False)
BUF_MODELS["arrayvec::ArrayVec::try_extend_from_slice"] = m_buf_extend(True)
BUF_MODELS["arrayvec::ArrayVec::try_push"] = m_buf_push(True)
BUF_MODELS["arrayvec::ArrayVec::is_full"] = m_buf_q(lambda b: K(len(_content(b)) >= b.fields[1].v))
BUF_MODELS["arrayvec::ArrayVec::remaining_capacity"] = m_buf_q(lambda b: K(b.fields[1].v - len(_content(b))))
BUF_MODELS["arrayvec::ArrayVec::capacity"] = m_buf_q(lambda b: K(b.fields[1].v))


def formatter_redirect(method):
    """`response.method(..)` on a generic or dyn formatter goes to what the buffer's type provides: its impl's method or,
    where the impl has none, the trait's provided one"""
    def red(eng, st, t, name, args):
        b = _buf(eng, st, args[0]) if args else None
        if b is None:
            return None
        u = eng.unit
        w = "arrayvec::ArrayVec" if b.kind == ARRBUF else "alloc::vec::Vec"
        return u.trait_methods_for("parser::response::Formatter", w).get(method)
    return red


# ---------------------------------------------------------------------------------------------------------------------
# models: scripted handlers
# ---------------------------------------------------------------------------------------------------------------------
def _hid(eng, st, v):
    loc, h = _loc_of(eng, st, v)
    if isinstance(h, AggV) and h.kind == "msg::handler":
        return h.fields[0].v
    return None


def m_handler(form):
    def m(eng, st, fr, t, name, rname, args):
        hid = _hid(eng, st, args[0])
        if hid is None:
            return NotImplemented
        script = st.extra["scripts"][hid]
        rec = {"h": hid, "form": form, "params": []}
        st.extra.setdefault("calls", []).append(rec)
        pcell = Cell(args[3], "params")
        st.extra["pcell"] = pcell
        if form == "query":
            rcell = Cell(args[4], "response-unit")
            st.extra["rcell"] = rcell
        work = [(st, 0)]
        done = []
        P = "scpi::parser::parameters::Parameters::"
        while work:
            s, i = work.pop()
            if s.outcome is not None:
                done.append((s, TOP))
                continue
            f2 = s.frames[-1]
            if i < script.req + script.opt:
                fn = P + ("next_token" if i < script.req else "next_optional_token")
                for s2, v in eng.call_closure(s, f2, FnV(fn), [RefV(s.extra["pcell"], (), True)], t):
                    if s2.outcome is not None:
                        done.append((s2, TOP))
                        continue
                    v = eng.resolve(s2, v)
                    if isinstance(v, EnumV) and v.name == "Err":
                        s2.extra["calls"][-1]["params"].append(("Err",) + tuple(sorted(M.err_codes(v))))
                        done.append((s2, mk_err(v.fields.get(0))))
                    elif isinstance(v, EnumV) and v.name == "Ok":
                        x = eng.resolve(s2, v.fields.get(0))
                        if i >= script.req:
                            if isinstance(x, EnumV) and x.name == "None":
                                s2.extra["calls"][-1]["params"].append(None)
                                work.append((s2, i + 1))
                                continue
                            x = eng.resolve(s2, x.fields.get(0)) if isinstance(x, EnumV) else x
                        s2.extra["calls"][-1]["params"].append(_token_desc(eng, s2, x))
                        work.append((s2, i + 1))
                    else:
                        s2.extra["calls"][-1]["params"].append(("?", repr(v)[:60]))
                        done.append((s2, s2.fresh(("handler-undecided",))))
                continue
            if script.fail:
                err = EnumV(EC, script.fail, eng.variant_discr(EC, script.fail))
                for s2, v in eng.call_closure(s, f2, FnV("scpi::error::Error::new"), [err], t):
                    done.append((s2, mk_err(v)))
                continue
            if form == "event":
                done.append((s, mk_ok(UNIT)))
                continue
            # query form: header, data..., finish through the real ResponseUnit
            steps = ([("header", script.hdr)] if script.hdr is not None else []) + [("data", d) for d in script.data] + [("finish", None)]
            cur = [(s, None)]
            for op, arg in steps:
                nxt = []
                for s2, _ in cur:
                    if s2.outcome is not None:
                        nxt.append((s2, TOP))
                        continue
                    f3 = s2.frames[-1]
                    ru = RefV(s2.extra["rcell"], (), True)
                    if op == "header":
                        a = [ru, M._mkslice(arg)]
                    elif op == "data":
                        a = [ru, AggV("msg::datum", {0: BytesV(bytes(arg))})]
                    else:
                        a = [ru]
                    nxt.extend(eng.call_closure(s2, f3, FnV("scpi::parser::response::ResponseUnit::" + op), a, t))
                cur = nxt
            done.extend(cur)
        return done
    return m


def m_format_datum(eng, st, fr, t, name, rname, args):
    """an opaque response datum writes its text with one push_str (what a datum's text is, is C09's business)"""
    loc, d = _loc_of(eng, st, args[0])
    if not (isinstance(d, AggV) and d.kind == "msg::datum"):
        d = eng.resolve(st, args[0])
        if not (isinstance(d, AggV) and d.kind == "msg::datum"):
            return NotImplemented
    b = _buf(eng, st, args[1])
    if b is None:
        return NotImplemented
    w = "arrayvec::ArrayVec" if b.kind == ARRBUF else "alloc::vec::Vec"
    body = eng.unit.trait_methods_for("parser::response::Formatter", w).get("push_str")
    if body is None:
        return NotImplemented
    return eng.call_closure(st, fr, FnV(body.npath), [args[1], RefV(Cell(d.fields[0], "datum-text"))], t)


def m_handle_error(eng, st, fr, t, name, rname, args):
    st.extra.setdefault("hook", []).append(tuple(sorted(M.err_codes(mk_err(args[1])))) or ("?",))
    return UNIT


# ---------------------------------------------------------------------------------------------------------------------
# the engine
# ---------------------------------------------------------------------------------------------------------------------
def _inline(n, r):
    if r.startswith(("scpi::tree::command::",)):
        return False
    if r.startswith(("scpi::tree::", "scpi::parser::", "scpi::error::", "<scpi::error::", "<error::")):
        return True
    return r.startswith("<") and ("parser::" in r or "error::" in r or "tree::" in r)


def engine():
    if "eng" in _C:
        return _C["eng"]
    from . import lexer as LX
    LX.element_engine()          # builds the audited lexical-core models
    P = D.prog()
    u = P.unit("scpi")
    ms = M.with_lists(dict(LX._C["eng8"].models))
    ms.update(BUF_MODELS)
    ms["core::iter::Iterator::peekable"] = m_peekable
    ms["core::iter::Peekable::peek"] = m_pk_peek
    ms["<core::iter::Peekable<I> as core::iter::Iterator>::next"] = m_pk_next
    ms["core::iter::Peekable::next_if"] = m_pk_next_if
    ms["core::iter::Peekable::next_if_eq"] = m_pk_next_if_eq
    ms["scpi::tree::command::Command::event"] = m_handler("event")
    ms["scpi::tree::command::Command::query"] = m_handler("query")
    ms["scpi::parser::response::ResponseData::format_response_data"] = m_format_datum
    ms["scpi::Device::handle_error"] = m_handle_error
    eng = fdai.Engine(P, u, inline=_inline, models=ms, loop_limit=400, max_paths=8, max_depth=40)
    eng.inline_fn_values = True
    for b in u.trait_methods_for("parser::response::Formatter", "alloc::vec::Vec").values():
        eng.redirect["scpi::parser::response::Formatter::" + b.name] = formatter_redirect(b.name)
    nexts = u.impl_methods("core::iter::Iterator", "next", "tokenizer::Tokenizer")
    if len(nexts) != 1:
        raise facts.AnchorLost("impl Iterator for Tokenizer")
    _C["tk_next"] = nexts[0]
    _C["eng"] = eng
    return eng


def _context():
    from . import devmodel as DM
    return DM.context_value(False)


def run_message(tree, handlers, msg, cap=None):
    """-> dict(result, calls, hook, out) or ("undecided", why)"""
    eng = engine()
    u = eng.unit
    body = u.body("scpi::tree::Node::run")
    st = fdai.State()
    st.extra["scripts"] = {h.hid: h for h in handlers}
    st.extra["calls"] = []
    st.extra["hook"] = []
    root = Cell(build_tree(eng, tree, handlers), "root")
    buf = Cell(mk_buf(cap), "response")
    st.extra["buf"] = buf
    args = [RefV(root), M._mkslice(msg, 0), RefV(Cell(AggV("msg::device", {}), "device"), (), True), RefV(Cell(_context(), "context"), (), True), RefV(buf, (), True)]
    eng.step_budget, eng._steps_used, eng._forks_used = 16000, 0, 0
    try:
        rs = eng.run(body, args, st)
    except (fdai.TooManyPaths, RecursionError) as e:
        return ("undecided", type(e).__name__)
    if len(rs) != 1:
        return ("undecided", "%d paths: %s" % (len(rs), [M.outcome(r) for r in rs][:4]))
    r = rs[0]
    if r.outcome == "panic":
        return {"result": "panic", "calls": r.extra.get("calls"), "hook": r.extra.get("hook"), "out": None}
    if r.outcome != "return":
        return ("undecided", "outcome %s" % r.outcome)
    b = r.extra.get("buf")
    res = r.retval
    if isinstance(res, EnumV) and res.name == "Ok":
        result = "Ok"
    elif isinstance(res, EnumV) and res.name == "Err":
        result = tuple(sorted(M.err_codes(res))) or ("?",)
    else:
        return ("undecided", "result %r" % (res,))
    return {"result": result, "calls": [(c["h"], c["form"], tuple(c["params"])) for c in r.extra.get("calls", [])], "hook": list(r.extra.get("hook", [])), "out": _content(b.v) if b is not None and isinstance(b.v, AggV) else None}


# ---------------------------------------------------------------------------------------------------------------------
# reference execution (SCPI-99 6.2, IEEE 488.2 7.3 / 8.4): works on the *structure* a message was rendered from, never
# on the rendered text, so it shares nothing with the library's tokenizer
# ---------------------------------------------------------------------------------------------------------------------
from .c03 import ref_match


class Unit:
    """one program message unit: `path` the header mnemonics as spelled, `colon` a leading `:`, `query` a trailing `?`,
    `params` the data elements as (token kind, payload bytes..., rendered text)"""

    def __init__(self, path, query=False, colon=False, params=(), hws=b" ", pws=(b"", b""), tws=b"", lws=b""):
        self.path, self.query, self.colon, self.params = list(path), query, colon, list(params)
        self.hws, self.pws, self.tws, self.lws = hws, pws, tws, lws

    def render(self):
        # lws: white space in front of the header (IEEE 488.2 7.6.1.2 allows it before every program header - the first
        # of a message included, defect F21)
        s = self.lws + (b":" if self.colon else b"") + b":".join(self.path) + (b"?" if self.query else b"")
        if self.params:
            s += self.hws + (self.pws[0] + b"," + self.pws[1]).join(p[-1] for p in self.params)
        return s + self.tws


def P(kind, text, *payload):
    """a data element: token kind, payload (default: the text itself), rendered text last"""
    return (kind,) + (tuple(payload) if payload else (text,)) + (text,)


def _kids(node):
    return node[3] if node[0] == "B" else []


def ref_resolve(root, level, unit):
    """-> (handler id | None, level for the next unit). `level` is a node (a branch)."""
    common = unit.path[0][:1] == b"*"
    node = root if (unit.colon or common or level is None) else level
    new_level = level if level is not None else root
    if unit.colon:
        new_level = root
    first = True
    for m in unit.path:
        # descend through default branches until a child is called m
        while True:
            if node[0] != "B":
                return None, new_level
            if not common:
                new_level = node
            hit = [k for k in _kids(node) if ref_match(k[1], m)]
            if hit:
                node = hit[0]
                break
            dfl = [k for k in _kids(node) if k[0] == "B" and k[2]]
            if not dfl:
                return None, new_level
            node = dfl[0]
        first = False
    # the header ends here: a leaf, or the default leaf below (through default branches)
    while node[0] == "B":
        dl = [k for k in _kids(node) if k[0] == "L" and k[2]]
        if dl:
            node = dl[0]
            break
        db = [k for k in _kids(node) if k[0] == "B" and k[2]]
        if not db:
            return None, new_level
        node = db[0]
    return node[3], new_level


def ref_run(tree, handlers, units, cap=None, trailing_sep=False, terminate=True):
    """-> dict(result, calls, hook, out) for a well-formed message of `units`"""
    hs = {h.hid: h for h in handlers}
    calls = []
    out = b""
    level = None

    class Full(Exception):
        pass

    def write(b):
        nonlocal out
        if cap is not None and len(out) + len(b) > cap:
            raise Full()
        out += b

    def fail(code):
        return {"result": (code,), "calls": calls, "hook": [(code,)], "out": None}
    for u in units:
        hid, level = ref_resolve(tree, level, u)
        if hid is None:
            return fail("UndefinedHeader")
        h = hs[hid]
        if u.query and out:
            try:
                write(b";")
            except Full:
                return fail("OutOfMemory")      # the unit separator does not fit: the handler is not reached
        try:
            got = []
            calls.append((hid, "query" if u.query else "event", got))
            avail = [p[:-1] for p in u.params]
            for i in range(h.req):
                if not avail:
                    got.append(("Err", "MissingParameter"))
                    calls[-1] = (hid, calls[-1][1], tuple(got))
                    return fail("MissingParameter")
                got.append(("tok",) + avail.pop(0))
            for i in range(h.opt):
                got.append((("tok",) + avail.pop(0)) if avail else None)
            calls[-1] = (hid, calls[-1][1], tuple(got))
            if h.fail:
                return fail(h.fail)
            if u.query:
                if h.hdr is not None:
                    write(h.hdr)
                for i, d in enumerate(h.data):
                    if i:
                        write(b",")
                    elif h.hdr is not None:
                        write(b" ")
                    write(d)
            if avail:
                return fail("ParameterNotAllowed")
        except Full:
            calls[-1] = (hid, calls[-1][1], tuple(calls[-1][2]))
            return fail("OutOfMemory")
    try:
        if out and terminate:
            write(b"\n")
    except Full:
        return fail("OutOfMemory")
    return {"result": "Ok", "calls": calls, "hook": [], "out": out}


def render(units, trailing_sep=False, seps=None):
    s = b""
    for i, u in enumerate(units):
        if i:
            s += (seps[i - 1] if seps else b";")
        s += u.render()
    return s + (b";" if trailing_sep else b"")


def compare(got, exp):
    """-> None when the folded execution equals the reference, else a description"""
    if not isinstance(got, dict):
        return "undecided: %s" % (got[1] if isinstance(got, tuple) else got,)
    gc = [(h, f, tuple(p)) for h, f, p in got["calls"]]
    ec = [(h, f, tuple(p)) for h, f, p in exp["calls"]]
    # an expected ("Err",) stands for "this pull fails with the lexical error" whatever its code (C04's business)
    gc_ = [(h, f, tuple(("Err",) if (isinstance(x, tuple) and x[:1] == ("Err",) and i < len(e[2]) and e[2][i] == ("Err",)) else x for i, x in enumerate(p))) for (h, f, p), e in zip(gc, ec)] + gc[len(ec):]
    if gc_ != ec:
        return "handlers run %s, expected %s" % (_fmt_calls(gc), _fmt_calls(ec))
    if isinstance(exp["result"], tuple) and exp["result"] == ("class", "any"):
        # whatever the verdict - it must be one (no panic), and an error is reported once
        if got["result"] == "panic":
            return "panics"
        if got["result"] != "Ok" and got["hook"] != [got["result"]]:
            return "error hook given %s, expected exactly the returned error %s once" % (got["hook"], got["result"])
        return None
    if isinstance(exp["result"], tuple) and exp["result"][0] == "class":
        lo, hi = {"command": (-199, -100), "execution": (-299, -200)}[exp["result"][1]]
        codes = error_numbers()
        if not (isinstance(got["result"], tuple) and got["result"] and all(c in codes and lo <= codes[c] <= hi for c in got["result"])):
            return "returns %s, expected a %s error" % (got["result"], exp["result"][1])
        if got["hook"] != [got["result"]]:
            return "error hook given %s, expected exactly the returned error %s once" % (got["hook"], got["result"])
    else:
        if got["result"] != exp["result"]:
            return "returns %s, expected %s" % (got["result"], exp["result"])
        if got["hook"] != exp["hook"]:
            return "error hook given %s, expected %s" % (got["hook"], exp["hook"])
    if exp["out"] is not None and got["out"] != exp["out"]:
        return "response %r, expected %r" % (got["out"], exp["out"])
    return None


def error_numbers():
    if "codes" not in _C:
        import json, os
        j = json.load(open(os.path.join(os.path.dirname(os.path.dirname(os.path.dirname(os.path.abspath(__file__)))), "oracle", "errors.json")))
        _C["codes"] = {e["variant"]: e["code"] for e in j["errors"]}
    return _C["codes"]


def _fmt_calls(cs):
    return "[" + ", ".join("%s%s(%s)" % (h, "?" if f == "query" else "", ",".join("-" if p is None else (p[1][:4] + ":" + repr(p[2])[1:] if p[0] == "tok" else "/".join(p)) for p in ps)) for h, f, ps in cs) + "]"


# ---------------------------------------------------------------------------------------------------------------------
# corpora
# ---------------------------------------------------------------------------------------------------------------------
def short_form(name):
    """SCPI short form of a definition: the leading part up to the first lower-case letter, plus the numeric suffix"""
    m = re.match(rb"^(\*?[A-Z_0-9]*?)([a-z]*)(\d*)$", name)
    if not m:
        return name
    return m.group(1) + m.group(3) if m.group(2) else name


def spellings(name, rich=False):
    """ways to spell a defined mnemonic that must match it"""
    if name == b"":
        return []
    long_ = name
    short = short_form(name)
    out = [short.lower(), long_.upper()]
    if rich:
        out += [short, long_.lower(), long_]
        if not re.search(rb"\d$", name):
            out += [short + b"1", long_.lower() + b"1"]
        elif name.endswith(b"1") and not re.search(rb"\d1$", name):
            out += [short[:-1]]
    seen = []
    for o in out:
        if o not in seen:
            seen.append(o)
    return seen


def leaf_paths(tree):
    """[(list of nodes from below the root to the leaf)]"""
    out = []

    def walk(node, path):
        for k in _kids(node):
            if k[0] == "L":
                out.append(path + [k])
            else:
                walk(k, path + [k])
    walk(tree, [])
    return out


def header_variants(path, rich=False):
    """all headers that must designate the leaf at the end of `path`: optional (default) nodes omitted or spelled, each
    spelled node in its short or long form. An unnamed default leaf (`Branch!(name => handler; ..)`) is never spelled."""
    res = [[]]
    for n in path:
        opts = spellings(n[1], rich)
        nxt = []
        for r in res:
            if n[2] or not opts:        # default node: may be omitted
                nxt.append(r)
            for o in opts:
                nxt.append(r + [o])
        res = nxt
    # a default *branch* may only be omitted if what follows can still be found; SCPI allows omitting any optional node
    return [r for r in res if r]


TREE_A = B(b"", [
    L(b"*IDN", "idn"), L(b"*RST", "rst"), L(b"*OPC", "opc"),
    B(b"SYSTem", [B(b"ERRor", [L(b"NEXT", "err_next", True), L(b"COUNt", "err_count"), L(b"ALL", "err_all")]), L(b"VERSion", "vers"),
                  B(b"COMMunicate", [B(b"SERial", [L(b"BAUD", "baud")], True), L(b"ADDRess", "addr")])]),
    B(b"SENSe", [L(b"FUNCtion", "func"), B(b"CURRent", [L(b"RANGe", "curr_range"), L(b"NPLCycles", "curr_nplc")]),
                 B(b"VOLTage", [L(b"RANGe", "volt_range"), B(b"DC", [L(b"LEVel", "volt_dc_lev", True), L(b"OFFSet", "volt_dc_offs")], True), B(b"AC", [L(b"BANDwidth", "volt_ac_bw")])], True)], True),
    B(b"OUTPut2", [L(b"STATe", "outp2_stat", True), B(b"PROTection", [L(b"CLEar", "outp2_prot_cle"), L(b"STATe", "outp2_prot_stat", True)])]),
    B(b"OUTPut", [L(b"STATe", "outp_stat", True), L(b"MODE", "outp_mode")]),
    B(b"INITiate", [B(b"IMMediate", [L(b"ALL", "init_all", True), L(b"NAME", "init_name")], True), L(b"CONTinuous", "init_cont")]),
    L(b"ABORt", "abor"),
    B(b"MEASure", [L(b"", "meas", True), L(b"VOLTage", "meas_volt"), B(b"SCALar", [L(b"POWer", "meas_pow")], True)]),
    B(b"TRIGger", [L(b"SOURce", "trig_sour"), B(b"SEQuence1", [L(b"DELay", "trig_del")], True), B(b"SEQuence2", [L(b"DELay", "trig2_del")])]),
])


def handlers_for(tree, **over):
    hs = []
    for p in leaf_paths(tree):
        hid = p[-1][3]
        kw = dict(data=(hid.upper().encode(),))
        kw.update(over.get(hid, {}))
        hs.append(H(hid, **kw))
    return hs


def corpus_resolve(tier):
    """(tree, handlers, units, cap, trailing) for C02: every spelling of every header alone; pairs and triples probing the
    level a unit leaves behind"""
    tree = TREE_A
    hs = handlers_for(tree)
    rich = tier == "thorough"
    out = []
    paths = leaf_paths(tree)
    singles = []
    for p in paths:
        vs = header_variants(p, rich)
        for i, v in enumerate(vs):
            singles.append((p, v))
            out.append([Unit(v, query=(i % 2 == 0), lws=(b"", b"", b" ", b"", b" \t ")[i % 5])])
    # second units: every node name alone and every parent:child chain, relative and absolute
    names = []
    def walk(node, chain):
        for k in _kids(node):
            if k[1]:
                s = short_form(k[1]).lower()
                if [s] not in names:
                    names.append([s])
                if chain and chain + [s] not in names:
                    names.append(chain + [s])
                if k[0] == "B":
                    walk(k, [s])
    walk(tree, [])
    firsts = []
    for p in paths:
        vs = header_variants(p, False)
        # the fully spelled short form and the one with every optional node omitted
        full = [v for v in vs if len(v) == len([n for n in p if n[1]])]
        least = min(vs, key=len)
        for v in ([full[0]] if full else []) + ([least] if least not in full[:1] else []):
            if v not in firsts:
                firsts.append(v)
    n = 0
    for f in firsts:
        if f[0][:1] == b"*":
            continue
        for s in names:
            n += 1
            if not rich and n % 19:
                continue
            out.append([Unit(f, query=True, lws=b" " if n % 2 else b""), Unit(s, query=True, lws=b"  " if n % 3 == 0 else b"")])
            if (rich or n % 3 == 0) and s[0][:1] != b"*":
                out.append([Unit(f, query=True), Unit(s, query=True, colon=True)])
            if rich or n % 5 == 0:
                out.append([Unit(f), Unit([b"*IDN"], query=True), Unit(s, query=True)])
    # a failing unit leaves nothing behind for the next *message*: every message starts at the root (each row is its own run)
    return [(tree, hs, us, None, False) for us in out]


class Raw(Unit):
    """a unit given as text whose outcome is stated instead of derived: `call` = None (no handler runs for it) or
    (hid, form, params); `error` = an ErrorCode variant name or ("class", "command")"""

    def __init__(self, text, call, error):
        self.text, self.call, self.error = text, call, error
        self.query = False
        self.colon = False

    def render(self):
        return (b":" if self.colon and self.text[:1].isalpha() else b"") + self.text


def ref_run_raw(tree, handlers, units, cap=None, trailing_sep=False):
    """reference for messages whose last unit may be a Raw one (which fails)"""
    if not units or not isinstance(units[-1], Raw):
        return ref_run(tree, handlers, units, cap, trailing_sep)
    pre = ref_run(tree, handlers, units[:-1], cap, False, terminate=False)
    if pre["result"] != "Ok":
        return pre
    r = units[-1]
    calls = list(pre["calls"]) + ([r.call] if r.call else [])
    res = r.error if isinstance(r.error, tuple) else (r.error,)
    return {"result": res, "calls": calls, "hook": [res], "out": None}


TREE_B = B(b"", [
    L(b"*IDN", "idn"), L(b"*OPC", "opc"),
    L(b"SET", "set"), L(b"PAIR", "pair"), L(b"OPT", "opt"), L(b"ANY", "any"), L(b"FAIL", "fail"), L(b"QFAil", "qfail"), L(b"NONE", "none"),
    B(b"BRANch", [L(b"LEAF", "leaf"), B(b"SUB", [L(b"DEEP", "deep", True)], True)]),
    B(b"HEADed", [L(b"ONE", "h_one"), L(b"TWO", "h_two"), L(b"ZERO", "h_zero")]),
])


def handlers_b():
    return [H("idn", data=(b"ACME", b"X1", b"0", b"1.0")), H("opc", data=(b"1",)), H("set", req=1, data=(b"S",)), H("pair", req=2, data=(b"P", b"Q")),
            H("opt", req=1, opt=2, data=(b"O",)), H("any", opt=3, data=(b"A",)), H("fail", fail="ExecutionError"), H("qfail", opt=1, fail="HardwareMissing"),
            H("none", data=(b"N",)), H("leaf", data=(b"L",)), H("deep", opt=1, data=(b"D1", b"D2", b"D3")),
            H("h_one", hdr=b"HEAD:ONE", data=(b"1",)), H("h_two", hdr=b"HEAD:TWO", data=(b"1", b"2")), H("h_zero", hdr=b"HEAD:ZERO", data=())]


DATA = [
    P("DecimalNumericProgramData", b"12"), P("DecimalNumericProgramData", b"-1.5e+3"), P("DecimalNumericProgramData", b".5"),
    P("DecimalNumericSuffixProgramData", b"1 V", b"1", b"V"), P("DecimalNumericSuffixProgramData", b"2.5mV", b"2.5", b"mV"),
    P("CharacterProgramData", b"MAX"), P("CharacterProgramData", b"a_b1"),
    P("NonDecimalNumericProgramData", b"#HfF", 255), P("NonDecimalNumericProgramData", b"#b101", 5), P("NonDecimalNumericProgramData", b"#Q17", 15),
    P("StringProgramData", b'"a;b,c"', b"a;b,c"), P("StringProgramData", b"'x\"y'", b'x"y'), P("StringProgramData", b'""', b""), P("StringProgramData", b"'1,2;*RST\n'", b"1,2;*RST\n"),
    P("ArbitraryBlockData", b"#15a;b,c", b"a;b,c"), P("ArbitraryBlockData", b"#210ABCDE\n;,\"'", b"ABCDE\n;,\"'"), P("ArbitraryBlockData", b"#10", b""),
    P("ExpressionProgramData", b"(1,2)", b"1,2"), P("ExpressionProgramData", b"(@1!2:3!4,5)", b"@1!2:3!4,5"),
]


def corpus_params(tier):
    """C06: handlers pulling k required + j optional parameters against units with n elements of every kind; the unit is
    followed by further units that carry elements of their own"""
    tree, hs = TREE_B, handlers_b()
    out = []
    rich = tier == "thorough"
    hdrs = {"none": (0, 0), "set": (1, 0), "pair": (2, 0), "opt": (1, 2), "any": (0, 3), "brandeep": (0, 1)}
    k = 0
    for name, (req, opt) in hdrs.items():
        path = [b"BRAN"] if name == "brandeep" else [name.encode()]
        for n in range(0, req + opt + 2):
            rots = range(len(DATA)) if rich else range(0, len(DATA), 4)
            for r in rots:
                ps = [DATA[(r + i * 5) % len(DATA)] for i in range(n)]
                for q in (False, True):
                    k += 1
                    ws = [(b" ", (b"", b"")), (b"  ", (b" ", b" ")), (b"\t", (b"", b" "))][k % 3]
                    u = Unit(path, query=q, params=ps, hws=ws[0], pws=ws[1])
                    out.append([u])
                    # followed by a unit with parameters of its own: nothing of it may be handed to this handler
                    follow = Unit([b"PAIR"], query=True, params=[DATA[(r + 7) % len(DATA)], DATA[(r + 8) % len(DATA)]])
                    if rich or k % 2:
                        out.append([u, follow])
                    if rich or k % 3 == 0:
                        out.append([Unit([b"SET"], params=[DATA[(r + 3) % len(DATA)]]), u, follow])
    # an indefinite block runs to the end of the message
    out.append([Unit([b"SET"], query=True, params=[P("ArbitraryBlockData", b"#0abc;SET 1,2\n", b"abc;SET 1,2")])])
    return [(tree, hs, us, None, False) for us in out]


def corpus_abort(tier):
    """C05: messages of one to four units of which one fails for each kind of reason, in each position"""
    tree, hs = TREE_B, handlers_b()
    ok_units = [Unit([b"*IDN"], query=True), Unit([b"SET"], params=[DATA[0]]), Unit([b"BRAN", b"LEAF"], query=True), Unit([b"any"], query=True, params=[DATA[5], DATA[10]]), Unit([b"NONE"]), Unit([b"HEAD", b"TWO"], query=True)]
    bad_units = [
        Unit([b"FAIL"]), Unit([b"FAIL"], query=True), Unit([b"QFA"], query=True, params=[DATA[1]]),          # handler error
        Unit([b"NOPE"]), Unit([b"BRAN", b"NOPE"], query=True), Unit([b"SET", b"X"]), Unit([b"*NOPE"], query=True),   # undefined header
        Unit([b"PAIR"], params=[DATA[0]]), Unit([b"SET"], query=True),                                           # missing parameter
        Unit([b"NONE"], params=[DATA[0]]), Unit([b"SET"], query=True, params=[DATA[0], DATA[5]]),                 # parameter not allowed
        Raw(b"SET 1 2", ("set", "event", (("Err",),)), ("class", "command")),          # missing separator
        Raw(b"SET \"abc", ("set", "event", (("Err",),)), ("class", "command")),                                         # unterminated string
        Raw(b"@", None, ("class", "command")), Raw(b"SET? #15ab", ("set", "query", (("Err",),)), ("class", "command")),  # stray byte, truncated block
        Raw(b"SET \xff", ("set", "event", (("Err",),)), ("class", "command")), Raw(b"ABCDEFGHIJKLM?", None, ("class", "command")),
        Raw(b"SET 1,,2", ("set", "event", (("tok", "DecimalNumericProgramData", b"1"),)), ("class", "command")), Raw(b"BRAN::LEAF", None, ("class", "command")),
        Raw(b"", None, ("class", "command")), Raw(b" ", None, ("class", "command")),     # an empty unit (`A;;B`, `A; ;B`): the units before it have run (seed C05-M)
    ]
    out = []
    rich = tier == "thorough"
    n = 0
    for bi, bad in enumerate(bad_units):
        for pos in range(0, 3):
            blank = isinstance(bad, Raw) and not bad.text.strip()
            # (an empty unit after every kind of unit - with and without parameters, query and command - in both tiers)
            for rot in (range(len(ok_units)) if rich or blank else (bi % len(ok_units),)):
                pre = [ok_units[(rot + i) % len(ok_units)] for i in range(pos)]
                post = [ok_units[(rot + pos + i) % len(ok_units)] for i in range(2 if rich else 1)]
                import copy
                bad2 = copy.copy(bad)
                if pos and bad2.render()[:1] != b"*":
                    bad2.colon = True           # resolve from the root whatever level the units before left behind
                empty = isinstance(bad, Raw) and not bad.text.strip()     # (as the last unit it is just a trailing `;`)
                out.append((pre + [bad2], post))
                if (pos == 1 or rich) and not empty:
                    out.append((pre + [bad2], []))
                if not rich and not blank:
                    break
    rows = []
    for units, post in out:
        # the units after the failing one are rendered into the message but must never run
        rows.append((tree, hs, units, None, False, post))
        # the same against a fixed-capacity buffer that the units before the failing one fill exactly: the failure reported
        # is still the unit's own, not the buffer's (nothing more is written once a unit has failed - seed C05-J)
        pre = ref_run(tree, hs, [u for u in units[:-1]], None, False)
        n = len(pre["out"] or b"") - 1 if pre["result"] == "Ok" and pre["out"] else 0
        raw_query = isinstance(units[-1], Raw) and b"?" in units[-1].text.split(b" ")[0]     # its `;` would not fit: another story
        if n > 0 and not raw_query:
            rows.append((tree, hs, units, n, False, post))
    # all-good messages: every unit once, in order
    for rot in range(len(ok_units)):
        rows.append((tree, hs, [ok_units[(rot + i) % len(ok_units)] for i in range(4)], None, False, []))
    return rows


def corpus_framing(tier):
    """C10: successful messages mixing queries (no header / header, 0..4 data) and commands; trailing unit separator"""
    tree, hs = TREE_B, handlers_b()
    q = [Unit([b"*IDN"], query=True), Unit([b"*OPC"], query=True), Unit([b"BRAN"], query=True), Unit([b"HEAD", b"ONE"], query=True), Unit([b"HEAD", b"TWO"], query=True), Unit([b"HEAD", b"ZERO"], query=True), Unit([b"SET"], query=True, params=[DATA[0]])]
    c = [Unit([b"NONE"]), Unit([b"SET"], params=[DATA[10]]), Unit([b"*OPC"]), Unit([b"any"], params=[DATA[14], DATA[5]])]
    rows = []
    import itertools
    pool = q + c
    seqs = [[x] for x in pool]
    seqs += [list(p) for p in itertools.product(pool, repeat=2)]
    if tier == "thorough":
        seqs += [list(p) for p in itertools.product(pool, repeat=3)]
    else:
        seqs += [[pool[i % len(pool)], pool[(i * 3 + 1) % len(pool)], pool[(i * 5 + 2) % len(pool)]] for i in range(33)]
        seqs += [[pool[(i * 2) % len(pool)], pool[(i + 4) % len(pool)], pool[(i * 7 + 3) % len(pool)], pool[(i * 3 + 5) % len(pool)]] for i in range(11)]
    for i, s in enumerate(seqs):
        rows.append((tree, hs, s, None, i % 4 == 3, []))
    rows.append((tree, hs, [], None, False, []))
    return rows


def corpus_capacity(tier):
    """C11: the framing messages against fixed-capacity buffers around every write boundary of the expected response"""
    tree, hs = TREE_B, handlers_b()
    base = corpus_framing("quick")
    rows = []
    for i, (t, h, us, _cap, trail, post) in enumerate(base):
        if tier != "thorough" and i % 3:
            continue
        full = ref_run(t, h, us, None, trail)
        n = len(full["out"] or b"")
        caps = sorted(set([n, n + 1] + ([n - 1] if n else []) + ([max(0, n - 2)] if n > 1 else []) + ([n // 2] if n > 3 else []) + ([1] if n > 1 else []) + ([0] if n else [])))
        if tier == "thorough":
            caps = list(range(0, n + 2))
        for cp in caps:
            rows.append((t, h, us, cp, trail, []))
    # hostile input against a small buffer: an error, never a panic (u8 counters, slice arithmetic)
    for m, verdict in ((b"ANY " + b"A" * 256, "command"), (b"ANY " + b"A" * 300 + b",1", "command"), (b"B" * 256, "command"), (b"*" + b"C" * 299 + b"?", "command"), (b"ANY 1 " + b"V" * 256, "command"),
                       (b"ANY 1" + b"V" * 270, "command"), (b"ANY #H" + b"F" * 300, "any"), (b"ANY #B" + b"1" * 300, "any"), (b"ANY " + b"9" * 300 + b"." + b"9" * 300 + b"E" + b"9" * 300, "any"),
                       (b"ANY? #3" + b"9" * 3, "any"), (b"ANY? #9999999999", "any"), (b"ANY (" + b"(" * 40, "any"), (b"ANY '" + b"'" * 257, "any")):
        for cp in (0, 4):
            rows.append((tree, hs, [Raw(m, None, ("class", verdict))], cp, False, []))
    return rows


def corpus_corrupt(tier):
    """C04: single-point corruptions of well-formed messages, run end to end with handlers that take their parameters as
    optional (so that nothing but the library can object): the message must fail with a command error"""
    tree, hs = TREE_B, handlers_b()
    rows = []
    datas = DATA if tier == "thorough" else DATA[::3]
    for i, d in enumerate(datas):
        t = d[-1]
        for q in ((b"", b"?") if tier == "thorough" else (b"?" if i % 2 else b"",)):
            base = b"ANY" + q + b" "
            bad = [base + t + b",", base + t + b" ,", base + t + b", ", base + t + b",," + t, base + b"," + t, base + t + b" " + t, base + t + b",;*OPC?", base + t + b";,"]
            bad += [b"ANY" + q + b":" + b" " + t, b"ANY::NONE", b"BRAN:" + q, b"ABCDEFGHIJKLM" + q, b"ANY" + q + b" " + t + b"\xff", b"ANY" + q + b" ABCDEFGHIJKLM", b"ANY" + q + b" 1 ABCDEFGHIJKLM"]
            for m in bad:
                rows.append(m)
    rows += [b"ANY 'abc", b'ANY "abc', b"ANY #15ab", b"ANY #3", b"ANY #", b"ANY #H", b"ANY #HG", b"ANY (1,2", b"ANY 1e", b"ANY? 1,2,", b"ANY? 'a',", b"ANY #13abc,", b"ANY (1),", b"ANY #HFF,", b"ANY MAX,", b"ANY 1 V,",
             b"ANY(1)", b"*OPC(@1)", b"BRAN(1)", b"BRAN:LEAF(1,2)", b"ANY?(1)", b"ANY\"x\"", b"ANY#HFF", b"ANY#11a",
             b"*IDN?,", b"*IDN? ,", b":", b"ANY;:", b"ANY:", b"*OPC:?", b"ANY 1;;ANY", b"\xffANY", b"ANY\xff", b"A NY", b"ANY 1,\xff"]
    seen = []
    for m in rows:
        if m not in seen:
            seen.append(m)
    return [(tree, hs, [Raw(m, None, ("class", "command"))], None, False, []) for m in seen]


CORPORA = {"corrupt": corpus_corrupt, "resolve": corpus_resolve, "params": corpus_params, "abort": corpus_abort, "framing": corpus_framing, "capacity": corpus_capacity}


def table(name, tier):
    """-> list of (message bytes, capacity, mismatch description or None)"""
    key = (name, tier)
    if key in _C:
        return _C[key]
    rows = []
    n_undecided = 0
    for row in CORPORA[name](tier):
        tree, hs, us, cap, trail = row[:5]
        post = row[5] if len(row) > 5 else []
        msg = render(list(us) + list(post), trail)
        exp = ref_run_raw(tree, hs, us, cap, trail)
        if post and exp["result"] == "Ok":
            exp = ref_run_raw(tree, hs, list(us) + list(post), cap, trail)
        if n_undecided > 3:
            rows.append((msg, cap, "undecided: not evaluated (the first messages of this table are undecided)"))
            continue
        got = run_message(tree, hs, msg, cap)
        if not isinstance(got, dict):
            n_undecided += 1
        if len(us) == 1 and isinstance(us[0], Raw) and us[0].call is None and isinstance(us[0].error, tuple) and us[0].error[0] == "class":
            # only the verdict matters: a command error, reported once; which handlers ran before it is not prescribed
            if isinstance(got, dict):
                got = dict(got, calls=[])
            exp = dict(exp, calls=[])
        rows.append((msg, cap, compare(got, exp)))
    _C[key] = rows
    return rows


def check(R, rule, name, tier, what, floor):
    rows = table(name, tier)
    bad = [(m, c, d) for m, c, d in rows if d]
    und = [x for x in bad if x[2].startswith("undecided")]
    R.check(rows and not bad, rule, "messages:" + name, "%s (%d messages folded end to end, all equal to the reference execution)" % (what, len(rows)),
            "; ".join("%r%s: %s" % (m[:70], " [capacity %d]" % c if c is not None else "", d) for m, c, d in bad[:4]) + (" (+%d more)" % (len(bad) - 4) if len(bad) > 4 else ""))
    R.count("messages_" + name, len(rows))
    R.floor(rule, "whole messages (%s)" % name, len(rows), floor)


# ---------------------------------------------------------------------------------------------------------------------
# whole-message token sequences (C04): Tokenizer::new(message) and next() to the end, folded; expected sequence from the
# structure the message was rendered from
# ---------------------------------------------------------------------------------------------------------------------
def expected_tokens(units, trailing_sep=False):
    out = []
    for i, u in enumerate(units):
        if i:
            out.append(("tok", "ProgramMessageUnitSeparator"))
        if u.colon:
            out.append(("tok", "HeaderMnemonicSeparator"))
        for j, m in enumerate(u.path):
            if j:
                out.append(("tok", "HeaderMnemonicSeparator"))
            out.append(("tok", "ProgramMnemonic", m))
        if u.query:
            out.append(("tok", "HeaderQuerySuffix"))
        if u.params:
            out.append(("tok", "ProgramHeaderSeparator"))
            for j, p in enumerate(u.params):
                if j:
                    out.append(("tok", "ProgramDataSeparator"))
                out.append(("tok",) + tuple(p[:-1]))
    if trailing_sep:
        out.append(("tok", "ProgramMessageUnitSeparator"))
    return out


def tokenize(msg, limit=80):
    """-> list of token descriptions | ("undecided", why)"""
    eng = engine()
    u = eng.unit
    eng.step_budget, eng._steps_used, eng._forks_used = 16000, 0, 0
    try:
        rs = eng.run(u.body("scpi::parser::tokenizer::Tokenizer::new"), [M._mkslice(msg, 0)])
    except (fdai.TooManyPaths, RecursionError) as e:
        return ("undecided", type(e).__name__)
    if len(rs) != 1 or rs[0].outcome != "return":
        return ("undecided", "Tokenizer::new: %d paths" % len(rs))
    cell = Cell(rs[0].retval, "tokenizer")
    out = []
    for _ in range(limit):
        st = fdai.State()
        st.extra["obj"] = cell
        try:
            rr = eng.run(_C["tk_next"], [RefV(cell, (), True)], st)
        except (fdai.TooManyPaths, RecursionError) as e:
            return ("undecided", type(e).__name__)
        if len(rr) != 1 or rr[0].outcome != "return":
            return out + [("panic",)] if (len(rr) == 1 and rr[0].outcome == "panic") else ("undecided", "next(): %s" % [r.outcome for r in rr][:3])
        v = rr[0].retval
        if isinstance(v, EnumV) and v.name == "None":
            return out
        if not (isinstance(v, EnumV) and v.name == "Some"):
            return ("undecided", "next() gives %r" % (v,))
        d = _tok_desc(eng, rr[0], v.fields.get(0))
        out.append(d)
        if d[0] == "err":
            return out
        cell = rr[0].extra.get("obj")
    return out + [("...",)]


def token_table(tier):
    key = ("tokens", tier)
    if key in _C:
        return _C[key]
    rows = []
    seen = set()
    n_und = 0
    for name in ("params", "framing", "resolve"):
        for i, row in enumerate(CORPORA[name](tier)):
            us, trail = row[2], row[4]
            post = row[5] if len(row) > 5 else []
            us = list(us) + list(post)
            if any(isinstance(u, Raw) for u in us) or (name == "resolve" and tier != "thorough" and i % 4):
                continue
            msg = render(us, trail)
            if msg in seen:
                continue
            seen.add(msg)
            exp = expected_tokens(us, trail)
            if n_und > 3:
                rows.append((msg, "undecided: not evaluated (the first messages are undecided)"))
                continue
            got = tokenize(msg)
            if isinstance(got, tuple):
                n_und += 1
            ok = isinstance(got, list) and got == exp
            rows.append((msg, None if ok else ("undecided: %s" % (got[1],) if isinstance(got, tuple) else "lexed as %s, expected %s" % (_fmt_toks(got), _fmt_toks(exp)))))
    _C[key] = rows
    return rows


def _fmt_toks(ts):
    return "[" + " ".join((t[1][:14] + (":" + repr(t[2])[1:] if len(t) > 2 else "")) if t[0] == "tok" else "/".join(str(x) for x in t) for t in ts[:14]) + (" ..." if len(ts) > 14 else "") + "]"


def check_tokens(R, rule, tier, floor):
    rows = token_table(tier)
    bad = [(m, d) for m, d in rows if d]
    R.check(rows and not bad, rule, "messages:tokens", "Tokenizer::new and next() to the end on whole well-formed messages: the sequence of elements (kinds, payload bytes) is the decomposition the message was rendered from (%d messages)" % len(rows),
            "; ".join("%r: %s" % (m[:70], d) for m, d in bad[:3]) + (" (+%d more)" % (len(bad) - 3) if len(bad) > 3 else ""))
    R.count("messages_tokens", len(rows))
    R.floor(rule, "whole messages (token sequences)", len(rows), floor)
