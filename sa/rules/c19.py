"""C19 - channel lists and numeric lists parse to exactly the SCPI-denoted entries (structural clauses)."""
import re
from .. import facts, fdai, scpi_models as M, sym
from ..fdai import EnumV, AggV, K, SymV, RefV, Cell, Loc, TOP, load, snapshot
from . import dispatch as D, contrib as CB, lexer as LX

LEVEL = "other"
TECHNIQUE = "FDAI tables over byte classes for NumericList::next and ChannelList::next (which first byte, with `first` set or not, starts an entry / consumes a separator / is an error; pure helpers of tokenizer::util analysed in place), range-construction tables of read_numeric_data and read_channel_range (both ends from the same reader in text order; equal dimensions), value tables of the six ChannelSpec conversions folded on concrete specs of 1..4 dimensions (lexical-core's partial parser and the integer TryFroms by contract, workspace TryFrom/From impls and generic helpers in place); whole-list value tables: X::new(text) then next() to the end folded on complete lists vs a reference reading of SCPI-99 8.3.2/8.3.3; typed echo tables (sa/rules/echotable.py, witness/echo): `Node::run` folded end to end on messages to a witness command that pulls one parameter of the type (`next_data::<T>()` / `next_optional_data`) and writes it back - lexer, dispatcher, Parameters, the conversion, the ResponseData writer and the formatter analysed in place, lexical-core's parsers / integer writer by contract - the answer compared with a reference written from the property's statement: a handler iterating a numeric list / a channel list of two-dimensional specs and answering count and an order-sensitive checksum: entries, ranges, order, separators missing / doubled / leading, blanks, wrong dimension counts, numbers the target cannot hold; path names with any ASCII content; census of the parser's Iterator impls with every overridden method other than `next` folded against `next` (R19.13)"
LEVEL_TEXT = 'The two list iterators are enumerated over every class of the next byte x the `first` flag, yielding exact start-set tables (an entry starts only at the beginning or after exactly one comma; a leading or doubled comma and foreign characters are errors); the range readers are enumerated path by path with the provenance of both ends; the tuple conversions are decided by value: element i is the i-th number of the text, other dimension counts and unrepresentable numbers are refused.'
LEVEL_NOTE = "Not decided: value-level equality of the numbers (lexical-core / read_nrf, C04/C07); quoted path names reuse the string reader (C04). Trusted: rustc MIR, FDAI byte-cursor models."

CL = "scpi::parser::expression::channel_list::"
NL = "scpi::parser::expression::numeric_list::"


def _flat(t):
    out = []
    if isinstance(t, tuple):
        out.append(t)
        for x in t:
            out.extend(_flat(x))
    return out


def pure_util_bodies(u):
    """free functions of tokenizer::util that only classify a byte / compare byte strings (no cursor argument): analysed
    in place wherever a list iterator calls them, and their byte constants join the class partition"""
    out = []
    for b in u.bodies:
        if b.kind == "Fn" and b.npath.startswith("scpi::parser::tokenizer::util::") and not b.impl_trait and not b.in_trait:
            sig = str(b.j.get("sig") or "")
            if "Iter" not in sig and "&mut" not in sig and "&'a mut" not in sig and "-> bool" in sig:
                out.append(b)
    return out


def tuple_arity(self_ty):
    return self_ty.count(",") + 1 if self_ty.startswith("(") else 1


def run(R, tier):
    R.configs.append("dflt")
    P = D.prog()
    u = P.unit("scpi")
    eng = fdai.Engine(P, u, inline=lambda n, r: r.endswith("error::Error::new") or "From<error::ErrorCode>>::from" in r, models={})

    # ---- R19.1 tuple conversions: decided by value (R19.10). The earlier path-shape rule ("one iterator, dimension test,
    # element i from the i-th draw; unsigned through the signed tuple") demanded one particular organisation of the code and
    # reported behaviour-preserving rewrites (shared generic helper, direct unsigned parse); it is retired.
    # ---- R19.10 value tables of the conversions (sa/rules/chanspec.py) -----------------------------------------------------
    from . import chanspec as CS
    tab = CS.table(tier == "thorough")
    per = {}
    for (ty, txt), (got, ref, cb) in sorted(tab.items(), key=lambda kv: (kv[0][0], kv[0][1])):
        d = per.setdefault(ty, {"n": 0, "bad": [], "body": cb})
        d["n"] += 1
        if ref[0] == "Ok":
            if got != ref:
                d["bad"].append("%r converts to %s, the text denotes %s" % (txt, got, ref[1]))
        elif got[0] != "Err":
            d["bad"].append("%r converts to %s, expected an error (%s)" % (txt, got, "dimension count differs" if ref[1] == "syntax" else "number not representable"))
    for ty, d in sorted(per.items()):
        R.check(not d["bad"], "R19.1", "values:%s" % ty, "element i is the i-th number of the text; other dimension counts and unrepresentable numbers are refused (%d specs)" % d["n"], "; ".join(d["bad"][:3]), where=d["body"].span)
    R.floor("R19.1", "ChannelSpec conversions", len(per), 6)

    # ---- R19.13 Iterator methods other than `next` ------------------------------------------------------------------------
    CS.check_iterator_overrides(R, "R19.13")

    # ---- R19.9 / R19.3 NumericList::next start-set table -----------------------------------------------------
    nb = u.impl_methods("core::iter::Iterator", "next", "numeric_list::NumericList")
    if len(nb) != 1:
        R.anchor_lost("R19.9", "impl Iterator for NumericList")
    else:
        b = nb[0]
        nl_fields = [f["name"] for f in u.adts[NL + "NumericList"]["variants"][0]["fields"]]
        tk_fields = LX.tokenizer_fields(u)
        # the oracle's own distinguished bytes are always separate classes (a start byte missing from the code must show)
        pure = pure_util_bodies(u)
        pure_names = {x.npath for x in pure}
        consts = LX.byte_constants(u, [b] + pure) | {ord(c) for c in ",+-.:"}
        classes = LX.byte_classes(consts)
        models = dict(M.FOLD_MODELS)
        _inh = D.inline_inherent(("scpi::parser::expression::numeric_list::",), exclude=(NL + "NumericList::read_numeric_data",))
        engn = fdai.Engine(P, u, inline=lambda n, r: r.endswith(("error::Error::new", "error::Error::extended")) or r in pure_names or (not r.endswith("::read_numeric_data") and _inh(n, r)), models=models)
        bad = []
        n_rows = 0
        for cls in classes + [[]]:
            rep = cls[0] if cls else None
            cname = LX.class_name(cls) if cls else "END"
            for first in (True, False):
                st = fdai.State()
                st.extra["bytes"] = [rep, ord("1")] if rep is not None else []
                tk = LX.mk_tokenizer(*LX.state_for((False, False, False)))
                me = AggV(NL + "NumericList", {i: (tk if nm == "tokenizer" else K(first)) for i, nm in enumerate(nl_fields)})
                cell = Cell(me, "list")
                st.extra["me"] = cell
                res = engn.run(b, [RefV(cell, (), True)], st)
                n_rows += 1
                for r in res:
                    p = CB.Path(r)
                    reads = p.count("read_numeric_data")
                    fin = r.extra["me"].v
                    pos = None
                    fflag = None
                    if isinstance(fin, AggV):
                        t_ = fin.fields.get(nl_fields.index("tokenizer"))
                        ch = t_.fields.get(tk_fields.index("chars")) if isinstance(t_, AggV) else None
                        pos = ch.fields[0].v if isinstance(ch, AggV) and isinstance(ch.fields.get(0), K) else None
                        ff = fin.fields.get(nl_fields.index("first"))
                        fflag = ff.v if isinstance(ff, K) else None
                    # position when the entry reader was called
                    if rep is None:
                        ok = reads == 0 and isinstance(r.retval, EnumV) and r.retval.name == "None"
                    elif first and (chr(rep).isdigit() or chr(rep) in "+-."):
                        ok = reads == 1 and _pos_at_call(r, "read_numeric_data") == 0
                    elif (not first) and rep == ord(","):
                        ok = reads == 1 and _pos_at_call(r, "read_numeric_data") == 1
                    else:
                        ok = reads == 0 and "InvalidExpression" in M.outcome_inner(r)
                    if not ok:
                        bad.append((cname, first, p.describe()))
        R.count("numeric_list_rows", n_rows)
        R.check(not bad, "R19.9", "NumericList::next", "first entry starts at digit/+/-/. ; later entries only after exactly one consumed ','; anything else is -171", "numeric list entry start table is wrong for (byte class, first): %s" % bad[:4], where=b.span)
        # `first` is cleared once an entry has been read
        st = fdai.State()
        st.extra["bytes"] = [ord("1"), ord(",")]
        tk = LX.mk_tokenizer(*LX.state_for((False, False, False)))
        cell = Cell(AggV(NL + "NumericList", {i: (tk if nm == "tokenizer" else K(True)) for i, nm in enumerate(nl_fields)}), "list")
        st.extra["me"] = cell
        res = engn.run(b, [RefV(cell, (), True)], st)
        # the reader havocs *self in the abstract run; the flag must have been cleared before that call
        cleared = all(_flag_before_call(r, "read_numeric_data", nl_fields.index("first")) is False for r in res if CB.Path(r).count("read_numeric_data"))
        R.check(cleared and res, "R19.3", "NumericList:first-cleared", "`first` is cleared when the first entry is read", "the `first` flag of NumericList is not cleared before the first entry is read: later entries could start without a separator", where=b.span)
    # numeric range: both ends from read_nrf in text order
    rb = u.body(NL + "NumericList::read_numeric_data")
    res = eng.run(rb, [RefV(Cell(TOP, "list"), (), True)])
    kinds = set()
    good = bool(res)
    for r in res:
        p = CB.Path(r)
        nrfs = [e for e in p.calls if e.name.endswith("read_nrf")]
        v = r.retval
        if M.outcome(r) != "Ok":
            continue
        tok = v.fields.get(0)
        if isinstance(tok, EnumV) and tok.name == "Numeric":
            kinds.add("single")
            good = good and len(nrfs) == 1 and "read_nrf', %d," % nrfs[0].site in repr(snapshot(tok.fields.get(0)))
        elif isinstance(tok, EnumV) and tok.name == "NumericRange":
            kinds.add("range")
            good = good and len(nrfs) == 2 and "read_nrf', %d," % nrfs[0].site in repr(snapshot(tok.fields.get(0))) and "read_nrf', %d," % nrfs[1].site in repr(snapshot(tok.fields.get(1)))
        else:
            good = False
    R.check(good and kinds == {"single", "range"}, "R19.8", "NumericList::read_numeric_data", "a | a:b with both ends read by read_nrf in text order", "numeric range must be (first number read, second number read): %s" % [CB.Path(r).describe() for r in res], where=rb.span)

    # ---- R19.4 ChannelList::next table ------------------------------------------------------------------------------------
    cb_ = u.impl_methods("core::iter::Iterator", "next", "channel_list::ChannelList")
    if len(cb_) != 1:
        R.anchor_lost("R19.4", "impl Iterator for ChannelList")
    else:
        b = cb_[0]
        cl_fields = [f["name"] for f in u.adts[CL + "ChannelList"]["variants"][0]["fields"]]
        pure = pure_util_bodies(u)
        pure_names = {x.npath for x in pure}
        consts = LX.byte_constants(u, [b] + pure) | {ord(c) for c in ",+-.:!@\"'"}
        classes = LX.byte_classes(consts)
        _inhc = D.inline_inherent(("scpi::parser::expression::channel_list::",), exclude=tuple(CL + "ChannelList::" + m for m in ("read_channel_range", "read_channel_path", "read_channel_spec")))
        engc = fdai.Engine(P, u, inline=lambda n, r: r.endswith(("error::Error::new", "error::Error::extended")) or r in pure_names or (not r.endswith(("::read_channel_range", "::read_channel_path", "::read_channel_spec")) and _inhc(n, r)), models=dict(M.FOLD_MODELS))
        bad = []
        n_rows = 0

        def expect(byte):
            if byte is None:
                return "none"
            c = chr(byte)
            if c.isdigit() or c in "+-":
                return "range"
            if c in "\"'":
                return "path"
            return "error"

        for c1 in classes + [[]]:
            r1 = c1[0] if c1 else None
            seconds = classes + [[]] if r1 == ord(",") else [[ord("1")]]
            for c2 in seconds:
                r2 = c2[0] if c2 else None
                for first in (True, False):
                    st = fdai.State()
                    st.extra["bytes"] = [x for x in (r1, r2) if x is not None] if r1 is not None else []
                    me = AggV(CL + "ChannelList", {i: (M.mk_bytes_iter(0) if nm == "chars" else K(first)) for i, nm in enumerate(cl_fields)})
                    cell = Cell(me, "list")
                    st.extra["me"] = cell
                    res = engc.run(b, [RefV(cell, (), True)], st)
                    n_rows += 1
                    for r in res:
                        p = CB.Path(r)
                        rng, pth = p.count("read_channel_range"), p.count("read_channel_path")
                        other = [n for n in p.names if n not in ("read_channel_range", "read_channel_path", "clone", "next", "unwrap", "is_ascii_digit", "branch", "from_residual")]
                        if r1 == ord(","):
                            if first:
                                want = "error"
                                at = None
                            else:
                                want = expect(r2)
                                at = 1
                        else:
                            want = expect(r1)
                            at = 0
                        got = "range" if rng == 1 and pth == 0 else "path" if pth == 1 and rng == 0 else "none" if (isinstance(r.retval, EnumV) and r.retval.name == "None" and not rng and not pth) else "error" if ("InvalidExpression" in M.outcome_inner(r) and not rng and not pth) else "?"
                        ok = got == want and not other
                        if ok and want in ("range", "path"):
                            ok = _pos_at_call(r, "read_channel_range" if want == "range" else "read_channel_path") == at and _flag_before_call(r, "read_channel_range" if want == "range" else "read_channel_path", cl_fields.index("first")) is False
                            if want == "path":
                                pc = p.call("read_channel_path")
                                ok = ok and pc.args[1] == ("K", r2 if r1 == ord(",") else r1)
                        if not ok:
                            bad.append((LX.class_name(c1) if c1 else "END", LX.class_name(c2) if c2 else "END", first, p.describe()))
        R.count("channel_list_rows", n_rows)
        R.check(not bad, "R19.4", "ChannelList::next", "leading ',' and ',,' are errors; one ',' is consumed between entries; digit/sign -> spec or range, quote -> path name, anything else -171", "channel list dispatch table is wrong for (first byte, second byte, first): %s" % bad[:4], where=b.span)
    # ---- R19.5 / R19.8 channel range ----------------------------------------------------------------------------------------------
    rb = u.body(CL + "ChannelList::read_channel_range")
    res = eng.run(rb, [RefV(Cell(TOP, "list"), (), True)])
    kinds = set()
    good = bool(res)
    for r in res:
        p = CB.Path(r)
        specs = [e for e in p.calls if e.name.endswith("read_channel_spec")]
        if M.outcome(r) == "Err(InvalidExpression)" and len(specs) == 2:
            ne = [e for e in r.trace if e.kind == "assume" and e.name == "sym" and isinstance(e.args[0][2], tuple) and e.args[0][2][0] == "binop" and e.args[0][2][1] in ("Ne", "Eq")]
            if ne:
                kinds.add("dim-mismatch")
            continue
        if M.outcome(r) != "Ok":
            continue
        tok = r.retval.fields.get(0)
        if isinstance(tok, EnumV) and tok.name == "ChannelSpec":
            kinds.add("single")
            good = good and len(specs) == 1
        elif isinstance(tok, EnumV) and tok.name == "ChannelRange":
            kinds.add("range")
            a, b2 = snapshot(tok.fields.get(0)), snapshot(tok.fields.get(1))
            s0 = "read_channel_spec', %d," % specs[0].site
            s1 = "read_channel_spec', %d," % specs[1].site if len(specs) > 1 else "?"
            # begin = (slice, dim) of the first spec read, end = those of the second; guarded by dim1 == dim2
            ok = len(specs) == 2 and s0 in repr(a) and s1 not in repr(a) and s1 in repr(b2) and s0 not in repr(b2)
            eq = [e for e in r.trace if e.kind == "assume" and e.name == "sym" and isinstance(e.args[0][2], tuple) and e.args[0][2][0] == "binop" and e.args[0][2][1] in ("Ne", "Eq") and s0[:-1] in repr(e.args[0][2]) and s1[:-1] in repr(e.args[0][2])]
            ok = ok and len(eq) == 1 and ((eq[0].args[0][2][1] == "Ne" and eq[0].args[1] is False) or (eq[0].args[0][2][1] == "Eq" and eq[0].args[1] is True))
            good = good and ok
        else:
            good = False
    R.check(good and kinds == {"single", "range", "dim-mismatch"}, "R19.5", "ChannelList::read_channel_range", "a | a:b; both ends read by read_channel_spec in text order; range only when both ends have the same dimension, otherwise -171", "channel range construction must take (first spec read, second spec read) and require equal dimensions: %s" % [CB.Path(r).describe() for r in res][:6], where=rb.span)

    # ---- R19.11 whole-list value tables (sa/rules/listtable.py) ------------------------------------------------------------------------
    # X::new(text) followed by next() until the end, folded on representative complete lists: the entries yielded - and
    # where the first error falls - equal a reference reading of SCPI-99 8.3.2 / 8.3.3 (signs, exponents, ranges, `!`
    # dimensions, path names, doubled / leading / missing separators, characters glued to a closing quote ...).
    from . import listtable as LT
    for kind, label in (("numeric", "NumericList"), ("channel", "ChannelList")):
        rows = LT.table(kind)
        bad = ["%r: yields %s, the text denotes %s" % (t, g, e) for t, g, e in rows if g != e]
        R.check(rows and not bad, "R19.11", "entries:" + label, "entries and the position of the first error as denoted by the text (%d lists)" % len(rows), "; ".join(bad[:3]))

    # ---- R19.12 typed echo tables: lists iterated by a handler, end to end -----------------------------------------------------------
    from . import echotable as ET
    ET.check(R, "R19.12", "lists", tier, "`*NLIST? (...)` and `*CLIST? (@...)` through Node::run on the echo witness (the handler iterates the list, converts every number / two-dimensional spec and answers count and an order-sensitive checksum): entries, ranges with both ends, order; separators missing, doubled, leading; wrong dimension counts; numbers the target cannot hold", 40)

def _pos_at_call(r, short):
    for e in r.trace:
        if e.kind == "call" and e.name.split("::")[-1] == short:
            s = repr(e.args[0])
            m = re.search(r"\('agg', 'bytes-iter', \(\(0, \('K', (\d+)\)\)", s)
            return int(m.group(1)) if m else None
    return None


def _flag_before_call(r, short, idx):
    """value of bool field #idx of *self as seen in the snapshot of the reader call's receiver"""
    for e in r.trace:
        if e.kind == "call" and e.name.split("::")[-1] == short:
            a0 = e.args[0]
            # ('ref', tag, path, ('agg', kind, ((i, val), ...)))
            if a0[0] == "ref" and a0[3][0] == "agg":
                for i, v in a0[3][2]:
                    if i == idx and v[0] == "K":
                        return v[1]
    return None
