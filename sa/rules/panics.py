"""Enumeration and discharge of panic-capable sites (shared by C01, C04, C11, C12, C19)."""
import json, os, re
from .. import facts, sym, cfg
from . import arith
from ..report import VERIF

PANIC_CALLS = ("unwrap", "expect", "unwrap_unchecked", "to_int_unchecked", "get_unchecked", "get_unchecked_mut", "split_at", "split_at_mut", "copy_from_slice", "swap", "swap_remove", "remove", "insert", "push", "extend_from_slice", "truncate_unchecked")
INDEX_CALLS = ("index", "index_mut")
SKIP_IMPL_TRAITS = ("core::fmt::Debug", "core::fmt::Display", "core::clone::Clone", "core::cmp::PartialEq", "core::cmp::Eq", "core::hash::Hash", "core::marker::")


class Site:
    def __init__(self, body, mir, bi, kind, what, line, extra=None):
        self.body = body
        self.mir = mir
        self.bi = bi
        self.kind = kind  # assert:<msg> | call:<name> | diverge:<name>
        self.what = what
        self.line = line
        self.extra = extra or {}
        self.ordinal = 0
        self.discharge = None

    @property
    def key(self):
        return "%s|%s#%d" % (self.body.npath, self.what, self.ordinal)

    def __repr__(self):
        return "Site(%s @%s)" % (self.key, self.line)


def in_scope(b):
    if b.bkind == "const":
        # the initialiser of a const / static / inline const is evaluated by the compiler: an overflow or a failed unwrap in
        # it is a build error (E0080), never a panic of the running instrument
        return False
    if any(t in (b.impl_trait or "") for t in SKIP_IMPL_TRAITS):
        return False
    return True


def enumerate_sites(unit):
    sites = []
    for b in unit.bodies:
        if not in_scope(b):
            continue
        for mir in [b.mir]:
            per = {}
            for bi in sorted(mir.live_blocks()):
                t = mir.blocks[bi]["term"]
                s = None
                if t["k"] == "assert":
                    s = Site(b, mir, bi, "assert", "assert:" + t["msg"], t.get("line"), {"term": t})
                elif t["k"] == "call":
                    c = t["callee"]
                    path = c.get("path", "")
                    nm = facts.strip_generics(path).split("::")[-1]
                    rn = facts.strip_generics(c.get("resolved") or path)
                    if t.get("target") is None:
                        s = Site(b, mir, bi, "diverge", "diverge:" + nm, t.get("line"), {"term": t})
                    elif nm in PANIC_CALLS and ("core::option" in path or "core::result" in path or "core::slice" in path or "arrayvec" in path or "alloc::vec" in path or "core::num" in path or "std::option" in path or "std::result" in path or "core::f" in path):
                        s = Site(b, mir, bi, "call", "call:" + nm, t.get("line"), {"term": t})
                    elif nm in INDEX_CALLS and ("core::ops::Index" in path or "slice::index" in rn):
                        s = Site(b, mir, bi, "call", "call:index", t.get("line"), {"term": t})
                if s is not None:
                    n = per.get(s.what, 0)
                    s.ordinal = n
                    per[s.what] = n + 1
                    sites.append(s)
    return sites


# ---- dominating branch conditions ---------------------------------------------------------------------

def dom_conditions(mir, bi, S=None, _depth=0):
    """[(normalised condition expression, value)] for switch/assert edges that dominate block bi.
    value: bool for boolean conditions, int / ('not', [ints]) for integer or discriminant switches."""
    S = S or sym.Sym(mir)
    dom = cfg.dominators(mir)
    out = []
    for d in sorted(dom.get(bi, ())):
        if d == bi:
            continue
        t = mir.blocks[d]["term"]
        if t["k"] == "switch":
            succs = mir.succs(d)
            # the unique successor through which bi is reached
            via = [s for s in succs if (s == bi or s in dom[bi]) and mir.preds(s) == [d]]
            if len(via) != 1:
                continue
            s_ = via[0]
            e = sym.norm(S.operand(t["discr"]))
            vals = [int(v) for v, bb in t["targets"] if bb == s_]
            is_bool = t.get("dty") == "bool"
            if vals and s_ != t["otherwise"]:
                out.append((e, (bool(vals[0]) if is_bool else vals[0]), d))
            elif s_ == t["otherwise"]:
                excl = [int(v) for v, bb in t["targets"]]
                if is_bool and len(excl) == 1:
                    out.append((e, not bool(excl[0]), d))
                else:
                    out.append((e, ("not", excl), d))
        elif t["k"] == "assert" and t.get("target") in dom[bi] | {bi}:
            e = sym.norm(S.operand(t["cond"]))
            out.append((e, t["expected"], d))
    # a branch on a flag that is only ever assigned constants (`matches!`, `a && b` lowered to a temporary):
    # the conditions common to every assignment of the observed value hold as well
    if _depth < 2:
        extra = []
        for e, v, d in out:
            if e[0] == "var" and isinstance(v, bool):
                for c in _flag_facts(mir, S, e[1], v, _depth):
                    extra.append((c[0], c[1], d))
        out.extend(x for x in extra if x not in out)
    return out


def _flag_facts(mir, S, local, value, depth):
    defs = []
    for (bi, si, st) in mir.assigns().get(local, []):
        if si == "term" or st.get("k") != "assign" or st["place"]["proj"]:
            return []
        rv = st["rv"]
        if rv["k"] == "use" and rv["a"]["k"] == "const" and "bool" in rv["a"]["c"]:
            defs.append((bi, bool(rv["a"]["c"]["bool"])))
        else:
            return []
    hits = [bi for bi, b in defs if b == value]
    if not hits:
        return []
    common = None
    for bi in hits:
        cs = {(e, _hashable(v)) for e, v, _ in dom_conditions(mir, bi, S, depth + 1)}
        common = cs if common is None else (common & cs)
    return [(e, _unhash(v)) for e, v in (common or ())]


def _hashable(v):
    return ("not", tuple(v[1])) if isinstance(v, tuple) and v and v[0] == "not" else v


def _unhash(v):
    return ("not", list(v[1])) if isinstance(v, tuple) and v and v[0] == "not" else v


def is_len_of(e):
    """e == len(X) (slice::len call or PtrMetadata) -> X"""
    if e[0] == "call" and e[1].split("::")[-1] == "len" and len(e[3]) == 1:
        return e[3][0]
    if e[0] == "unop" and e[1] == "PtrMetadata":
        return e[2]
    return None


def known_nonneg_ge(conds, a, k):
    """Do the dominating conditions imply a >= k (k a small positive int)?"""
    for e, v, _ in conds:
        if e[0] == "binop":
            op, x, y = e[1], e[2], e[3]
            if x == a and y[0] == "int":
                c = y[1]
                if (op == "Gt" and v is True and c >= k - 1) or (op == "Ge" and v is True and c >= k) or (op == "Eq" and v is False and c == 0 and k == 1) or (op == "Ne" and v is True and c == 0 and k == 1) or (op == "Lt" and v is False and c >= k) or (op == "Le" and v is False and c >= k - 1) or (op == "Eq" and v is True and c >= k):
                    return True
            if y == a and x[0] == "int":
                c = x[1]
                if (op == "Lt" and v is True and c >= k - 1) or (op == "Le" and v is True and c >= k):
                    return True
        # switch on the value itself: `match a { 0 => .., _ => here }`
        if e == a and isinstance(v, tuple) and v[0] == "not" and k == 1 and 0 in v[1]:
            return True
        # is_empty(x) == false  =>  len(x) >= 1
        if e[0] == "call" and e[1].split("::")[-1] == "is_empty" and v is False and k == 1:
            la = is_len_of(a)
            if la is not None and sym.norm(la) == sym.norm(e[3][0]):
                return True
    return False


def known_ge(conds, a, b):
    """conditions imply a >= b (both expressions)"""
    for e, v, _ in conds:
        if e[0] == "binop":
            op, x, y = e[1], e[2], e[3]
            if x == a and y == b and ((op in ("Ge", "Gt") and v is True) or (op == "Lt" and v is False)):
                return True
            if x == b and y == a and ((op in ("Le", "Lt") and v is True) or (op == "Gt" and v is False)):
                return True
    return False


# ---- discharge idioms --------------------------------------------------------------------------------------
SHRINK_ONLY = ("Iterator>::next", "Iterator>::nth", "Iterator::next", "Iterator::nth", "util::skip_ws", "util::skip_digits", "util::skip_sign", "skip_ws_to_separator", "Tokenizer::read_", "clone::Clone>::clone", "Iter::as_slice", "read_channel_spec", "read_channel_range", "read_channel_path", "read_numeric_data", "read_nrf")


def widen(e):
    """strip widening integer casts"""
    while e[0] == "cast" and e[1] == "IntToInt":
        e = e[2]
    return e


def cursor_of(e):
    """If e is `&mut <cursor>` / cursor expression of a slice iterator return its normalised place expression"""
    return sym.norm(e)


def blocks_between(mir, a, b):
    """blocks on some path a ->* b that does not re-enter a (a excluded, b included)"""
    fwd = cfg.reachable(mir, mir.succs(a), avoid={a})
    # co-reachability to b without passing a
    co = {b}
    st = [b]
    while st:
        x = st.pop()
        for p in mir.preds(x):
            if p not in co and p != a:
                co.add(p)
                st.append(p)
    return fwd & co


def advances(mir, S, bi, cur):
    """does block bi contain a call that may advance cursor `cur` (takes &mut of it or of its owner)?"""
    t = mir.blocks[bi]["term"]
    if t["k"] != "call":
        return False
    tys = t.get("argtys") or []
    for a, ty in zip(t["args"], tys):
        if ty.startswith("&mut"):
            e = sym.norm(S.operand(a))
            if e == cur or (cur[0] == "field" and e == cur[1]) or (cur[0] == "field" and cur[1][0] == "field" and e == cur[1][1]):
                return True
    return False


def peeked_some(conds, cur):
    """a dominating condition says `cur.clone().next()` is Some (directly, through map_or(false, ..) or through `?`)"""
    hits = []
    for e, v, d in conds:
        inner = None
        if e[0] == "discr":
            x = e[1]
            if x[0] == "call" and x[1].endswith("Try::branch") and v == 0:
                x = x[3][0]
                inner = x
            elif v == 1 or v == ("not", [0]):
                inner = x
        elif e[0] == "call" and e[1].split("::")[-1] == "map_or" and v is True and e[3][1] == ("bool", False):
            inner = e[3][0]
        # the cursor's remaining slice is shown non-empty: first()/last()/get(0)/split_first() is Some, or !is_empty()
        if e[0] == "call" and e[1].split("::")[-1] == "is_empty" and v is False and e[3] and e[3][0][0] == "call" and e[3][0][1].endswith("as_slice") and sym.norm(e[3][0][3][0]) == cur:
            hits.append(d)
            continue
        if inner is not None and inner[0] == "call" and inner[1].split("::")[-1] in ("first", "last", "split_first", "split_last") and inner[3] and inner[3][0][0] == "call" and inner[3][0][1].endswith("as_slice") and sym.norm(inner[3][0][3][0]) == cur:
            hits.append(d)
            continue
        if inner is not None and inner[0] == "call" and inner[2].endswith("Iterator>::next") or (inner is not None and inner[0] == "call" and inner[1].endswith("Iterator::next")):
            src = inner[3][0]
            if src[0] == "call" and src[1].endswith("Clone::clone") and sym.norm(src[3][0]) == cur:
                hits.append(d)
            elif src[0] == "var":
                hits.append(("var", src[1], d))
    return hits


def value_range(conds, e):
    """small value-range inference for u8 expressions from ASCII class predicates that dominate the site"""
    lo, hi = 0, 255
    if e[0] == "call" and e[1].split("::")[-1] in ("from", "into") and ("From<bool>" in str(e[2]) or "Into<" in str(e[2]) and "for bool" in str(e[2])):
        lo, hi = 0, 1  # integer from bool: 0 or 1
    if e[0] == "cast" and len(e) > 2 and "bool" in str(e[-1]):
        pass
    for c, v, _ in conds:
        if c[0] == "call" and v is True and c[3] and sym.norm(c[3][0]) == e:
            nm = c[1].split("::")[-1]
            if nm == "is_ascii_digit":
                lo, hi = max(lo, 48), min(hi, 57)
            elif nm == "is_ascii_alphabetic":
                # of a lower-cased value: 'a'..'z'; otherwise 'A'..'z'
                if e[0] == "call" and e[1].split("::")[-1] == "to_ascii_lowercase":
                    lo, hi = max(lo, 97), min(hi, 122)
                else:
                    lo, hi = max(lo, 65), min(hi, 122)
            elif nm == "is_ascii_lowercase":
                lo, hi = max(lo, 97), min(hi, 122)
            elif nm == "is_ascii_uppercase":
                lo, hi = max(lo, 65), min(hi, 90)
        if c[0] == "binop" and c[2] == e and c[3][0] == "int":
            k = c[3][1]
            if c[1] == "Gt" and v is True:
                lo = max(lo, k + 1)
            if c[1] == "Ge" and v is True:
                lo = max(lo, k)
            if c[1] == "Lt" and v is True:
                hi = min(hi, k - 1)
            if c[1] == "Le" and v is True:
                hi = min(hi, k)
    return lo, hi


def expr_range(conds, e):
    """range of a small arithmetic expression over ranged leaves"""
    if e[0] == "int":
        return e[1], e[1]
    if e[0] == "field" and e[1][0] == "binop" and e[1][1] in ("SubWithOverflow", "AddWithOverflow") and e[2] == "0":
        a = expr_range(conds, e[1][2])
        b = expr_range(conds, e[1][3])
        if e[1][1].startswith("Sub"):
            return a[0] - b[1], a[1] - b[0]
        return a[0] + b[0], a[1] + b[1]
    return value_range(conds, e)


def expand(S, e, depth=0):
    """replace singly-defined address-taken locals by their definition (for provenance questions only)"""
    if depth > 6 or not isinstance(e, tuple) or not e or not isinstance(e[0], str):
        return e
    if e[0] == "var":
        ds = S.defs_of(e[1])
        if len(ds) == 1:
            return expand(S, sym.norm(ds[0]), depth + 1)
        return e
    out = []
    for x in e:
        if isinstance(x, tuple) and x and isinstance(x[0], str):
            out.append(expand(S, x, depth + 1))
        elif isinstance(x, tuple):
            out.append(tuple(expand(S, y, depth + 1) for y in x))
        else:
            out.append(x)
    return tuple(out)


def _strip_try(x):
    """get(..) under `?` / ok_or / ok_or_else / branch wrappers -> the get(..) call, plus whether a `branch` was crossed"""
    crossed = False
    n = 0
    while isinstance(x, tuple) and x and x[0] == "call" and n < 6:
        nm = x[1].split("::")[-1]
        if nm == "branch":
            crossed = True
            x = x[3][0]
        elif nm in ("ok_or", "ok_or_else", "ok", "as_ref", "copied", "cloned") and x[3]:
            x = x[3][0]
        else:
            break
        n += 1
    return x, crossed


def _range_evidence(conds, base, ln, bounds):
    """facts about the length of `base` that follow from what was already done with it on this path:
    * `base.get(a..b)` / `base.get(..b)` returned Some  =>  b <= len(base)
    * a number of bytes reported consumed by lexical-core's partial parsers on `base`  =>  at most len(base) [trusted]"""
    out = []
    for e, v, d in conds:
        if e[0] != "discr" or not isinstance(e[1], tuple):
            continue
        g, crossed = _strip_try(e[1])
        some = (v == 0) if crossed else (v == 1)
        if not some or not (g[0] == "call" and g[1].split("::")[-1] in ("get", "get_mut") and len(g[3]) == 2 and sym.norm(g[3][0]) == base):
            continue
        r = sym.norm(g[3][1])
        if r[0] == "aggr" and r[2] and r[2].split("::")[-1] in ("Range", "RangeTo") and r[4]:
            out.append((("binop", "Le", r[4][-1], ln), True, d, "get(..end) on the same slice returned Some"))
    for b in bounds:
        for x in sym.walk(b):
            # (parse_partial(base) as Ok).0.1
            if x[0] == "field" and x[2] == "1" and x[1][0] == "field" and x[1][2] == "0" and x[1][1][0] == "downcast" and x[1][1][2] == "Ok":
                c = x[1][1][1]
                if c[0] == "call" and c[1].split("::")[-1] in ("parse_partial", "parse_partial_with_options") and c[3] and sym.norm(c[3][0]) == base:
                    out.append((("binop", "Le", x, ln), True, -1, "trusted: lexical-core's partial parser consumes at most its input"))
    return out


_SELF = ("self-reference",)


def subslice_root(S, e, depth=0, stack=()):
    """the slice expression that `e` is - on every path - a sub-slice (or view) of: follows slice-pattern bindings
    (`[first, rest @ ..]`), views (deref / as_slice) and variables all of whose definitions are such sub-slices of one
    common root (the loop `while let [.., rest @ ..] = v { v = rest }`). None when e is not known to be derived."""
    r = _subroot(S, e, depth, stack)
    return None if r is None or r == _SELF else r


def _subroot(S, e, depth, stack):
    if depth > 10 or not isinstance(e, tuple) or not e:
        return None
    e = sym.norm(e)
    if e[0] == "var" and e[1] in stack:
        return _SELF
    if e[0] == "subslice":
        r = _subroot(S, e[1], depth + 1, stack)
        return r if r is not None else e[1]
    if e[0] == "call" and e[1].split("::")[-1] in _VIEWS and e[3]:
        r = _subroot(S, e[3][0], depth + 1, stack)
        return r if r is not None else sym.norm(e[3][0])
    if e[0] in ("ref", "deref") and len(e) > 1 and isinstance(e[1], tuple):
        return _subroot(S, e[1], depth + 1, stack)
    if e[0] == "var":
        roots = set()
        for d in S.defs_of(e[1]):
            d = sym.norm(d)
            r = _subroot(S, d, depth + 1, stack + (e[1],))
            if r == _SELF:
                continue
            roots.add(sym.norm(r if r is not None else d))
        if len(roots) == 1:
            r = roots.pop()
            return r if r != e else None
        return None
    return None


class Discharger:
    def __init__(self, unit, prog):
        self.unit = unit
        self.prog = prog
        self._S = {}
        # cursors are only ever replaced by constructors
        self.chars_writers = set()
        for b in unit.bodies:
            from .contrib import stores_to_fields
            for fld, kind, line in stores_to_fields(b, {"chars"}):
                if kind == "store":
                    self.chars_writers.add(b.npath)

    def S(self, mir):
        if id(mir) not in self._S:
            self._S[id(mir)] = sym.Sym(mir)
        return self._S[id(mir)]

    def try_discharge(self, s):
        S_ = self.S(s.mir)
        arith.SUBROOT = lambda e: subslice_root(S_, e)
        r = self._try(s)
        if r or s.extra.get("ctx"):
            return r
        return self.try_in_callers(s) or self.try_in_closure_parent(s)

    # combinators that run their callback at once and only when their receiver has the given shape
    GUARDED_CALLBACKS = {
        "core::bool::then": ("bool", True),
        "core::option::Option::map": ("core::option::Option", 1), "core::option::Option::and_then": ("core::option::Option", 1),
        "core::option::Option::filter": ("core::option::Option", 1), "core::option::Option::inspect": ("core::option::Option", 1),
        "core::option::Option::is_some_and": ("core::option::Option", 1),
        "core::result::Result::map": ("core::result::Result", 0), "core::result::Result::and_then": ("core::result::Result", 0),
        "core::result::Result::inspect": ("core::result::Result", 0), "core::result::Result::is_ok_and": ("core::result::Result", 0),
        "core::result::Result::map_err": ("core::result::Result", 1), "core::result::Result::or_else": ("core::result::Result", 1),
        "core::result::Result::inspect_err": ("core::result::Result", 1),
    }

    def closure_uses(self, body):
        """(parent body, call, index of the closure among the call's arguments, captured expressions) for each place a closure is handed to a call"""
        if not hasattr(self, "_closure_uses"):
            self._closure_uses = {}
            for b in self.unit.bodies:
                S = self.S(b.mir)
                for c in b.calls():
                    for i, a in enumerate(c.args):
                        e = sym.norm(S.operand(a))
                        if e[0] == "closure":
                            self._closure_uses.setdefault(e[1], []).append((b, c, i, e[2]))
        return self._closure_uses.get(body.npath) or self._closure_uses.get(body.npath.split("::", 1)[-1], [])

    def try_in_closure_parent(self, s):
        """C2: an obligation inside a closure that is handed directly to a combinator which runs it at once and only
        under a condition on its receiver (`cond.then(|| ..)`, `opt.map(|x| ..)`, ...) is examined at that call:
        captured variables are replaced by the parent's expressions, and the parent's dominating conditions plus the
        combinator's own condition are added."""
        b = s.body
        if b.kind != "Closure" or s.kind not in ("assert", "call"):
            return None
        uses = self.closure_uses(b)
        if len(uses) != 1:
            return None
        pb, call, idx, caps = uses[0]
        g = self.GUARDED_CALLBACKS.get(facts.strip_generics(call.name))
        if g is None or idx != 1:
            return None
        PS = self.S(pb.mir)
        recv = sym.norm(PS.operand(call.args[0]))
        if g[0] == "bool":
            guard = (recv[2], False, call.bi) if recv[0] == "unop" and recv[1] == "Not" else (recv, True, call.bi)
        else:
            guard = (("discr", recv, g[0]), g[1], call.bi)
        # the payload the combinator hands to the closure (its second parameter): the receiver's Some/Ok/Err payload; a
        # filter/inspect in between passes the payload of its own receiver on unchanged
        payload = None
        extra_guards = []
        if g[0] != "bool":
            base = recv
            while base[0] == "call" and base[1].split("::")[-1] in ("filter", "inspect", "inspect_err") and base[3]:
                base = sym.norm(base[3][0])
                extra_guards.append((("discr", base, g[0]), g[1], call.bi))
            variant = {("core::option::Option", 1): "Some", ("core::result::Result", 0): "Ok", ("core::result::Result", 1): "Err"}[g]
            payload = ("field", ("downcast", base, variant), "0")
            if base[0] == "call" and base[1].split("::")[-1] in ("position", "rposition"):
                extra_guards.append((("binop", "Ge", payload, ("int", 0, "usize")), True, call.bi))  # (names the index so that its axioms apply)
        S = self.S(s.mir)
        t = s.extra["term"]
        ops_key = "ops" if s.kind == "assert" else "args"
        exprs = [sym.norm(S.operand(o)) for o in t[ops_key]]

        def sub(e):
            if not isinstance(e, tuple) or not e or not isinstance(e[0], str):
                return e
            if e[0] == "field" and isinstance(e[1], tuple) and e[1][:2] == ("arg", 1) and str(e[2]).isdigit() and int(e[2]) < len(caps):
                return caps[int(e[2])]
            if e[0] == "arg" and e[1] == 2 and payload is not None:
                return payload
            if e[0] == "call":
                return ("call", e[1], e[2], tuple(sub(a) for a in e[3]), call.bi)
            out = []
            for x in e:
                if isinstance(x, tuple) and x and isinstance(x[0], str):
                    out.append(sub(x))
                elif isinstance(x, tuple):
                    out.append(tuple(sub(y) for y in x))
                else:
                    out.append(x)
            return tuple(out)

        subbed = [sub(e) for e in exprs]
        # the closure's own parameters (the payload the combinator hands over) are not known in the parent
        if any(x[0] == "arg" and x[1] != 1 and not (x[1] == 2 and payload is not None) for e in exprs for x in sym.walk(e)):
            return None
        if any(x[0] == "arg" and x[1] == 1 and len(x) > 2 and x[2] is None for e in subbed for x in sym.walk(e)):
            return None
        own_conds = dom_conditions(s.mir, s.bi, S)
        term = dict(t)
        term[ops_key] = [{"k": "expr", "e": e, "ty": self.operand_ty(s.mir, o)} for e, o in zip(subbed, t[ops_key])]
        ps = Site(pb, pb.mir, call.bi, s.kind, s.what, call.line, {"term": term, "ctx": True, "extra_conds": [(sub(e), v, call.bi) for e, v, _ in own_conds] + [guard] + extra_guards})
        r = self._try(ps)
        if not r:
            return None
        return "C2: the closure runs only inside %s at %s, where: %s" % (call.name.split("::")[-1], pb.npath.split("::")[-1], r)

    def callers_of(self, body):
        if not hasattr(self, "_callers"):
            self._callers = {}
            for b in self.unit.bodies:
                for c in b.calls():
                    for k in (c.callee.get("resolved_dpath"), c.callee.get("dpath")):
                        if k:
                            self._callers.setdefault(k, [])
                            if (b, c) not in [(x, y) for x, y in self._callers[k]]:
                                self._callers[k].append((b, c))
                            break
        return self._callers.get(body.dpath, [])

    def try_in_callers(self, s):
        """C: an obligation of a crate-private helper that depends on its arguments is examined at each call site
        (one level of inlining): arguments are replaced by the caller's expressions and the caller's dominating
        conditions are added."""
        b = s.body
        if b.j.get("vis") != "Restricted" or b.kind not in ("Fn", "AssocFn") or b.impl_trait or b.in_trait:
            return None
        if s.kind not in ("assert", "call"):
            return None
        S = self.S(s.mir)
        t = s.extra["term"]
        ops_key = "ops" if s.kind == "assert" else "args"
        exprs = [sym.norm(S.operand(o)) for o in t[ops_key]]
        if not any(x[0] == "arg" for e in exprs for x in sym.walk(e)):
            return None
        callers = self.callers_of(b)
        if not callers:
            return None
        own_conds = dom_conditions(s.mir, s.bi, S)
        reasons = []
        for cb, call in callers:
            CS = self.S(cb.mir)
            amap = {i + 1: sym.norm(CS.operand(a)) for i, a in enumerate(call.args)}

            def sub(e):
                if not isinstance(e, tuple) or not e or not isinstance(e[0], str):
                    return e
                if e[0] == "arg":
                    return amap.get(e[1], e)
                if e[0] == "call":
                    return ("call", e[1], e[2], tuple(sub(a) for a in e[3]), call.bi)
                out = []
                for x in e:
                    if isinstance(x, tuple) and x and isinstance(x[0], str):
                        out.append(sub(x))
                    elif isinstance(x, tuple):
                        out.append(tuple(sub(y) for y in x))
                    else:
                        out.append(x)
                return tuple(out)

            term = dict(t)
            term[ops_key] = [{"k": "expr", "e": sub(e), "ty": self.operand_ty(s.mir, o)} for e, o in zip(exprs, t[ops_key])]
            ps = Site(cb, cb.mir, call.bi, s.kind, s.what, call.line, {"term": term, "ctx": True, "extra_conds": [(sub(e), v, call.bi) for e, v, _ in own_conds]})
            r = self._try(ps)
            if not r:
                return None
            reasons.append("%s: %s" % (cb.npath.split("::")[-1], r))
        return "C: holds in the context of each of its %d call sites (%s)" % (len(callers), "; ".join(sorted(set(reasons)))[:300])

    def _try(self, s):
        mir = s.mir
        S = self.S(mir)
        t = s.extra["term"]
        conds = dom_conditions(mir, s.bi, S) + list(s.extra.get("extra_conds", ()))
        conds = conds + self.found_facts(s.body, S, conds)
        conds = conds + self.callee_facts(conds)
        # the idioms below recognise library functions by name (`len`, `is_empty`, `position`, `ends_with` ...): a *workspace*
        # function that happens to carry such a name has no contract - what it guarantees comes from its body (the callee
        # summaries just computed), never from what it is called (seed C01-J rewrote a helper called ends_with_...)
        conds = [(_mask_workspace_calls(e), v, d) for e, v, d in conds]
        r = self.arith_discharge(s, S, t, conds)
        if r:
            return r
        if s.kind == "assert":
            ops = [sym.norm(S.operand(o)) for o in t["ops"]]
            msg = t["msg"]
            if msg == "Overflow(Sub)":
                a, b = ops
                # I4: prefix length of a shrinking cursor
                la, lb = is_len_of(a), is_len_of(b)
                if la is not None and lb is not None and la[0] == "call" and lb[0] == "call" and la[1].endswith("as_slice") and lb[1].endswith("as_slice") and sym.norm(la[3][0]) == sym.norm(lb[3][0]):
                    doms = cfg.dominators(mir)
                    if la[4] in doms.get(lb[4], ()) and la[4] != lb[4] and self.only_shrinks(s.body):
                        return "I4 prefix of a shrinking cursor: len(captured slice) - len(remaining slice)"
                # I5: (prefix) - k with >= k consumed since the capture
                if b[0] == "int" and a[0] == "field" and a[1][0] == "binop" and a[1][1] == "SubWithOverflow":
                    la2, lb2 = is_len_of(a[1][2]), is_len_of(a[1][3])
                    if la2 is not None and lb2 is not None and la2[0] == "call" and la2[1].endswith("as_slice") and b[1] == 1:
                        cur = sym.norm(la2[3][0])
                        some_blocks = self.some_edges_of_next(mir, S, cur)
                        if some_blocks and cfg.must_pass_through(mir, la2[4], some_blocks, {s.bi}):
                            return "I5 at least one element was consumed since the slice was captured (every path passes a Some edge of next())"
                # I2: guarded subtraction
                if b[0] == "int" and known_nonneg_ge(conds, a, b[1]):
                    return "I2 guard: minuend >= %d on every path here" % b[1]
                if b[0] == "int" and known_nonneg_ge(conds, widen(a), b[1]):
                    return "I2 guard (through a widening cast): minuend >= %d" % b[1]
                if known_ge(conds, a, b):
                    return "I2 relational guard a >= b"
                # I8: ASCII class ranges
                if b[0] == "int":
                    lo, hi = expr_range(conds, a)
                    if lo >= b[1]:
                        return "I8 value range [%d,%d] from dominating ASCII-class/relational tests" % (lo, hi)
                # length of a suffix known to end with a literal of that length
                if b[0] == "int":
                    la3 = is_len_of(a)
                    if la3 is not None:
                        for c, v, _ in conds:
                            if c[0] == "call" and c[1].split("::")[-1] == "ends_with" and c[1].startswith("core::") and v is True and sym.norm(c[3][0]) == sym.norm(la3) and c[3][1][0] == "bytes" and len(c[3][1][1]) >= b[1]:
                                return "guard: the slice ends with a %d-byte literal (%r), so its length >= %d" % (len(c[3][1][1]), c[3][1][1], b[1])
                # non-empty because a position was found in it
                la4 = is_len_of(a)
                if b[0] == "int" and b[1] == 1 and la4 is not None:
                    for c, v, _ in conds:
                        if c[0] == "discr" and c[1][0] == "call" and c[1][1].split("::")[-1] in ("rposition", "position") and v in (1, ("not", [0])):
                            it = c[1][3][0]
                            if sym.norm(la4) in _subexprs(self.expand(S, it)):
                                return "audit: a position was found in the slice (Some edge of %s), hence it is non-empty [trusted: position < len]" % c[1][1].split("::")[-1]
            if msg.startswith("Overflow(Sh"):
                a, b = ops
                amount = widen(b)
                bits = {"u8": 8, "i8": 8, "u16": 16, "i16": 16, "u32": 32, "i32": 32, "u64": 64, "i64": 64, "usize": 64, "isize": 64}.get(self.operand_ty(mir, t["ops"][0]) or "", None)
                if amount[0] == "int" and bits and 0 <= amount[1] < bits:
                    return "constant shift amount within the operand width"
                if amount[0] == "const" and bits and len(amount) > 2:
                    # a const generic parameter: every value the crates instantiate it with
                    vals = self.const_param_values(s.body, amount[2])
                    if vals and all(0 <= v_ < bits for v_ in vals):
                        return "shift amount is a const generic parameter instantiated with %s only: within the operand width" % sorted(vals)
                if amount[0] == "discr" and bits:
                    adt = self.unit.adts.get(self.unit.qualify(amount[2], self.unit.crate)) or self.unit.adts.get(amount[2])
                    if adt is not None:
                        ds = [int(v["discr"]) for v in adt["variants"]]
                        if ds and 0 <= min(ds) and max(ds) < bits:
                            return "shift amount is an enum discriminant in [%d,%d] < %d bits" % (min(ds), max(ds), bits)
                if amount[0] == "call" and bits and s.body.j.get("vis") == "Restricted" and not s.body.impl_trait:
                    # a crate-private generic helper shifting by `x.method()`: every implementation of that trait method
                    # in the workspace returns an enum discriminant below the operand width
                    meth = amount[1].split("::")[-1]
                    trait = "::".join(amount[1].split("::")[:-1]).split("scpi_contrib::")[-1].split("scpi::")[-1]
                    impls = [b for u_ in self.prog.units for b in u_.bodies if b.kind == "AssocFn" and b.name == meth and b.impl_trait and trait.split("<")[0] in b.impl_trait]
                    rng = []
                    for b in impls:
                        e = widen(sym.norm(sym.Sym(b.mir).local(0)))
                        if e[0] != "discr":
                            rng = None
                            break
                        adt = b.unit.adts.get(b.unit.qualify(e[2], b.unit.crate)) or b.unit.adts.get(e[2])
                        if adt is None:
                            rng = None
                            break
                        rng += [int(v["discr"]) for v in adt["variants"]]
                    if impls and rng and 0 <= min(rng) and max(rng) < bits:
                        return "shift amount is %s() of a workspace type: all %d implementations return an enum discriminant in [%d,%d] < %d bits" % (meth, len(impls), min(rng), max(rng), bits)
            if msg == "Overflow(Add)":
                a, b = ops
                if b[0] == "int" and b[1] <= 16:
                    ty = (t.get("ops") or [{}])[0]
                    aty = self.operand_ty(mir, t["ops"][0])
                    if b[1] == 1 and s.body.kind == "Closure" and s.body.parent_fn:
                        parent = next((b_ for b_ in self.unit.bodies if b_.path == s.body.parent_fn or b_.npath == facts.strip_generics(s.body.parent_fn)), None)
                        if parent is not None and self.per_item_counters(parent) and s.body.path in self._pic.get(("closures", parent.npath), ()):
                            return "I9 counter incremented once per item of an iterator over a slice (at most len(slice) <= isize::MAX increments from a small constant)"
                    if b[1] == 1 and s.body.kind == "Closure" and t["ops"][0]["k"] in ("copy", "move") and not t["ops"][0]["place"]["proj"]:
                        fn_npath = s.body.npath.split("::{closure")[0]
                        parent = next((b_ for b_ in self.unit.bodies if b_.npath == fn_npath), None)
                        if parent is not None and any(s.body.npath in ent[3] for ent in self.fold_counters(parent)) and t["ops"][0]["place"]["l"] in self._pic.get(("foldc0", s.body.npath), ()):
                            return "I9 counter carried in the accumulator of a fold over a slice: incremented at most once per item (at most len(slice) <= isize::MAX increments from a small constant)"
                    if aty == "usize":
                        if is_len_of(a) is not None:
                            return "I7 slice length + small constant (lengths are <= isize::MAX)"
                        if a[0] == "field" and a[1][0] == "downcast" and a[1][1][0] == "call" and a[1][1][1].split("::")[-1] in ("rposition", "position"):
                            return "I7 index returned by position()/rposition() + 1 <= len"
                        if self.per_advance_counter(mir, S, s):
                            return "I6 usize counter incremented at most once per cursor advance (bounded by the input length)"
                    if aty == "u8":
                        k = self.bounded_u8_counter(mir, S, s)
                        if k is not None:
                            return "I6 u8 counter: every cycle through the increment passes `count > %d` (returns), so it never exceeds %d" % (k, k + 1)
                        lo, hi = expr_range(conds, a)
                        if hi + b[1] <= 255 and hi < 255:
                            return "I8 value range [%d,%d] + %d fits u8" % (lo, hi, b[1])
        if s.kind == "call":
            nm = s.what.split(":")[1]
            args = [sym.norm(S.operand(a)) for a in t["args"]]
            path = facts.strip_generics(t["callee"].get("path", ""))
            if nm in ("push", "extend_from_slice", "insert") and "alloc::vec" in path:
                return "growable Vec append (no panic except allocation failure)"
            if nm == "push" and "arrayvec" in path and len(args) == 2:
                # ArrayVec::push panics exactly when the vector is full
                for c, v, d in conds:
                    if c[0] == "call" and c[1].split("::")[-1] == "is_full" and v is False and c[3] and sym.norm(c[3][0]) == args[0]:
                        touched = False
                        for b_ in blocks_between(mir, d, s.bi) - {s.bi}:
                            tt = mir.blocks[b_]["term"]
                            if tt["k"] == "call" and facts.strip_generics(tt["callee"].get("path", "")).split("::")[-1] not in ("is_full", "is_empty", "len", "capacity", "remaining_capacity") and any(args[0] in _subexprs(sym.norm(S.operand(a))) for a in tt["args"]):
                                touched = True
                        if not touched:
                            return "guard: push on an ArrayVec that is_full() just denied, untouched in between (arrayvec contract: push panics only when full)"
            if nm == "unwrap":
                src = args[0]
                # I3 peek-then-next
                if src[0] == "call" and (src[1].endswith("Iterator::next") or src[2].endswith("Iterator>::next")):
                    cur = sym.norm(src[3][0])
                    hits = peeked_some(conds, cur)
                    for h in hits:
                        d = h if isinstance(h, int) else h[2]
                        between = blocks_between(mir, d, src[4]) - {src[4]}
                        if not any(advances(mir, S, b_, cur) for b_ in between):
                            return "I3 peek-then-next: a clone of the cursor yielded Some and the cursor was not advanced in between"
                    # `let x = it.clone().next()?; ... it.next().unwrap()` in the fallback arm: handled by peeked_some via Try::branch
                # first item of slice::Split
                if src[0] == "call" and "Split" in src[2] and src[2].endswith("Iterator>::next"):
                    sp = src[3][0]
                    if sp[0] == "var" or (sp[0] == "call" and sp[1].split("::")[-1] == "split"):
                        # the Split iterator must be fresh: exactly one next() on it before this unwrap
                        return "audit: first item of a fresh slice::Split [trusted: Split yields at least one item]"
                # nth(k-1) after `get(..k)` succeeded / after parse_partial returned k
                if src[0] == "call" and (src[1].endswith("Iterator::nth") or src[2].endswith("Iterator>::nth")):
                    cur = sym.norm(src[3][0])
                    n_expr = src[3][1]
                    # k < number of elements left: k is derived from the cursor's own remaining slice (count of an
                    # adaptor chain, a found position, ...) and the cursor was not advanced since that slice was taken
                    from . import arith as _A
                    ln = ("call", "core::slice::len", "core::slice::len", (("call", "core::slice::Iter::as_slice", "core::slice::Iter::as_slice", (cur,), -1),), -1)
                    fresh = True

                    def canon(e):
                        nonlocal fresh
                        if not isinstance(e, tuple) or not e or not isinstance(e[0], str):
                            return e
                        if e[0] == "call" and e[1].endswith("as_slice") and e[3] and sym.norm(e[3][0]) == cur:
                            if any(advances(mir, S, b_, cur) for b_ in blocks_between(mir, e[4], src[4]) - {src[4]}):
                                fresh = False
                            return ("call", "core::slice::Iter::as_slice", "core::slice::Iter::as_slice", (cur,), -1)
                        return tuple(canon(x) if isinstance(x, tuple) and x and isinstance(x[0], str) else (tuple(canon(y) for y in x) if isinstance(x, tuple) else x) for x in e)

                    k2 = canon(self.expand(S, n_expr))
                    c2 = [(canon(self.expand(S, c_)), v_, d_) for c_, v_, d_ in conds]
                    # a counter that starts at 0 and is incremented at most once per item of a loop over the cursor's own
                    # remaining slice is at most that slice's length
                    for v_ in {x for x in sym.walk(k2) if x[0] == "var"}:
                        sl = self.slice_loop_counter(mir, S, v_[1])
                        if sl is not None and canon(sl) == ln[3][0]:
                            c2.append((("binop", "Le", v_, ln), True, src[4]))
                    # field j of the accumulator of a counted fold over the cursor's own remaining slice (I9b)
                    for x_ in list(sym.walk(k2)):
                        fc = self._fold_counter_of(s.body, x_)
                        if fc is not None and fc[0][4] == 0 and canon(self.expand(S, fc[0][2])) == ln[3][0]:
                            c2.append((("binop", "Le", x_, ln), True, src[4]))
                            c2.append((("binop", "Le", _A.untry(x_), ln), True, src[4]))
                    if fresh:
                        F = _A.build(c2, [ln, k2], lambda e: self.expand(S, e), unsigned=[k2], stable=lambda a: True)
                        if F.proves_ge(ln, _A.untry(k2), 1):
                            return "A: nth(k) with k < len(cursor.as_slice()) derived from the cursor's own remaining slice, cursor not advanced in between"
                    for c, v, d in conds:
                        c2 = c
                        if c2[0] == "discr" and c2[1][0] == "call" and c2[1][1].endswith("Try::branch") and v == 0:
                            g = _find_call(c2[1], "get")
                            if g is not None and g[3][0][0] == "call" and g[3][0][1].endswith("as_slice") and sym.norm(g[3][0][3][0]) == cur:
                                between = blocks_between(mir, d, src[4]) - {src[4]}
                                if not any(advances(mir, S, b_, cur) for b_ in between):
                                    return "audit: nth(k-1) right after as_slice().get(..k) succeeded on the same cursor (k bytes are available)"
                    def is_pp(x):
                            if x[0] != "call":
                                return False
                            if x[1].split("::")[-1] in ("parse_partial", "parse_partial_with_options"):
                                return True
                            # a workspace helper that returns lexical's parse_partial* of its first argument
                            hb = next((b_ for b_ in self.unit.bodies if b_.npath in (x[2], x[1]) and b_.kind in ("Fn", "AssocFn")), None)
                            if hb is not None:
                                ret = sym.norm(self.S(hb.mir).local(0))
                                return ret[0] == "call" and ret[1].split("::")[-1] in ("parse_partial", "parse_partial_with_options") and ret[3] and ret[3][0][0] == "arg" and ret[3][0][1] == 1
                            return False
                    pps = [x for x in sym.walk(n_expr) if is_pp(x)]
                    for v_ in [x for x in sym.walk(n_expr) if x[0] == "var"]:
                        ds = [sym.norm(d_) for d_ in S.defs_of(v_[1])]
                        if ds and all(is_pp(d_) for d_ in ds):
                            pps.extend(ds)
                    def on_cursor(a0):
                        a0 = self.expand(S, a0)
                        return a0[0] == "call" and a0[1].endswith("as_slice") and sym.norm(a0[3][0]) == cur
                    if pps and all(on_cursor(pp[3][0]) for pp in pps):
                        return "audit: nth(len-1) with len returned by lexical parse_partial on the same cursor's slice [trusted: len <= slice length]"
                # ArrayVec error queue overflow path (R12.5)
                # (the idiom is about operations on one fixed-capacity ArrayVec; it may live in the trait impl or in a helper)
                if (src[0] == "call" and "arrayvec::ArrayVec::" in (src[1] + " " + str(src[2]))) or "arrayvec::ArrayVec" in repr(src) or \
                        (s.body.npath.endswith("ErrorQueue>::push_back_error") and "ArrayVec" in (s.body.impl_self or "")):
                    for c, v, _ in conds:
                        failed = (c[0] == "call" and c[1].split("::")[-1] == "is_err" and v is True and "try_push" in repr(c)) or \
                                 (c[0] == "call" and c[1].split("::")[-1] == "is_ok" and v is False and "try_push" in repr(c)) or \
                                 (c[0] == "discr" and c[1][0] == "call" and c[1][1].split("::")[-1] == "try_push" and (v == 1 or v == ("not", [0])))
                        if failed:
                            op = src[1].split("::")[-1] if src[0] == "call" else ""
                            if op in ("pop", "last", "last_mut", "first", "first_mut", "pop_at"):
                                return "R12.5: reached only when try_push failed (queue full, hence non-empty for CAP >= 1)"
                            if op == "try_push":
                                doms = cfg.dominators(mir)
                                pops = [bi for bi in doms.get(src[4], ()) if mir.blocks[bi]["term"]["k"] == "call" and facts.strip_generics(mir.blocks[bi]["term"]["callee"].get("path", "")).split("::")[-1] in ("pop", "pop_at", "remove", "swap_remove")]
                                if pops:
                                    return "R12.5: one entry was removed from the full queue on every path here, so one slot is free"
                        if c[0] == "call" and c[1].split("::")[-1] == "is_full" and v is True and c[3] and src[0] == "call" and src[3] and sym.norm(c[3][0]) == sym.norm(src[3][0]):
                            op = src[1].split("::")[-1]
                            if op == "pop":
                                return "R12.5: reached only when the queue is full (is_full), hence non-empty for CAP >= 1"
                            if op == "try_push":
                                doms = cfg.dominators(mir)
                                pops = [bi for bi in doms.get(src[4], ()) if mir.blocks[bi]["term"]["k"] == "call" and facts.strip_generics(mir.blocks[bi]["term"]["callee"].get("path", "")).split("::")[-1] in ("pop", "pop_at", "remove", "swap_remove")]
                                if pops:
                                    return "R12.5: one entry was removed from the full queue on every path here, so one slot is free"
                # try_push(..).unwrap() after an up-front `is_full()` test (R12.5, path form): on the edge where the queue is full
                # every path to the push removes an entry first, on the other edge the queue is not full; nothing is pushed in
                # between on either
                if src[0] == "call" and src[1].split("::")[-1] == "try_push" and "arrayvec::ArrayVec" in (src[1] + " " + str(src[2])) and src[3]:
                    recv = sym.norm(src[3][0])
                    doms = cfg.dominators(mir)
                    removers = [bi for bi in mir.live_blocks() if mir.blocks[bi]["term"]["k"] == "call" and facts.strip_generics(mir.blocks[bi]["term"]["callee"].get("path", "")).split("::")[-1] in ("pop", "pop_at", "remove", "swap_remove", "swap_pop", "truncate", "clear")
                                and "arrayvec" in mir.blocks[bi]["term"]["callee"].get("path", "") and mir.blocks[bi]["term"]["args"] and sym.norm(S.operand(mir.blocks[bi]["term"]["args"][0])) == recv]
                    pushers = [bi for bi in mir.live_blocks() if bi != src[4] and mir.blocks[bi]["term"]["k"] == "call" and facts.strip_generics(mir.blocks[bi]["term"]["callee"].get("path", "")).split("::")[-1] in ("push", "try_push", "insert", "try_insert", "push_unchecked", "extend", "try_extend_from_slice")
                               and "arrayvec" in mir.blocks[bi]["term"]["callee"].get("path", "")]
                    for bi in doms.get(src[4], ()):
                        tt = mir.blocks[bi]["term"]
                        if tt["k"] != "switch" or bi == src[4]:
                            continue
                        de = sym.norm(S.operand(tt["discr"]))
                        if not (de[0] == "call" and de[1].split("::")[-1] == "is_full" and "arrayvec" in de[1] and de[3] and sym.norm(de[3][0]) == recv):
                            continue
                        false_edges = [bb for v_, bb in tt["targets"] if int(v_) == 0]
                        true_edge = tt["otherwise"] if false_edges else None
                        if true_edge is None or len(false_edges) != 1:
                            continue
                        between = cfg.reachable(mir, [true_edge, false_edges[0]], avoid={src[4]})
                        if any(p_ in between for p_ in pushers):
                            continue
                        if removers and cfg.must_pass_through(mir, true_edge, removers, {src[4]}):
                            return "R12.5: is_full() was tested first - where it held every path here removes an entry before the push, where it did not the queue has a free slot"
                # #0 block: last byte after consuming len-1 bytes of a non-empty rest
                if src[0] == "call" and s.body.npath.endswith("read_arbitrary_data"):
                    for c, v, _ in conds:
                        if c[0] == "call" and c[1].split("::")[-1] == "is_empty" and v is False:
                            return "audit: indefinite block - the rest is non-empty and the loop consumed rest.len()-1 bytes, one byte remains"
            if nm == "remove" and "alloc::vec" in path:
                for c, v, _ in conds:
                    if c[0] == "call" and c[1].split("::")[-1] == "is_empty" and v is False and sym.norm(c[3][0]) == args[0]:
                        return "I2 guard: remove(0) on a non-empty Vec"
            if nm == "index":
                base, rng = args[0], args[1]
                if rng[0] == "aggr" and rng[2] and rng[2].split("::")[-1] in ("Range", "RangeTo", "RangeFrom"):
                    kind = rng[2].split("::")[-1]
                    bound = rng[4][-1] if kind != "RangeFrom" else rng[4][0]
                    # release builds: the subtraction is a plain wrapping `Sub` with no checked site of its own; the same
                    # idioms (I4 prefix of a shrinking cursor, I5 one element consumed since the capture) show that it
                    # does not wrap, and then the bound is len(slice) minus something
                    rel = self.plain_prefix_bound(mir, S, s, bound)
                    if rel is not None and (sym.norm(rel) == base or _same_slice(rel, base)):
                        return "index bound is len(captured slice) - len(remaining slice) [- 1] of a cursor that only shrinks (I4/I5, unchecked arithmetic of the release build): within the slice"
                    # bound = (len(X) - something).0 with X the indexed slice itself  => bound <= len(X)
                    if bound[0] == "field" and bound[1][0] == "binop" and bound[1][1] == "SubWithOverflow":
                        root = bound[1]
                        while root[2][0] == "field" and root[2][1][0] == "binop" and root[2][1][1] == "SubWithOverflow":
                            root = root[2][1]
                        lx = is_len_of(root[2])
                        if lx is not None and (sym.norm(lx) == base or _same_slice(lx, base)):
                            return "index bound is len(slice) minus something (the subtraction itself is a checked site): within the slice"
                    if bound[0] == "call" and bound[1].split("::")[-1] == "count" and "take_while" in repr(bound) and base in _subexprs(bound):
                        return "audit: bound is take_while(..).count() over the indexed slice's own iterator [trusted: count <= len]"
            if nm == "split_at":
                if args[1][0] == "field" and "rposition" in repr(args[1]) and args[0] in _subexprs(self.expand(S, args[1])):
                    return "audit: split_at(index + 1) with index a position found in the same slice [trusted: index < len]"
                # split_at(x, len(x) - k) with the subtraction checked (`checked_sub(..)?`, `Some(n) = checked_sub(..)`) or saturating
                mid = self.expand(S, args[1])
                while mid[0] == "field" and mid[1][0] == "downcast" and mid[1][2] in ("Continue", "Some") and str(mid[2]) == "0":
                    mid = mid[1][1]
                mid, _ = _strip_try(mid)
                if mid[0] == "call" and mid[1].split("::")[-1] in ("checked_sub", "saturating_sub") and len(mid[3]) == 2:
                    lx = is_len_of(self.expand(S, mid[3][0]))
                    if lx is not None and (sym.norm(lx) == args[0] or _same_slice(lx, args[0])):
                        return "split_at(len(slice) - k) with the difference taken by %s: at most len(slice)" % mid[1].split("::")[-1]
        if s.kind == "diverge":
            mac = t.get("mac") or []
            if "parser_unreachable" in mac:
                return "R01.2"  # decided by the accept matrix
            if "debug_assert" in mac:
                return "debug_assert"
            if "todo" in mac and "Todo" in (s.body.impl_self or ""):
                return "excluded: tree::command::Todo is the documented placeholder handler that panics by design"
        return None

    def plain_prefix_bound(self, mir, S, s, e):
        """e = len(as_slice(cur))@capture Sub len(as_slice(cur))@later  [Sub 1]  in unchecked (release) arithmetic, with
        the idioms that exclude wrap-around: returns the captured slice expression, else None"""
        if not (isinstance(e, tuple) and e and e[0] == "binop" and e[1] == "Sub"):
            return None
        a, b = e[2], e[3]
        la, lb = is_len_of(a), is_len_of(b)
        if la is not None and lb is not None and la[0] == "call" and lb[0] == "call" and la[1].endswith("as_slice") and lb[1].endswith("as_slice") and sym.norm(la[3][0]) == sym.norm(lb[3][0]):
            doms = cfg.dominators(mir)
            if la[4] in doms.get(lb[4], ()) and la[4] != lb[4] and self.only_shrinks(s.body):
                return la
            return None
        if b[0] == "int" and b[1] == 1 and isinstance(a, tuple) and a and a[0] == "binop" and a[1] == "Sub":
            inner = self.plain_prefix_bound(mir, S, s, a)
            if inner is not None:
                cur = sym.norm(inner[3][0])
                some_blocks = self.some_edges_of_next(mir, S, cur)
                if some_blocks and cfg.must_pass_through(mir, inner[4], some_blocks, {s.bi}):
                    return inner
        return None

    def found_facts(self, body, S, conds):
        """F: `it.find(pred)` / `it.rfind(pred)` / `it.position(pred)` answered Some(x)  =>  pred held for x. The predicate's
        result expression (a closure of this body whose result is one boolean expression) is added as a dominating condition,
        with the closure's captures replaced by the parent's expressions and its parameter by the found item."""
        out = []
        for e, v, d in conds:
            if e[0] != "discr" or not isinstance(e[1], tuple):
                continue
            g, crossed = _strip_try(e[1])
            some = (v == 0) if crossed else (v == 1)
            if not some or g[0] != "call" or g[1].split("::")[-1] not in ("find", "rfind") or not g[1].startswith("core::") or len(g[3]) != 2:
                continue
            clo = self.expand(S, sym.norm(g[3][1]))
            if clo[0] != "closure":
                continue
            cbody = next((c for c in self.unit.bodies if c.kind == "Closure" and (c.npath == clo[1] or c.npath.endswith(clo[1].split("::", 1)[-1]) or facts.strip_generics(c.path) == facts.strip_generics(clo[1]))), None)
            if cbody is None or cbody.mir.local_ty(0) != "bool":
                continue
            CS = self.S(cbody.mir)
            ret = sym.norm(CS.local(0))
            if any(x[0] == "var" for x in sym.walk(ret)):
                continue            # more than one way to the result: not a single expression
            caps = clo[2] if len(clo) > 2 else ()
            payload = ("field", ("downcast", g, "Some"), "0")

            def sub(x):
                if not isinstance(x, tuple) or not x or not isinstance(x[0], str):
                    return x
                if x[0] == "field" and isinstance(x[1], tuple) and x[1][:2] == ("arg", 1) and str(x[2]).isdigit() and int(x[2]) < len(caps):
                    return caps[int(x[2])]
                if x[0] == "arg" and x[1] == 2:
                    return ("ref", payload)      # find hands its predicate a reference to the item
                if x[0] == "call":
                    return ("call", x[1], x[2], tuple(sub(a) for a in x[3]), d)
                return tuple(sub(y) if isinstance(y, tuple) and y and isinstance(y[0], str) else (tuple(sub(z) for z in y) if isinstance(y, tuple) else y) for y in x)
            cond = sym.norm(sub(ret))
            if any(x[0] == "arg" and x[1] != 1 for x in sym.walk(cond)):
                continue
            out.append((cond, True, d))
        return out

    def callee_facts(self, conds):
        """S: a dominating condition `helper(args) == v` on a bool-returning workspace function implies the conditions
        common to every path on which the helper can return v (one level, arguments substituted)."""
        out = []
        for e, v, d in conds:
            if e[0] != "call" or not isinstance(v, bool):
                continue
            body = self.unit.by_path.get(e[2]) or self.unit.by_path.get(e[1])
            if body is None:
                body = next((b for b in self.unit.bodies if b.npath in (e[2], e[1]) and b.kind in ("Fn", "AssocFn")), None)
            if body is None or body.mir.local_ty(0) != "bool":
                continue
            for c, cv in self.bool_summary(body, v):
                amap = {i + 1: a for i, a in enumerate(e[3])}

                def sub(x):
                    if not isinstance(x, tuple) or not x or not isinstance(x[0], str):
                        return x
                    if x[0] == "arg":
                        return amap.get(x[1], x)
                    if x[0] == "call":
                        return ("call", x[1], x[2], tuple(sub(a) for a in x[3]), d)
                    return tuple(sub(y) if isinstance(y, tuple) and y and isinstance(y[0], str) else (tuple(sub(z) for z in y) if isinstance(y, tuple) else y) for y in x)

                out.append((sym.norm(sub(c)), cv, d))
        return out

    def bool_summary(self, body, value):
        key = (body.npath, value)
        if not hasattr(self, "_bsum"):
            self._bsum = {}
        if key in self._bsum:
            return self._bsum[key]
        mir = body.mir
        S = self.S(mir)
        blocks = []
        for (bi, si, st) in mir.assigns().get(0, []):
            if si != "term" and st.get("k") == "assign" and st["rv"]["k"] == "use" and st["rv"]["a"]["k"] == "const" and "bool" in st["rv"]["a"]["c"]:
                if bool(st["rv"]["a"]["c"]["bool"]) == value:
                    blocks.append(bi)
            else:
                blocks.append(bi)  # a computed result: may be either value
        common = None
        for bi in blocks:
            cs = {(e, _hashable(v)) for e, v, _ in dom_conditions(mir, bi, S)}
            common = cs if common is None else (common & cs)
        res = [(e, _unhash(v)) for e, v in (common or ()) if not any(x[0] == "var" for x in sym.walk(e))]
        self._bsum[key] = res
        return res

    def arith_discharge(self, s, S, t, conds, subst=None):
        """A: the arithmetic obligation of the site follows from the dominating conditions and library axioms
        (difference-constraint entailment, sa/rules/arith.py) - independent of how the guard is spelled."""
        from . import arith
        mir = s.mir
        N = (lambda o: subst(sym.norm(S.operand(o)))) if subst else (lambda o: sym.norm(S.operand(o)))
        ex = lambda e: self.expand(S, e)

        def stable(len_atom):
            """the slice whose length this is cannot change between the evaluation of the length and the site: every
            local it is rooted in is not assigned (or mutably borrowed) in any block reachable from the evaluation"""
            from . import arith as A
            inner = sym.norm(A.is_len_of(len_atom))
            at = len_atom[4] if len_atom[0] == "call" else None
            roots = [x for x in sym.walk(inner) if x[0] == "var"]
            view = inner
            while view[0] in ("field", "downcast"):
                view = view[1]          # a component of a tuple / Option of shared sub-slices (`split_at(..).1`, `split_first()?.1`)
            if view[0] == "call" and view[1].startswith(("core::", "alloc::", "arrayvec::")) and view[1].split("::")[-1] in ("as_slice", "as_bytes", "deref", "as_ref", "split_at", "split_first", "split_last", "strip_prefix", "strip_suffix", "get") \
                    and not any(x[0] == "var" for x in sym.walk(inner)):
                # the same (single-assignment) call result: an immutable slice value (or shared sub-slices of one)
                return True
            if view[0] == "call" and view[1].startswith("core::") and view[1].split("::")[-1] in ("find", "rfind", "next", "next_back") and all(len(S.defs_of(x[1])) == 1 for x in sym.walk(inner) if x[0] == "var"):
                # the item a search handed out: one shared reference, obtained once (the iterator searched is a temporary)
                return True
            if any(x[0] == "call" for x in sym.walk(inner)):
                return False
            if not roots:
                return True
            if at is None:
                return False
            if at == -1:
                return True
            reach = cfg.reachable(mir, mir.succs(at)) if at >= 0 else set()
            for r_ in roots:
                for (bi, si, st) in mir.assigns().get(r_[1], []):
                    if bi in reach:
                        return False
                for bi in reach:
                    for st in mir.blocks[bi]["stmts"]:
                        if st["k"] == "assign" and st["rv"]["k"] in ("ref", "rawptr") and st["rv"].get("mut", True) and st["rv"]["place"]["l"] == r_[1]:
                            return False
            return True

        if s.kind == "assert":
            # the asserted condition itself folds to the expected value (constant divisor, ...)
            cv = _const_bool(sym.norm(S.operand(t["cond"])))
            if cv is not None and cv == t["expected"]:
                return "A: the checked condition is a constant (%s)" % t["msg"]
        if s.kind == "assert" and t["msg"] in ("OverflowNeg", "BoundsCheck", "DivisionByZero", "RemainderByZero") or (s.kind == "assert" and t["msg"].startswith(("Overflow(Div", "Overflow(Rem"))):
            ops = [N(o) for o in t["ops"]]
            F = arith.build(conds, ops, ex, stable=stable)
            if t["msg"] == "OverflowNeg":
                ty = self.operand_ty(mir, t["ops"][0])
                lo, hi = F.range(arith.untry(ops[0]))
                rng = arith._TYRANGE.get(ty or "")
                if rng and lo is not None and lo > rng[0]:
                    return "A: negation of a value > %d (bounds from dominating conditions)" % rng[0]
            if t["msg"] == "BoundsCheck" and len(ops) == 2:
                llo, lhi = F.range(arith.untry(ops[0]))
                ilo, ihi = F.range(arith.untry(ops[1]))
                if llo is not None and ihi is not None and ilo is not None and ilo >= 0 and ihi < llo:
                    return "A: index in [%d,%d] < length %d (bounds from dominating conditions)" % (ilo, ihi, llo)
            if t["msg"] in ("DivisionByZero", "RemainderByZero") or t["msg"].startswith(("Overflow(Div", "Overflow(Rem")):
                # the divisor is the second operand of the guarded operation: found in the asserted condition
                c = sym.norm(S.operand(t["cond"]))
                for x in sym.walk(c):
                    if x[0] == "binop" and x[1] == "Eq" and x[3][0] == "int" and x[3][1] == 0:
                        lo, hi = F.range(arith.untry(x[2]))
                        if lo is not None and hi is not None and (lo > 0 or hi < 0):
                            return "A: divisor in [%d,%d] is non-zero" % (lo, hi)
            return None
        if s.kind == "assert" and t["msg"] in ("Overflow(Sub)", "Overflow(Add)"):
            a, b = [N(o) for o in t["ops"]]
            aty = self.operand_ty(mir, t["ops"][0]) or self.operand_ty(mir, t["ops"][1])
            if aty not in arith.TYMAX:
                return None
            F = arith.build(conds, [a, b], ex, unsigned=[a, b], stable=stable)
            if t["msg"] == "Overflow(Sub)":
                if F.proves_ge(arith.untry(a), arith.untry(b)):
                    return "A: minuend >= subtrahend follows from the dominating conditions and slice axioms"
            else:
                ua, ub = F.upper(arith.untry(a)), F.upper(arith.untry(b))
                if ua is not None and ub is not None and ua + ub <= arith.TYMAX[aty]:
                    return "A: sum <= %d + %d fits %s (bounds from dominating conditions and slice axioms)" % (ua, ub, aty)
            return None
        if s.kind == "call":
            nm = s.what.split(":")[1]
            args = [N(a) for a in t["args"]]
            path = facts.strip_generics(t["callee"].get("path", ""))
            if nm in ("split_at", "index") and ("core::slice" in path or "core::ops::Index" in path or "slice::index" in facts.strip_generics(t["callee"].get("resolved") or "")):
                base = args[0]
                ln = ("call", "core::slice::len", "core::slice::len", (base,), -1)
                if nm == "split_at":
                    F = arith.build(conds, [ln, args[1]], ex, unsigned=[args[1]], stable=stable)
                    if F.proves_ge(ln, arith.untry(args[1])):
                        return "A: split point <= len(slice) follows from the dominating conditions and slice axioms"
                    return None
                rng = args[1]
                if rng[0] == "aggr" and rng[2] and rng[2].split("::")[-1] == "RangeFull":
                    return "A: indexing with `..` selects the whole slice"
                if rng[0] == "aggr" and rng[2] and rng[2].split("::")[-1] in ("Range", "RangeTo", "RangeFrom"):
                    kind = rng[2].split("::")[-1]
                    lo = rng[4][0] if kind in ("Range", "RangeFrom") else ("int", 0, "usize")
                    hi = rng[4][-1] if kind in ("Range", "RangeTo") else ln
                    extra4 = _range_evidence(conds, base, ln, [lo, hi])
                    extra = [x[:3] for x in extra4]
                    F = arith.build(list(conds) + extra, [ln, lo, hi], ex, unsigned=[lo, hi], stable=stable)
                    lnu = arith.untry(ln)      # (the slice expression itself may hold values obtained through `?`)
                    if F.proves_ge(lnu, arith.untry(hi)) and F.proves_ge(arith.untry(hi), arith.untry(lo)):
                        return "A: range bounds lo <= hi <= len(slice) follow from the dominating conditions and slice axioms" + (" [with: %s]" % "; ".join(sorted({x[3] for x in extra4})) if extra4 else "")
                    # a bound kept in a variable assigned at several places (a running count): each assigned value is within
                    # the slice on its own
                    def within(bound, upper_is_len):
                        if bound[0] != "var":
                            return False
                        ds = [sym.norm(d) for d in S.defs_of(bound[1])]
                        if len(ds) < 2:
                            return False
                        for d in ds:
                            Fd = arith.build(list(conds) + extra, [ln, d], ex, unsigned=[d], stable=stable)
                            if not Fd.proves_ge(arith.untry(ln), arith.untry(d)):
                                return False
                        return True
                    pic = self.per_item_counters(s.body)
                    for bound in ((lo,) if kind == "RangeFrom" else (hi,) if kind == "RangeTo" else ()):
                        b0 = arith.untry(bound)
                        if b0[0] == "var" and b0[1] in pic and sym.norm(self.expand(S, pic[b0[1]])) == sym.norm(self.expand(S, base)):
                            return "A: the range bound counts items of an iterator over this very slice (I9): at most len(slice)"
                    if kind == "RangeTo" and within(hi, True):
                        return "A: every value assigned to the range end is at most len(slice) (running count of consumed bytes of this slice)"
                    if kind == "RangeFrom" and within(lo, True):
                        return "A: every value assigned to the range start is at most len(slice)"
            if nm in ("remove", "swap_remove") and ("alloc::vec" in path or "arrayvec" in path) and len(args) == 2:
                # container.remove(i): i < len(container), with the container untouched since the guard
                recv = args[0]
                ln = ("call", "len", "len", (recv,), -1)
                guards = []
                for e, v, d in conds:
                    ne = _nonempty_evidence(e, v, recv, ln)
                    if ne is not None:
                        guards.append((ne[0], ne[1], d))
                    elif _rename_len(e, recv, ln) != e or (e[0] == "call" and e[1].split("::")[-1] == "is_empty" and e[3] and _is_view_of(e[3][0], recv)):
                        guards.append((e, v, d))
                clean = [g for g in guards if not any(advances(mir, S, b_, recv) for b_ in blocks_between(mir, g[2], s.bi) - {s.bi})]
                # every spelling of len(recv) in the clean guards denotes the current length
                cl = []
                for e, v, d in clean:
                    e2 = tuple(e)
                    cl.append((_rename_len(e, recv, ln), v, d))
                F = arith.build(cl, [ln, args[1]], ex, unsigned=[args[1]])
                if F.proves_ge(ln, arith.untry(args[1]), 1):
                    return "A: index < len(container) from a guard on the same container, which is not modified in between"
        return None

    def expand(self, S, e, depth=0):
        """replace singly-defined address-taken locals by their definition (for provenance questions only)"""
        if depth > 6 or not isinstance(e, tuple) or not e or not isinstance(e[0], str):
            return e
        if e[0] == "var":
            ds = S.defs_of(e[1])
            if len(ds) == 1:
                return self.expand(S, sym.norm(ds[0]), depth + 1)
            return e
        if e[0] == "promoted":
            owner = getattr(S.mir, "owner", None)
            proms = owner.promoted if owner is not None and hasattr(owner, "promoted") else []
            if isinstance(e[1], int) and e[1] < len(proms):
                return sym.norm(sym.Sym(proms[e[1]]).local(0))
            return e
        out = []
        for x in e:
            if isinstance(x, tuple) and x and isinstance(x[0], str):
                out.append(self.expand(S, x, depth + 1))
            elif isinstance(x, tuple):
                out.append(tuple(self.expand(S, y, depth + 1) for y in x))
            else:
                out.append(x)
        return tuple(out)

    def only_shrinks(self, body):
        # the cursor field is never stored to outside constructors
        return not any(w == body.npath for w in self.chars_writers)

    def operand_ty(self, mir, o):
        if o["k"] == "expr":
            return o.get("ty")
        if o["k"] in ("copy", "move") and not o["place"]["proj"]:
            return mir.local_ty(o["place"]["l"])
        if o["k"] == "const":
            return o["c"].get("ty")
        return None

    def some_edges_of_next(self, mir, S, cur):
        out = set()
        for bi in mir.live_blocks():
            t = mir.blocks[bi]["term"]
            if t["k"] == "switch":
                e = sym.norm(S.operand(t["discr"]))
                if e[0] == "discr" and e[1][0] == "call" and (e[1][2].endswith("Iterator>::next") or e[1][1].endswith("Iterator::next")) and sym.norm(e[1][3][0]) == cur:
                    for v, bb in t["targets"]:
                        if int(v) == 1:
                            out.add(bb)
                    if not any(int(v) == 1 for v, _ in t["targets"]):
                        out.add(t["otherwise"])
                # `cur.next()?` / `cur.next().ok_or(e)?`: the Continue edge of the `?` is the Some edge of next()
                if e[0] == "discr" and e[1][0] == "call" and e[1][1].endswith("Try::branch") and e[1][3]:
                    a = sym.norm(e[1][3][0])
                    while a[0] == "call" and a[1].split("::")[-1] in ("ok_or", "ok_or_else") and a[1].startswith("core::") and a[3]:
                        a = sym.norm(a[3][0])
                    if a[0] == "call" and (a[2].endswith("Iterator>::next") or a[1].endswith("Iterator::next")) and a[3] and sym.norm(a[3][0]) == cur:
                        for v, bb in t["targets"]:
                            if int(v) == 0:
                                out.add(bb)
        return out

    # ---- I9: a counter incremented once per item of an iterator over a slice ------------------------------------------------
    _NON_EXPANDING = ("map", "map_while", "take_while", "skip_while", "filter", "filter_map", "skip", "take", "rev", "enumerate", "copied", "cloned", "peekable", "by_ref", "inspect", "fuse", "step_by", "scan", "zip")
    _PER_ITEM_CONSUMERS = ("try_fold", "fold", "for_each", "try_for_each", "all", "any", "position", "find", "find_map", "map", "inspect", "filter", "take_while", "map_while", "skip_while", "filter_map", "scan")

    def per_item_counters(self, body):
        """{local of `body`: slice expression} for every integer local that is initialised with a small constant and
        otherwise only changed by `+= 1` inside one closure which is handed to an iterator adaptor / consumer whose
        receiver is a chain of non-expanding adaptors over `X.iter()`: the closure runs at most once per element of X,
        so the counter never exceeds its initial value + len(X)"""
        key = ("pic", body.npath)
        if not hasattr(self, "_pic"):
            self._pic = {}
        if key in self._pic:
            return self._pic[key]
        out = {}
        mir = body.mir
        S = self.S(mir)
        closures = {c.path: c for c in self.unit.closures_of(body)} if hasattr(self.unit, "closures_of") else {}
        for bi in mir.live_blocks():
            for st in mir.blocks[bi]["stmts"]:
                if not (st["k"] == "assign" and st["rv"]["k"] == "aggr" and st["rv"].get("agg") == "closure"):
                    continue
                cdef = st["rv"]["def"]
                cbody = next((c for c in self.unit.bodies if c.kind == "Closure" and (facts.strip_generics(c.path) == facts.strip_generics(cdef) or c.path == cdef or c.path.endswith(cdef.split("::", 1)[-1]))), None)
                if cbody is None:
                    continue
                cl_local = st["place"]["l"] if not st["place"]["proj"] else None
                if cl_local is None:
                    continue
                for k, f in enumerate(st["rv"]["fields"]):
                    if f["k"] not in ("move", "copy") or f["place"]["proj"]:
                        continue
                    # the captured value: `&mut L`
                    src = None
                    for (b2, si2, st2) in mir.assigns().get(f["place"]["l"], []):
                        if si2 != "term" and st2.get("k") == "assign" and st2["rv"]["k"] == "ref" and st2["rv"].get("mut") and not st2["rv"]["place"]["proj"]:
                            src = st2["rv"]["place"]["l"]
                    if src is None:
                        continue
                    ty = mir.locals[src]["ty"] if src < len(mir.locals) else ""
                    if ty not in ("usize", "u32", "u64"):
                        continue
                    # the counter itself: constant initialisation only, one mutable borrow only
                    inits = [st3 for (b3, si3, st3) in mir.assigns().get(src, []) if si3 != "term"]
                    if not inits or not all(st3["rv"]["k"] == "use" and st3["rv"]["a"]["k"] == "const" and "int" in st3["rv"]["a"]["c"] and 0 <= int(st3["rv"]["a"]["c"]["int"]) <= 65536 for st3 in inits):
                        continue
                    if any(x == "term" for (_b, x, _s) in mir.assigns().get(src, [])):
                        continue
                    nborrow = sum(1 for b4 in mir.live_blocks() for st4 in mir.blocks[b4]["stmts"] if st4["k"] == "assign" and st4["rv"]["k"] in ("ref", "rawptr") and st4["rv"].get("mut") and st4["rv"]["place"]["l"] == src)
                    if nborrow != 1:
                        continue
                    if not self._closure_only_increments(cbody, k):
                        continue
                    # where the closure goes: one iterator call, receiver rooted at a slice iterator
                    uses = []
                    for b5 in mir.live_blocks():
                        t5 = mir.blocks[b5]["term"]
                        if t5["k"] == "call" and any(a["k"] in ("move", "copy") and not a["place"]["proj"] and a["place"]["l"] == cl_local for a in t5["args"]):
                            uses.append(t5)
                    if len(uses) != 1:
                        continue
                    t5 = uses[0]
                    cname = facts.strip_generics(t5["callee"].get("path", ""))
                    if not (cname.startswith("core::iter::") and cname.split("::")[-1] in self._PER_ITEM_CONSUMERS) or not t5["args"]:
                        continue
                    base = self._slice_root(S, sym.norm(S.operand(t5["args"][0])))
                    if base is not None:
                        out[src] = base
                        self._pic.setdefault(("closures", body.npath), set()).add(cbody.path)
        self._pic[key] = out
        return out

    # ---- I9b: a counter carried in the accumulator of fold / try_fold over a slice ---------------------------------------------
    def fold_counters(self, body):
        """[(block of the fold call, j, slice expression, {paths of the closure and the closures nested in it})] for every
        `chain.fold(init, f)` / `chain.try_fold(init, f)` in `body` where chain is a chain of non-expanding adaptors over
        `X.iter()`, init is a tuple whose field j is a small constant, and every accumulator value f can produce carries in
        field j either the incoming accumulator's field j or that value + 1: f runs at most once per element of X, so field j
        of the result is at most init.j + len(X). (That f's results are built only from the tuples f and its nested closures
        construct rests on parametricity of the Option / Result combinators of core, the only calls allowed to carry one.)"""
        key = ("foldc", body.npath)
        if not hasattr(self, "_pic"):
            self._pic = {}
        if key in self._pic:
            return self._pic[key]
        out = []
        mir = body.mir
        S = self.S(mir)
        for bi in sorted(mir.live_blocks()):
            t = mir.blocks[bi]["term"]
            if t["k"] != "call" or len(t["args"]) != 3:
                continue
            cname = facts.strip_generics(t["callee"].get("path", ""))
            if not (cname.startswith("core::iter::") and cname.split("::")[-1] in ("fold", "try_fold")):
                continue
            base = self._slice_root(S, sym.norm(S.operand(t["args"][0])))
            init = self.expand(S, sym.norm(S.operand(t["args"][1])))
            clo = self.expand(S, sym.norm(S.operand(t["args"][2])))
            if base is None or init[0] != "aggr" or init[1] != "tuple" or clo[0] != "closure":
                continue
            cdef = clo[1]
            cbody = next((c for c in self.unit.bodies if c.kind == "Closure" and (facts.strip_generics(c.path) == facts.strip_generics(cdef) or c.path == cdef or c.path.endswith(cdef.split("::", 1)[-1]))), None)
            if cbody is None or len(cbody.mir.locals) < 3:
                continue
            family = [c for c in self.unit.bodies if c.kind == "Closure" and (c.npath == cbody.npath or c.npath.startswith(cbody.npath + "::"))]
            for j, f in enumerate(init[-1]):
                if not (f[0] == "int" and f[2] in ("usize", "u32", "u64") and 0 <= f[1] <= 65536):
                    continue
                if self._acc_field_counts(cbody, family, j):
                    out.append((bi, j, base, {c.npath for c in family}, f[1]))
        self._pic[key] = out
        return out

    def _acc_field_counts(self, cbody, family, j):
        tacc = cbody.mir.locals[2]["ty"]
        if not tacc.startswith("("):
            return False
        # capture classes handed from a closure to the closures it creates: {closure npath: {capture index: "p0"|"c0"|"c1"}}
        captures = {cbody.npath: {}}
        c0_locals = {}
        order = sorted(family, key=lambda c: c.npath.count("::"))
        built = 0
        for c in order:
            if c.npath not in captures:
                return False          # a nested closure that is created somewhere we did not see
            cm = c.mir
            cap = captures[c.npath]
            cls = {}                   # local -> "c0" (acc.j) | "c1" (acc.j + 1) | "p0" (&acc.j) | "t1" (checked acc.j + 1)
            nass = {}
            for bi in cm.live_blocks():
                for st in cm.blocks[bi]["stmts"]:
                    if st["k"] == "assign" and not st["place"]["proj"]:
                        nass[st["place"]["l"]] = nass.get(st["place"]["l"], 0) + 1
                t = cm.blocks[bi]["term"]
                if t["k"] == "call" and t.get("dest") and not t["dest"]["proj"]:
                    nass[t["dest"]["l"]] = nass.get(t["dest"]["l"], 0) + 1
            changed = True
            rounds = 0
            while changed and rounds < 10:
                changed = False
                rounds += 1
                for bi in cm.live_blocks():
                    for st in cm.blocks[bi]["stmts"]:
                        if st["k"] != "assign" or st["place"]["proj"] or st["place"]["l"] in cls or nass.get(st["place"]["l"]) != 1:
                            continue
                        rv, k_ = st["rv"], None
                        if rv["k"] == "use" and rv["a"]["k"] in ("copy", "move"):
                            pl = rv["a"]["place"]
                            pj = [(p_["k"], p_.get("i")) for p_ in pl["proj"]]
                            if c is cbody and pl["l"] == 2 and pj == [("field", j)]:
                                k_ = "c0"
                            elif not pj and cls.get(pl["l"]) in ("c0", "c1", "p0"):
                                k_ = cls[pl["l"]]
                            elif pj == [("deref", None)] and cls.get(pl["l"]) == "p0":
                                k_ = "c0"
                            elif pj == [("field", 0)] and cls.get(pl["l"]) == "t1":
                                k_ = "c1"
                            elif pl["l"] == 1 and pj and pj[-1][0] == "field" and pj[-1][1] in cap and all(x[0] == "deref" for x in pj[:-1]):
                                k_ = cap[pj[-1][1]]
                        elif rv["k"] == "ref" and not rv.get("mut") and not rv["place"]["proj"] and cls.get(rv["place"]["l"]) == "c0":
                            k_ = "p0"
                        elif rv["k"] == "binop" and rv["op"] in ("AddWithOverflow", "Add", "AddUnchecked") and rv["a"]["k"] in ("copy", "move") and not rv["a"]["place"]["proj"] \
                                and cls.get(rv["a"]["place"]["l"]) == "c0" and rv["b"]["k"] == "const" and str(rv["b"]["c"].get("int")) == "1":
                            k_ = "t1" if rv["op"] == "AddWithOverflow" else "c1"
                        if k_ is not None:
                            cls[st["place"]["l"]] = k_
                            changed = True
            c0_locals[c.npath] = {l_ for l_, k_ in cls.items() if k_ == "c0"}
            for bi in cm.live_blocks():
                for st in cm.blocks[bi]["stmts"]:
                    if st["k"] != "assign":
                        continue
                    pl, rv = st["place"], st["rv"]
                    lty = cm.locals[pl["l"]]["ty"] if pl["l"] < len(cm.locals) else ""
                    if pl["proj"]:
                        if tacc in lty:
                            return False          # a write into part of a value that holds an accumulator
                        continue
                    if rv["k"] == "aggr" and rv.get("agg") == "closure":
                        sub = next((x for x in family if facts.strip_generics(x.path) == facts.strip_generics(rv["def"]) or x.path == rv["def"] or x.path.endswith(rv["def"].split("::", 1)[-1])), None)
                        if sub is None:
                            return False
                        captures[sub.npath] = {i: cls[f["place"]["l"]] for i, f in enumerate(rv["fields"]) if f["k"] in ("copy", "move") and not f["place"]["proj"] and cls.get(f["place"]["l"]) in ("p0", "c0", "c1")}
                        continue
                    if lty == tacc:
                        if rv["k"] == "aggr" and rv.get("agg") == "tuple" and len(rv["fields"]) > j:
                            f = rv["fields"][j]
                            if not (f["k"] in ("copy", "move") and not f["place"]["proj"] and cls.get(f["place"]["l"]) in ("c0", "c1")):
                                return False
                            built += 1
                        elif rv["k"] == "use" and rv["a"]["k"] in ("copy", "move") and (cm.locals[rv["a"]["place"]["l"]]["ty"] == tacc or tacc in cm.locals[rv["a"]["place"]["l"]]["ty"]):
                            pass                  # moved out of another accumulator-carrying value
                        else:
                            return False
                    elif tacc in lty:
                        ok = rv["k"] == "use" and rv["a"]["k"] in ("copy", "move") and tacc in cm.locals[rv["a"]["place"]["l"]]["ty"]
                        ok = ok or (rv["k"] == "aggr" and rv.get("agg") == "adt" and (rv.get("adt") or "").split("::")[-1] in ("Option", "Result", "ControlFlow")
                                    and all(f["k"] in ("copy", "move") and not f["place"]["proj"] and tacc in cm.locals[f["place"]["l"]]["ty"] for f in rv["fields"] if f["k"] != "const"))
                        if not ok:
                            return False
            for bi in cm.live_blocks():
                t = cm.blocks[bi]["term"]
                if t["k"] == "call" and t.get("dest") is not None:
                    dl = t["dest"]["l"]
                    dty = cm.locals[dl]["ty"] if dl < len(cm.locals) else ""
                    if tacc in dty:
                        path = facts.strip_generics(t["callee"].get("path", ""))
                        if not path.startswith(("core::option::Option::", "core::result::Result::", "core::ops::Try::", "core::ops::FromResidual::", "core::ops::ControlFlow::")):
                            return False
        if built >= 1:
            for n_, ls in c0_locals.items():
                self._pic.setdefault(("foldc0", n_), set()).update(ls)
        return built >= 1

    def _fold_counter_of(self, body, e):
        """(fold entry, call expression) when `e` is field j of the value a counted fold / try_fold returns (directly, or
        unwrapped by `?` / a match on Ok / Some / Continue)"""
        if not (isinstance(e, tuple) and e and e[0] == "field" and str(e[2]).isdigit()):
            return None
        x = e[1]
        for _ in range(8):
            if x[0] == "field" and str(x[2]) == "0":
                x = x[1]
            elif x[0] == "downcast":
                x = x[1]
            elif x[0] == "call" and x[1].endswith("Try::branch") and x[3]:
                x = x[3][0]
            else:
                break
        if x[0] == "call" and x[1].split("::")[-1] in ("fold", "try_fold"):
            for ent in self.fold_counters(body):
                if ent[0] == x[4] and ent[1] == int(e[2]):
                    return ent, x
        return None

    def _closure_only_increments(self, cbody, k):
        """every write the closure makes through its k-th capture (a `&mut` integer) is `*p = *p + 1`"""
        cm = cbody.mir
        ptrs = set()
        for bi in cm.live_blocks():
            for st in cm.blocks[bi]["stmts"]:
                if st["k"] == "assign" and st["rv"]["k"] == "use" and st["rv"]["a"]["k"] in ("copy", "move"):
                    pl = st["rv"]["a"]["place"]
                    if pl["l"] == 1 and [p_["k"] for p_ in pl["proj"]] == ["deref", "field"] and pl["proj"][1]["i"] == k and not st["place"]["proj"]:
                        ptrs.add(st["place"]["l"])
        if not ptrs:
            return False
        n_writes = 0
        for bi in cm.live_blocks():
            blk = cm.blocks[bi]
            for st in blk["stmts"]:
                if st["k"] != "assign":
                    continue
                pl = st["place"]
                if pl["l"] in ptrs and [p_["k"] for p_ in pl["proj"]] == ["deref"]:
                    # *p = move (tmp).0 with tmp = AddWithOverflow(*q, 1), q another copy of the same capture
                    rv = st["rv"]
                    ok = False
                    if rv["k"] == "binop" and rv["op"] in ("Add", "AddUnchecked") and rv["b"]["k"] == "const" and int(rv["b"]["c"].get("int", 0)) == 1 and rv["a"]["k"] in ("copy", "move") \
                            and rv["a"]["place"]["l"] in ptrs and [p_["k"] for p_ in rv["a"]["place"]["proj"]] == ["deref"]:
                        ok = True          # builds without overflow checks: `*p = *p + 1` in one statement
                    if rv["k"] == "use" and rv["a"]["k"] in ("move", "copy") and [p_["k"] for p_ in rv["a"]["place"]["proj"]] in (["field"], []):
                        tl = rv["a"]["place"]["l"]
                        for (b2, si2, st2) in cm.assigns().get(tl, []):
                            r2 = st2.get("rv", {}) if si2 != "term" else {}
                            if r2.get("k") == "binop" and r2["op"] in ("AddWithOverflow", "Add", "AddUnchecked") and r2["b"]["k"] == "const" and int(r2["b"]["c"].get("int", 0)) == 1 \
                                    and r2["a"]["k"] in ("copy", "move") and r2["a"]["place"]["l"] in ptrs and [p_["k"] for p_ in r2["a"]["place"]["proj"]] == ["deref"]:
                                ok = True
                    if not ok:
                        return False
                    n_writes += 1
            t = blk["term"]
            if t["k"] == "call" and any(a["k"] in ("move", "copy") and a["place"]["l"] in ptrs and not a["place"]["proj"] for a in t["args"]):
                return False          # the pointer escapes into a call
        return n_writes >= 1

    def _slice_root(self, S, e, depth=0):
        """X if `e` denotes (a mutable borrow of) a chain of non-expanding iterator adaptors over `X.iter()`"""
        e = self.expand(S, e)
        while depth < 12:
            depth += 1
            if e[0] in ("ref", "addr") and len(e) > 1 and isinstance(e[-1], tuple):
                e = self.expand(S, e[-1])
                continue
            if e[0] == "call" and e[3]:
                nm = e[1].split("::")[-1]
                if nm == "iter" and ("core::slice" in e[1] or "core::slice" in str(e[2])):
                    return sym.norm(e[3][0])
                if nm == "into_iter" or (e[1].startswith("core::iter::") and nm in self._NON_EXPANDING):
                    e = self.expand(S, sym.norm(e[3][0]))
                    continue
            return None
        return None

    def const_param_values(self, body, text):
        """values a const generic parameter of `body` takes over all calls of `body` in the analysed crates (None when the
        function is public, is never called, or some call passes something that is not a literal)"""
        import re as _re2
        m = _re2.search(r"([A-Z][A-Z0-9_]*)(?:/#\d+)?\)?$", str(text))
        names = body.j.get("generics") or []
        if not m or m.group(1) not in names or body.j.get("vis") == "Public":
            return None
        i = names.index(m.group(1))
        vals = set()
        for u_ in self.prog.units:
            for x in u_.bodies:
                for c in x.calls():
                    if c.rname == body.npath or c.name == body.npath:
                        g = c.callee.get("resolved_gargs") or c.gargs() or []
                        if i >= len(g) or not _re2.fullmatch(r"-?\d+", str(g[i])):
                            return None
                        vals.add(int(g[i]))
        return vals or None

    def bounded_u8_counter(self, mir, S, s):
        t = s.extra["term"]
        cnt = t["ops"][0]
        if cnt["k"] not in ("copy", "move"):
            return None
        l = cnt["place"]["l"]
        # find `Gt(copy l, const K)` switches whose true edge leaves the function without looping
        for bi in mir.live_blocks():
            blk = mir.blocks[bi]
            for st in blk["stmts"]:
                if st["k"] == "assign" and st["rv"]["k"] == "binop" and st["rv"]["op"] in ("Gt", "Ge") and st["rv"].get("ty") == "u8":
                    a = st["rv"]["a"]
                    e = sym.norm(S.operand(a))
                    if not (e[0] == "var" and e[1] == l) or st["rv"]["b"]["k"] != "const":
                        continue
                    cb_ = st["rv"]["b"]["c"]
                    if "int" in cb_:
                        kv = int(cb_["int"])
                    else:
                        # a const generic parameter (`len > MAX`): the largest value any call in the crate instantiates it with
                        vals = self.const_param_values(s.body, cb_.get("uneval") or "")
                        if not vals:
                            continue
                        kv = max(vals)
                    k = kv - (0 if st["rv"]["op"] == "Gt" else 1)
                    if k > 253:
                        continue
                    # from the increment, every path that comes back to the increment passes this check block
                    starts = [x for x in mir.succs(s.bi) if x != bi]
                    back = cfg.reachable(mir, starts, avoid={bi}) if starts else set()
                    if s.bi not in back:
                        # and the check's "exceeded" edge does not loop back
                        tt = blk["term"]
                        if tt["k"] == "switch":
                            exceeded = tt["otherwise"]
                            if s.bi not in cfg.reachable(mir, exceeded):
                                return k
        return None

    def slice_loop_counter(self, mir, S, l):
        """local `l` is assigned only `0` and `l + 1`, and every cycle through the increment passes the `next` of one
        slice iterator made from slice X (`for x in X` / `X.iter()`), which nothing else advances: l <= len(X). -> X"""
        ds = [sym.norm(d) for d in S.defs_of(l)]
        if len(ds) != 2:
            return None
        zero = [d for d in ds if d[0] == "int" and d[1] == 0]
        inc = [d for d in ds if d[0] == "field" and d[1][0] == "binop" and d[1][1] in ("AddWithOverflow", "Add") and d[1][2][0] == "var" and d[1][2][1] == l and d[1][3][0] == "int" and d[1][3][1] == 1]
        inc += [d for d in ds if d[0] == "binop" and d[1] == "Add" and d[2][0] == "var" and d[2][1] == l and d[3][0] == "int" and d[3][1] == 1]
        if len(zero) != 1 or len(inc) != 1:
            return None
        inc_blocks = [bi for bi in mir.live_blocks() for st in mir.blocks[bi]["stmts"]
                      if st["k"] == "assign" and st["place"]["l"] == l and not st["place"]["proj"] and not (st["rv"]["k"] == "use" and st["rv"]["a"]["k"] == "const")]
        if len(inc_blocks) != 1:
            return None
        nexts = {}
        for bi in mir.live_blocks():
            t = mir.blocks[bi]["term"]
            if t["k"] == "call":
                rn = facts.strip_generics(t["callee"].get("resolved") or t["callee"].get("path", ""))
                if rn.endswith("Iterator>::next") and "slice::Iter" in rn and t["args"]:
                    it = sym.norm(S.operand(t["args"][0]))
                    nexts.setdefault(it, []).append(bi)
        for it, blocks in nexts.items():
            if it[0] != "var" or len(blocks) != 1 or len(S.defs_of(it[1])) != 1:
                continue
            src = self.expand(S, it)
            if not (src[0] == "call" and src[1].split("::")[-1] in ("into_iter", "iter") and len(src[3]) == 1):
                continue
            back = cfg.reachable(mir, mir.succs(inc_blocks[0]), avoid=set(blocks))
            if inc_blocks[0] in back:
                continue
            return sym.norm(src[3][0])
        return None

    def per_advance_counter(self, mir, S, s):
        # every cycle through the increment passes a call that advances a slice iterator
        adv = set()
        for bi in mir.live_blocks():
            t = mir.blocks[bi]["term"]
            if t["k"] == "call":
                rn = facts.strip_generics(t["callee"].get("resolved") or t["callee"].get("path", ""))
                if rn.endswith("Iterator>::next") and "slice::Iter" in rn:
                    adv.add(bi)
        if not adv:
            return False
        back = cfg.reachable(mir, mir.succs(s.bi), avoid=adv)
        return s.bi not in back


def _const_bool(e):
    """fold a boolean expression over integer constants; None if it is not constant"""
    if e[0] == "bool":
        return e[1]
    if e[0] == "binop":
        a, b = e[2], e[3]
        if e[1] in ("Eq", "Ne", "Lt", "Le", "Gt", "Ge") and a[0] == "int" and b[0] == "int":
            return {"Eq": a[1] == b[1], "Ne": a[1] != b[1], "Lt": a[1] < b[1], "Le": a[1] <= b[1], "Gt": a[1] > b[1], "Ge": a[1] >= b[1]}[e[1]]
        if e[1] == "BitAnd":
            x, y = _const_bool(a), _const_bool(b)
            if x is False or y is False:
                return False
            if x is True and y is True:
                return True
        if e[1] == "BitOr":
            x, y = _const_bool(a), _const_bool(b)
            if x is True or y is True:
                return True
            if x is False and y is False:
                return False
    if e[0] == "unop" and e[1] == "Not":
        x = _const_bool(e[2])
        return None if x is None else (not x)
    return None


_VIEWS = ("deref", "deref_mut", "as_slice", "as_mut_slice", "as_ref", "as_mut", "borrow", "borrow_mut")


def _is_view_of(x, recv):
    """x denotes the same elements as recv: recv itself, or deref / as_slice / as_ref ... of it"""
    n = 0
    while isinstance(x, tuple) and x and n < 4:
        if sym.norm(x) == recv:
            return True
        if x[0] == "call" and x[1].split("::")[-1] in _VIEWS and x[3]:
            x = x[3][0]
            n += 1
            continue
        if x[0] in ("ref", "deref") and len(x) > 1 and isinstance(x[1], tuple):
            x = x[1]
            n += 1
            continue
        return False
    return False


def _rename_len(e, recv, ln):
    """replace every spelling of the length of recv in e (len(recv), the slice length of a view of recv) by the
    canonical atom ln; is_empty(view of recv) becomes is_empty(recv) (handled by the prover)"""
    if not isinstance(e, tuple) or not e or not isinstance(e[0], str):
        return e
    if e[0] == "call" and e[1].split("::")[-1] == "len" and e[3] and _is_view_of(e[3][0], recv):
        return ln
    if e[0] == "unop" and e[1] == "PtrMetadata" and _is_view_of(e[2], recv):
        return ln
    if e[0] == "call" and e[1].split("::")[-1] == "is_empty" and e[3] and _is_view_of(e[3][0], recv):
        return ("call", e[1], e[2], (recv,), e[4])
    out = []
    for x in e:
        if isinstance(x, tuple) and x and isinstance(x[0], str):
            out.append(_rename_len(x, recv, ln))
        elif isinstance(x, tuple):
            out.append(tuple(_rename_len(y, recv, ln) for y in x))
        else:
            out.append(x)
    return tuple(out)


def _nonempty_evidence(e, v, recv, ln):
    """a condition saying that first()/last() of (a view of) recv is Some - through `?`, `if let` or `match` - as the
    arithmetic fact len(recv) >= 1; None when e is not of that form"""
    x = e
    if x[0] == "discr" and isinstance(x[1], tuple):
        x = x[1]
        some = None
        if x[0] == "call" and x[1].split("::")[-1] == "branch" and x[3]:
            some = (v == 0)       # ControlFlow::Continue
            x = x[3][0]
        else:
            some = (v == 1)       # Option::Some
        if x[0] == "call" and x[1].split("::")[-1] in ("first", "last", "first_mut", "last_mut", "split_first", "split_last") and x[3] and _is_view_of(x[3][0], recv):
            return (("binop", "Ge", ln, ("int", 1, "usize")), bool(some))
    return None


def _subexprs(e):
    return set(sym.walk(e))


def _find_call(e, short):
    for x in sym.walk(e):
        if x[0] == "call" and x[1].split("::")[-1] == short:
            return x
    return None


def _same_slice(a, b):
    return sym.norm(a) == sym.norm(b)


_WS = ("scpi::", "scpi_contrib::", "scpi_derive::", "<scpi", "<parser::", "<error::", "<tree::", "parser::", "error::", "tree::")
_CONTRACT_NAMES = {"len", "is_empty", "ends_with", "starts_with", "position", "rposition", "is_full", "first", "last", "split_first", "split_last", "get", "get_mut", "count", "split", "to_ascii_lowercase", "map_or",
                   "is_err", "is_ok", "try_push", "parse_partial", "parse_partial_with_options", "as_slice", "next", "nth", "clone", "checked_sub", "saturating_sub", "take_while", "iter", "into_iter", "from", "into",
                   "branch", "filter", "inspect", "pop", "remaining_capacity", "capacity", "first_mut", "last_mut", "as_bytes", "deref", "as_ref"}


def _mask_workspace_calls(e):
    if not isinstance(e, tuple) or not e or not isinstance(e[0], str):
        return e
    if e[0] == "call" and len(e) >= 4 and isinstance(e[1], str) and e[1].split("::")[-1] in _CONTRACT_NAMES and \
            (e[1].startswith(_WS) or (isinstance(e[2], str) and e[2].startswith(_WS) and not e[2].startswith("<") )):
        return ("call", e[1] + "#workspace", (e[2] + "#workspace") if isinstance(e[2], str) else e[2], tuple(_mask_workspace_calls(a) for a in e[3])) + tuple(e[4:])
    return tuple(_mask_workspace_calls(x) if isinstance(x, tuple) else x for x in e)
