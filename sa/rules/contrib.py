"""Helpers for the scpi-contrib rule modules (status model, error queue, numeric values)."""
from .. import facts, fdai, scpi_models as M, sym
from ..fdai import EnumV, AggV, K, SymV, RefV, Cell, Loc, TOP, load, snapshot
from . import dispatch as D

_C = {}


def prog():
    return D.prog()


def unit(name="scpi_contrib"):
    return prog().unit(name)


def engine(unit_name="scpi_contrib", inline=None, models=None, **kw):
    P = prog()
    u = P.unit(unit_name)
    return fdai.Engine(P, u, inline=inline or (lambda n, r: False), models=models or {}, **kw)


class Path:
    """Convenience view of one finished FDAI path."""

    def __init__(self, r):
        self.r = r
        self.outcome = M.outcome(r)
        self.calls = [e for e in r.trace if e.kind == "call"]
        self.names = [e.name.split("::")[-1] for e in self.calls]

    def call(self, short, nth=0):
        hits = [e for e in self.calls if e.name.split("::")[-1] == short]
        return hits[nth] if len(hits) > nth else None

    def count(self, short):
        return sum(1 for n in self.names if n == short)

    def assumed_ret(self, short, nth=0):
        """value assumed for the nth result of callee `short` that was branched on"""
        hits = [e for e in self.r.trace if e.kind == "assume" and e.name == "sym" and isinstance(e.args[0], tuple) and e.args[0][0] == "sym" and isinstance(e.args[0][2], tuple) and e.args[0][2][0] == "ret" and e.args[0][2][1].split("::")[-1] == short]
        return hits[nth].args[1] if len(hits) > nth else None

    def assumed_variant(self, short, nth=0):
        hits = [e for e in self.r.trace if e.kind == "assume" and e.name == "variant" and short in repr(e.args[0])]
        return hits[nth].args[1] if len(hits) > nth else None

    def describe(self):
        return "%s %s" % (self.outcome, self.names)


def ret_of(snap, short):
    """snapshot is exactly the symbol returned by a call to `short`"""
    return isinstance(snap, tuple) and snap and snap[0] == "sym" and isinstance(snap[2], tuple) and snap[2][0] == "ret" and snap[2][1].split("::")[-1] == short


def contains_ret(snap, short):
    return ("::%s'" % short) in repr(snap) or ("'%s'" % short) in repr(snap)


def binop_of(snap, op):
    """snapshot is a symbol produced by binop `op` -> (a, b) else None"""
    if isinstance(snap, tuple) and snap and snap[0] == "sym" and isinstance(snap[2], tuple) and snap[2][0] == "binop" and snap[2][1] == op:
        return snap[2][2], snap[2][3]
    return None


def stores_to_fields(body, field_names):
    """MIR stores (and &mut borrows) of struct fields with the given names in a body: list of (field, kind, line)"""
    out = []
    for m in body.all_mirs():
        for bi in m.live_blocks():
            for st in m.blocks[bi]["stmts"]:
                if st["k"] != "assign":
                    continue
                pl = st["place"]
                for pr in pl["proj"]:
                    if pr["k"] == "field" and pr["name"] in field_names:
                        out.append((pr["name"], "store", st.get("line")))
                rv = st["rv"]
                if rv["k"] in ("ref", "rawptr") and rv.get("mut", True):
                    for pr in rv["place"]["proj"]:
                        if pr["k"] == "field" and pr["name"] in field_names:
                            out.append((pr["name"], "borrow-mut", st.get("line")))
    return out


def field_effects(eng, body, adt, field_names, extra_args=()):
    """Run `body(&mut self, extra...)` with every field of *self symbolic; returns list of (path, {field: final value})"""
    cell = Cell(AggV(adt, {i: SymV("f:" + n, "field:" + n) for i, n in enumerate(field_names)}), "self")
    st = fdai.State()
    st.extra["selfcell"] = cell
    res = eng.run(body, [RefV(cell, (), True)] + list(extra_args), st)
    out = []
    for r in res:
        c = r.extra["selfcell"]
        vals = {}
        for i, n in enumerate(field_names):
            vals[n] = c.v.fields.get(i) if isinstance(c.v, AggV) else None
        out.append((r, vals))
    return out


def unchanged(v, name):
    return isinstance(v, SymV) and v.id == "f:" + name


def holds(snap, ident):
    """the snapshot contains the unknown value `ident` itself - as a value (a field of a token, the pointee of a reference
    ...), not merely in the *description* of some other unknown value (say, the result of a function that was not analysed
    in place, which lists its arguments): `"tok-X-0" in repr(snap)` would be satisfied by the latter too"""
    if isinstance(snap, tuple):
        if snap and snap[0] == "sym":
            return len(snap) > 1 and snap[1] == ident
        return any(holds(x, ident) for x in snap)
    return False
