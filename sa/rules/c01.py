"""C01 - arbitrary input is processed totally: no panic, overflow, hang or internal error."""
from .. import facts, fdai, scpi_models as M, sym, cfg
from ..fdai import EnumV, AggV, K, SymV, RefV, Cell, Loc, TOP
from . import dispatch as D, convert as CV, contrib as CB, panics as PN

LEVEL = "other"
TECHNIQUE = "panic-site audit over the MIR of every non-test function of the library (overflow/bounds asserts, unwrap/expect, indexing, split_at, panicking container calls, diverging panics): each site must be discharged by a guard idiom re-derived from dominating branch conditions (relational guards, peek-then-next, shrinking-cursor prefix, bounded counters, ASCII value ranges) or a named audit fact; dead-arm proof for parser_unreachable! via the FDAI accept matrix and the Parameters token table; loop-variant and recursion checks on the CFG/call graph; unsafe-block census; debug and release configurations"
LEVEL_TEXT = "Every panic-capable construct the compiler left in the MIR of scpi (87 sites on this tree) is enumerated and must be matched by a discharge argument that is recomputed from the code on every run: a dominating comparison that makes the arithmetic safe, a successful peek on a cursor that was not advanced since, a prefix length of a cursor that only shrinks, a counter whose every increment cycle passes a limit test, an ASCII class range, or one of a few named audit facts about dependencies. The library's internal-error arms are shown dead for every token kind a handler can be handed; every loop is shown to advance a finite iterator on every cycle and every recursion to consume input or descend the finite tree; there is no unsafe block."
LEVEL_NOTE = "Not decided: panics inside lexical-core, uom, arrayvec and core when used within their contracts (named as trusted facts at the sites that rely on them); stack depth of exec (bounded by the user's tree depth); termination and panics of user handlers. Trusted: rustc MIR (overflow checks materialised at mir-opt-level 0)."

TOKEN_FNS = ("next_optional_token", "next_token")


def run(R, tier):
    configs = ["dflt"] + (["release"] if tier == "thorough" else [])
    for cfg_name in configs:
        R.configs.append(cfg_name)
        P = facts.program(cfg_name)
        u = P.unit("scpi")
        tag = "" if cfg_name == "dflt" else "[%s]" % cfg_name
        # ---- R01.1 panic-site discharge ------------------------------------------------------------
        n_sites = 0
        kinds = {}
        for unit in (u, P.unit("scpi_contrib")):
            sites = PN.enumerate_sites(unit)
            dg = PN.Discharger(unit, P)
            for s in sites:
                n_sites += 1
                d = dg.try_discharge(s)
                if d is None:
                    R.violation("R01.1", s.key + tag, "panic-capable site without a discharge argument: %s in %s (%s). No dominating guard makes it safe for every input" % (s.what, s.body.npath, _describe(s)), where=s.line)
                    continue
                kind = d.split(":")[0].split(" ")[0]
                kinds[kind] = kinds.get(kind, 0) + 1
                if d == "debug_assert":
                    ok, why = debug_assert_ok(P, unit, s)
                    R.check(ok, "R01.1", s.key + tag, "debug_assert! precondition: %s" % why, "debug assertion in %s can be violated by library callers: %s" % (s.body.npath, why), where=s.line)
                elif d == "R01.2":
                    # the accept matrix (R01.2) decides these arms only inside TryFrom<Token> conversions; the same
                    # macro anywhere else has no such argument
                    in_conv = s.body.name == "try_from" and "convert::TryFrom<" in (s.body.impl_trait or "") and "Token<" in (s.body.impl_trait or "")
                    if not in_conv and not s.body.impl_trait and not s.body.in_trait:
                        # a crate-private helper shared by conversions (their common "wrong element type" tail): decided by
                        # the same accept matrix, which analyses the helper in place, provided nothing else can reach it
                        convs = tuple(sorted(x.npath for un in P.units for x in un.bodies if x.name == "try_from" and "convert::TryFrom<" in (x.impl_trait or "") and "Token<" in (x.impl_trait or "")))
                        in_conv = bool(convs) and D.only_reached_from(P, s.body.npath, convs)
                    R.check(in_conv, "R01.1", s.key + tag, "internal-error arm (decided dead by R01.2)", "parser_unreachable!() in %s: outside a TryFrom<Token> conversion nothing shows the arm to be dead (it panics in debug builds and reports -300 in release builds)" % s.body.npath, where=s.line)
                else:
                    R.ok("R01.1", s.key + tag, d)
        R.count("panic_sites" + tag, n_sites)
        # counted by hand: 91 sites in the debug configuration, 58 in the release configuration (no overflow assertions)
        R.floor("R01.1", "panic-capable sites" + tag, n_sites, 60 if cfg_name == "dflt" else 50)
        R.sample({"rule": "R01.1", "config": cfg_name, "discharged_by": kinds})

        # ---- R01.2 internal-error arms are dead ------------------------------------------------------
        rows = CV.matrix(cfg_name, "scpi")
        n_arm = 0
        for (ty, name), (oc, res, body) in sorted(rows.items(), key=lambda kv: (kv[0][0], kv[0][1])):
            if name not in M.DATA:
                continue
            internal = {o for o in oc if o.startswith("panic(") or o in ("diverge", "unreachable") or o == "Err(DeviceSpecificError)"}
            if internal:
                R.violation("R01.2", "%s<-%s%s" % (_short(ty), name, tag), "converting a %s element into %s can reach the library's internal-error arm (%s)" % (name, ty, sorted(internal)), where=body.span)
            n_arm += 1
        R.ok("R01.2", "data-tokens-never-internal" + tag, "%d (target, data element type) pairs: the unreachable!/-300 arm is never taken for a data token" % n_arm)
        R.floor("R01.2", "matrix cells" + tag, n_arm, 7 * 30)
        if cfg_name == "dflt":
            # what a handler can be handed is always a data token
            bad = []
            for fn in TOKEN_FNS:
                tb = D.params_table(fn)
                for key, ps in tb.items():
                    for p in ps:
                        v = p.r.retval
                        tok = None
                        if isinstance(v, EnumV) and v.name == "Ok":
                            x = v.fields.get(0)
                            tok = x.fields.get(0) if isinstance(x, EnumV) and x.name == "Some" else x if isinstance(x, EnumV) and (x.adt or "").endswith("Token") else None
                        if isinstance(tok, EnumV) and (tok.adt or "").endswith("Token") and tok.name not in M.DATA:
                            bad.append((fn, key, tok.name))
            R.check(not bad, "R01.2", "parameters-hand-out-data-only", "Parameters::next_token/next_optional_token only ever return data tokens", "a handler can be handed a non-data token (which typed conversions treat as unreachable): %s" % bad[:3])
            # numeric list elements are read_nrf tokens
            nl = u.body("scpi::parser::expression::numeric_list::NumericList::read_numeric_data")
            srcs = {c.name.split("::")[-1] for c in nl.calls() if "Tokenizer" in c.name}
            R.check(srcs == {"read_nrf"}, "R01.2", "numeric-list-elements", "numeric list entries are produced by read_nrf (decimal data) only", "numeric list entries come from %s" % sorted(srcs))

        if cfg_name == "dflt":
            # the dispatcher never reaches an internal-error arm, whatever token follows a header
            badx = []
            for key, ps in D.exec_table().items():
                for p in ps:
                    if p.outcome.startswith("panic(") or p.r.outcome in ("panic", "diverge") or p.outcome == "Err(DeviceSpecificError)":
                        badx.append("%s: %s" % ("/".join(str(k) for k in key if k), p.describe()))
            R.check(not badx, "R01.2", "dispatcher-never-internal", "Node::exec has no panicking / internal-error outcome for any token class", "Node::exec can reach an internal-error arm: %s" % "; ".join(badx[:3]))

        # ---- R01.4 unsafe -------------------------------------------------------------------------------
        ub = [x for unit in P.units for x in unit.unsafe_blocks if x.get("user")]
        R.check(not ub, "R01.4", "no-unsafe" + tag, "no unsafe block in non-test library code", "unsafe block(s) at %s: their preconditions would have to be discharged for every input" % [x["line"] for x in ub])

        # ---- R01.3 loops and recursion terminate -----------------------------------------------------------
        if cfg_name == "dflt":
            check_loops(R, P, u)
            check_recursion(R, P, u)


def _short(ty):
    return ty.split("<")[0].split("::")[-1] if "::" in ty else ty


def _describe(s):
    S = sym.Sym(s.mir)
    t = s.extra["term"]
    if s.kind == "assert":
        return " , ".join(sym.show(sym.norm(S.operand(o)))[:80] for o in t["ops"])
    return " , ".join(sym.show(sym.norm(S.operand(a)))[:80] for a in t["args"][:2])


def debug_assert_ok(P, unit, s):
    """debug_assert!(s.is_ascii()) in Formatter::push_ascii and the header-after-data assertion of ResponseUnit::header:
    documented API preconditions; library callers must establish them."""
    if s.body.npath.endswith("Formatter::push_ascii"):
        bad = []
        n = 0
        for uu in P.units:
            for b in uu.bodies:
                S = sym.Sym(b.mir)
                for c in b.calls():
                    if not (c.method == "push_ascii" and (c.trait or "").endswith("Formatter")):
                        continue
                    n += 1
                    arg = sym.norm(S.operand(c.args[1]))
                    conds = PN.dom_conditions(b.mir, c.bi, S)
                    ok = False
                    if arg[0] == "bytes" and all(x < 128 for x in arg[1]):
                        ok = True  # ASCII literal
                    # pieces of a split of a slice that was checked to be ASCII, or the checked slice itself
                    for ce, v, _ in conds:
                        if ce[0] == "call" and ce[1].split("::")[-1] == "is_ascii" and v is True:
                            ok = True
                        if ce[0] == "unop" and ce[1] == "Not" and ce[2][0] == "call" and ce[2][1].split("::")[-1] == "is_ascii" and v is False:
                            ok = True
                        if _all_ascii_evidence(P, unit, PN.expand(S, ce), v):
                            ok = True
                    # a closure / nested fn pushes on behalf of the function it is written in
                    hb = b
                    if b.kind == "Closure" or b.parent_fn:
                        own = D.enclosing_fn(P, b.npath)
                        hb = next((x for x in uu.bodies if x.npath == own), b)
                    ex_arg = PN.expand(S, arg)
                    derived = any(x[0] == "arg" for x in sym.walk(ex_arg))
                    if not derived and hb is not b:
                        derived = True       # a closure parameter: an item of the iterator its function built
                    if not derived and not any(x[0] == "bytes" for x in sym.walk(ex_arg)) and \
                            all(x[1].startswith(("core::", "alloc::")) for x in sym.walk(ex_arg) if x[0] == "call") and any(x[0] == "call" and x[1].split("::")[-1] in ("next", "split_first", "split_last", "first", "last") for x in sym.walk(ex_arg)):
                        derived = True       # an item / piece taken from an iterator or slice of the function's own (core API only)
                    if not ok and hb.kind in ("Fn", "AssocFn") and not hb.impl_trait and not hb.in_trait and hb.j.get("vis") == "Restricted" and derived:
                        # a crate-private helper that pushes (pieces of) its own slice argument - wherever it lives: the
                        # guarantee is owed by each of its callers
                        cbs = _callers(P, hb.npath)
                        ok = bool(cbs) and all(_caller_checks_ascii(P, cb, hb.npath) for cb in cbs)
                    if arg[0] == "field" and arg[2] == "0" and ("Character" in (b.impl_self or "") or "Expression" in (b.impl_self or "")):
                        ok = True  # wrapper types documented to hold (lexer-validated) ASCII
                    if not ok:
                        bad.append("%s (%s)" % (b.npath, sym.show(arg)[:50]))
        return (not bad and n >= 4), ("all %d library callers pass ASCII (literal, is_ascii-checked, or the Character/Expression wrappers)" % n if not bad else "callers without an ASCII guarantee: %s" % bad)
    if s.body.npath.endswith("ResponseUnit::header"):
        # no library code calls header() after data(): contrib handlers never call header at all
        callers = [b.npath for uu in P.units for b in uu.bodies for c in b.calls() if c.name.endswith("ResponseUnit::header")]
        return (not callers), ("documented: header() must precede data(); no library code calls header()" if not callers else "library callers of header(): %s" % callers)
    return False, "unknown debug assertion"


def _callers(P, npath):
    out = []
    for uu in P.units:
        for b in uu.bodies:
            if any(c.rname == npath or c.name == npath for c in b.calls()):
                out.append(b)
    return out


_PRED_CACHE = {}


def _bytes_predicate(P, unit, cdef):
    """the set of byte values for which a `|b: &u8| -> bool` closure answers true (the closure folded on all 256 bytes), or
    None when it cannot be folded"""
    if cdef in _PRED_CACHE:
        return _PRED_CACHE[cdef]
    body = next((x for uu in P.units for x in uu.bodies if x.kind == "Closure" and (x.path == cdef or facts.strip_generics(x.path) == facts.strip_generics(cdef))), None)
    res = None
    if body is not None:
        eng = fdai.Engine(P, unit, inline=lambda n, r: False, models=dict(M.FOLD_MODELS), loop_limit=8, max_paths=4)
        res = set()
        for bv in range(256):
            try:
                rs = eng.run(body, [RefV(Cell(AggV("closure-env", {}), "env")), RefV(Cell(K(bv), "byte"))])
            except (fdai.TooManyPaths, RecursionError):
                res = None
                break
            if len(rs) != 1 or rs[0].outcome != "return" or not isinstance(rs[0].retval, K) or not isinstance(rs[0].retval.v, bool):
                res = None
                break
            if rs[0].retval.v:
                res.add(bv)
    _PRED_CACHE[cdef] = res
    return res


def _all_ascii_evidence(P, unit, ce, v):
    """a dominating condition that makes every byte of the examined slice ASCII: `x.iter().any(p) == false` with p true for
    every byte >= 128, or `x.iter().all(p) == true` with p false for every byte >= 128 (p folded on all byte values)"""
    if ce[0] == "call" and ce[1].startswith("core::iter::") and ce[1].split("::")[-1] in ("any", "all") and len(ce[3]) == 2 and isinstance(v, bool):
        clo = ce[3][1]
        if isinstance(clo, tuple) and clo and clo[0] == "closure":
            pred = _bytes_predicate(P, unit, clo[1])
            if pred is not None:
                if ce[1].endswith("any") and v is False:
                    return all(bv in pred for bv in range(128, 256))
                if ce[1].endswith("all") and v is True:
                    return all(bv not in pred for bv in range(128, 256))
    return False


def _caller_checks_ascii(P, b, helper):
    S = sym.Sym(b.mir)
    for c in b.calls():
        if c.rname == helper or c.name == helper:
            conds = PN.dom_conditions(b.mir, c.bi, S)
            ok = False
            for ce, v, _ in conds:
                if _all_ascii_evidence(P, P.unit("scpi"), PN.expand(S, ce), v):
                    ok = True
                if ce[0] == "call" and ce[1].split("::")[-1] == "is_ascii" and v is True:
                    ok = True
                if ce[0] == "unop" and ce[1] == "Not" and "is_ascii" in repr(ce) and v is False:
                    ok = True
                if ce[0] == "binop" and ce[1] in ("BitOr",) and "is_ascii" in repr(ce) and v is False:
                    ok = True
            if not ok:
                return False
    return True


ADVANCE_SUFFIX = ("Iterator>::next", "Iterator::next", "Iterator>::nth", "Iterator::nth")


_ALWAYS_ADV = {}


def always_advances(u, npath, depth=0):
    """every path of the workspace function from entry to a normal return passes a call that advances a finite
    iterator (directly or through another such function)"""
    if npath in _ALWAYS_ADV:
        return _ALWAYS_ADV[npath]
    _ALWAYS_ADV[npath] = False
    b = next((x for x in u.bodies if x.npath == npath and x.kind in ("Fn", "AssocFn")), None)
    if b is None or depth > 2:
        return False
    mir = b.mir
    adv = set()
    rets = set()
    for bi in mir.live_blocks():
        t = mir.blocks[bi]["term"]
        if t["k"] == "return":
            rets.add(bi)
        if t["k"] != "call":
            continue
        rn = facts.strip_generics(t["callee"].get("resolved") or t["callee"].get("path", ""))
        pn = facts.strip_generics(t["callee"].get("path", ""))
        if rn.endswith(ADVANCE_SUFFIX) or pn.endswith(ADVANCE_SUFFIX):
            adv.add(bi)
        else:
            q = u.qualify(rn, t["callee"].get("resolved_krate") or t["callee"].get("krate"))
            if q != npath and always_advances(u, q, depth + 1):
                adv.add(bi)
    ok = bool(adv) and bool(rets) and cfg.must_pass_through(mir, 0, adv, rets)
    _ALWAYS_ADV[npath] = ok
    return ok


def _strict_subslice(mir, local):
    """every sub-slice projection taken of `local` (through a deref) drops at least one element"""
    found = False
    for bi in mir.live_blocks():
        for st_ in mir.blocks[bi]["stmts"]:
            if st_["k"] != "assign" or st_["rv"].get("k") not in ("ref", "rawptr"):
                continue
            pl = st_["rv"]["place"]
            if pl.get("l") != local:
                continue
            subs = [pr for pr in pl.get("proj", []) if pr.get("k") == "subslice"]
            for pr in subs:
                found = True
                if int(pr["from"]) + (int(pr["to"]) if pr.get("from_end") else 0) < 1:
                    return False
    return found


def check_loops(R, P, u):
    n_loops = 0
    for b in u.bodies:
        if not PN.in_scope(b):
            continue
        mir = b.mir
        loops = cfg.natural_loops(mir)
        if not loops:
            continue
        S = sym.Sym(mir)
        for h, body in loops:
            n_loops += 1
            adv = set()
            for bi in body:
                t = mir.blocks[bi]["term"]
                if t["k"] != "call":
                    continue
                rn = facts.strip_generics(t["callee"].get("resolved") or t["callee"].get("path", ""))
                pn = facts.strip_generics(t["callee"].get("path", ""))
                if rn.endswith(ADVANCE_SUFFIX) or pn.endswith(ADVANCE_SUFFIX):
                    recv = sym.norm(S.operand(t["args"][0]))
                    # a next() on a fresh clone of the cursor does not advance the cursor
                    if recv[0] == "var":
                        ds = [sym.norm(d) for d in S.defs_of(recv[1])]
                        if ds and all(d[0] == "call" and d[1].endswith("Clone::clone") for d in ds):
                            continue
                    adv.add(bi)
                elif any(x in pn for x in ("util::skip_ws", "util::skip_digits", "util::skip_sign")):
                    continue
                elif always_advances(u, u.qualify(rn, t["callee"].get("resolved_krate") or t["callee"].get("krate"))):
                    # a helper that consumes an element on every path (e.g. the post-unit check split out of the loop)
                    adv.add(bi)
            # a slice variable replaced by a strictly shorter sub-slice of itself (`while let [first, rest @ ..] = v
            # { ..; v = rest }`): the block of that assignment advances, its length being the (finite) variant
            for bi in body:
                for st_ in mir.blocks[bi]["stmts"]:
                    if st_["k"] != "assign" or st_["place"].get("proj"):
                        continue
                    tgt = st_["place"]["l"]
                    src = sym.norm(S.rvalue(st_["rv"])) if hasattr(S, "rvalue") else None
                    if src is None:
                        continue
                    # follow single-definition temporaries (`rest`) back to the sub-slice expression
                    hops = 0
                    while src[0] == "var" and src[1] != tgt and hops < 4:
                        ds = [sym.norm(d) for d in S.defs_of(src[1])]
                        if len(ds) != 1:
                            break
                        src = ds[0]
                        hops += 1
                    if src[0] == "subslice" and sym.norm(src[1])[0] == "var" and sym.norm(src[1])[1] == tgt and _strict_subslice(mir, tgt):
                        adv.add(bi)
            # a slice cursor replaced by the iterator of a strictly shorter tail of its own remaining slice
            # (`while let [first, rest @ ..] = it.as_slice() { ..; *it = rest.iter() }`)
            for bi in body:
                for st_ in mir.blocks[bi]["stmts"]:
                    if st_["k"] != "assign" or st_["place"].get("proj") not in ([], [{"k": "deref"}]):
                        continue
                    src = sym.norm(S.rvalue(st_["rv"])) if hasattr(S, "rvalue") else None
                    if not (src and src[0] == "call" and src[1].split("::")[-1] == "iter" and "slice" in src[1] and src[3] and src[3][0][0] == "subslice"):
                        continue
                    cur = sym.norm(S.operand({"k": "copy", "place": st_["place"]}))
                    whole = sym.norm(src[3][0][1])
                    if not (whole[0] == "call" and whole[1].endswith("as_slice") and whole[3] and sym.norm(whole[3][0]) == cur and whole[4] in body):
                        continue
                    holders = [mir.blocks[x]["term"]["dest"]["l"] for x in body if mir.blocks[x]["term"]["k"] == "call" and x == whole[4] and not mir.blocks[x]["term"]["dest"].get("proj")]
                    if holders and all(_strict_subslice(mir, h_) for h_ in holders):
                        adv.add(bi)
            # every cycle through the header passes an advancing call
            succ_in = [s for s in mir.succs(h) if s in body]
            inner = cfg.reachable(mir, succ_in, avoid=adv | (set(mir.live_blocks()) - body))
            cyc = h in inner and h not in adv
            R.check(not cyc and adv, "R01.3", "loop:%s@bb-head#%d" % (b.npath, sorted(x for x, _ in loops).index(h)), "every cycle advances a finite iterator (%d advancing call(s))" % len(adv), "loop in %s can cycle without advancing any finite iterator: it may not terminate" % b.npath, where=mir.blocks[h]["term"].get("line"))
    R.floor("R01.3", "loops", n_loops, 6)


def check_recursion(R, P, u):
    names = {b.npath: b for b in u.bodies}
    graph = {}
    for b in u.bodies:
        outs = set()
        for c in b.calls():
            for nm in (c.rname, c.name):
                if nm in names:
                    outs.add(nm)
            # trait-method calls fan out to in-crate impls of that method (conservatively by method name)
        graph[b.npath] = outs
    comps = [c for c in cfg.sccs(list(graph), lambda v: graph.get(v, ())) if len(c) > 1 or (c[0] in graph.get(c[0], ()))]
    allowed = {
        frozenset(["scpi::tree::Node::exec"]): "exec",
        frozenset(["scpi::parser::parameters::Parameters::next_optional_token", "scpi::parser::parameters::Parameters::next_token"]): "params",
    }
    for comp in comps:
        key = frozenset(comp)
        kind = allowed.get(key)
        if kind is None and "scpi::tree::Node::exec" in key and all(x == "scpi::tree::Node::exec" or D._inline(x, x) for x in key):
            kind = "exec"   # exec and helpers that the table analyses in place
        if kind is None and all(x.startswith("scpi::parser::parameters::Parameters::") for x in key):
            kind = "params"     # however the pulls of Parameters are organised (mutual recursion, one worker calling itself ...)
        if kind is None:
            R.violation("R01.3", "recursion:%s" % "+".join(sorted(x.split("::")[-1] for x in comp)), "unexpected recursion among %s: no termination argument on file" % sorted(comp))
            continue
        if kind == "exec":
            # Termination of the recursive descent, decided on the branch table of C02 (R02.6): on every list of abstract
            # children and in every header context the receiver of each recursive exec call is one of the children of
            # the node at hand - never the node itself or something else - so the depth is bounded by the finite tree.
            b = names["scpi::tree::Node::exec"]
            n = 0
            bad = []
            for stream in (["ProgramHeaderSeparator"], ["ProgramMessageUnitSeparator"], ["HeaderQuerySuffix"], [M.END], ["ProgramMnemonic"], ["HeaderMnemonicSeparator", "ProgramMnemonic"]):
                for kids in D.child_lists(2):
                    for p in D.exec_children(kids, stream):
                        for e in p.calls:
                            if e.name.endswith("Node::exec"):
                                n += 1
                                a0 = e.args[0]
                                if not (isinstance(a0, tuple) and a0[0] == "ref" and str(a0[1]).startswith("child")):
                                    bad.append("children %s at %s: exec called on %r" % (kids, stream, a0))
            R.check(not bad and n >= 100, "R01.3", "recursion:exec", "every recursive exec call descends to a child of self.sub (%d recursion events over the branch table): depth bounded by the finite tree" % n, "exec recurses on something that is not a child of the current node: unbounded recursion possible (%s)" % bad[:2], where=b.span)
        else:
            # Every call that stays inside the recursive component is dominated, in its caller, by a call that takes a token
            # off the stream (Peekable::next / next_if / next_if_eq): the depth is bounded by the number of tokens left.
            # (edges that follow a consumption are removed; what is left of the component must have no cycle)
            n = 0
            b = None
            rest = {m: set() for m in key}
            for member in sorted(key):
                mb = names[member]
                doms = cfg.dominators(mb.mir)
                for c in mb.calls():
                    tgt = c.rname if c.rname in key else c.name if c.name in key else None
                    if tgt is not None:
                        b = b or mb
                        n += 1
                        consumed = [x for x in mb.calls() if "Peekable" in x.rname and x.rname.split("::")[-1] in ("next", "next_if", "next_if_eq") and x.bi in doms.get(c.bi, ()) and x.bi != c.bi]
                        if not consumed:
                            rest[member].add(tgt)
            ok = not [c_ for c_ in cfg.sccs(list(rest), lambda v: rest.get(v, ())) if len(c_) > 1 or (c_[0] in rest.get(c_[0], ()))]
            R.check(ok and n >= 1, "R01.3", "recursion:parameters", "every cycle among the pulls of Parameters takes a token off the stream first (%d call site(s) inside the component %s)" % (n, sorted(x.split("::")[-1] for x in key)), "Parameters recursion without consuming input: may not terminate", where=b.span if b is not None else None)
    R.ok("R01.3", "recursion:census", "%d recursive component(s) in crate scpi, all with a termination argument" % len(comps))
