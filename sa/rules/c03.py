"""C03 - mnemonics match only their short or long form, with the default-1 suffix rule."""
from .. import facts, fdai, scpi_models as M, sym
from ..fdai import EnumV, AggV, K, SymV, RefV, Cell, Loc, TOP, load
from . import dispatch as D

LEVEL = "other"
TECHNIQUE = "FDAI over byte classes: exact step table of the short/long-form comparison closure (class of defined byte x candidate byte absent/equal-ignoring-case/different x latch), frame check of mnemonic_compare, four-arm suffix table of mnemonic_match, split rule of mnemonic_split_index, routing census (who compares with which matcher and which keyword literals)"
LEVEL_TEXT = "The comparison step function is enumerated over its complete abstract state space (4 classes of the defined byte x 4 candidate situations x 2 latch values) and compared with the step table whose fold accepts exactly {short form, long form}; the suffix rule is enumerated over the four (suffix present/absent)^2 arms with the operands and the equality primitive of each arm checked; the split function and all call sites of the two matchers are checked structurally."
LEVEL_NOTE = "Not decided: the last step from the step table and the arm table to 'iff over all (definition, candidate) pairs' is the paper argument of DESIGN.md Appendix C; definitions outside SCPI shape. Trusted: rustc MIR, core's Iterator::all / rposition / split_at / slice equality contracts."

UTIL = "scpi::parser::tokenizer::util::"
KEYWORDS = {b"MAXimum", b"MINimum", b"DEFault", b"UP", b"DOWN", b"INFinity", b"NINFinity", b"NAN", b"ONCE"}


def m_eq_ignore_case(eng, st, fr, t, name, rname, args):
    a = M._byte_arg(eng, st, args[0])
    b = M._byte_arg(eng, st, args[1])
    if a is None or b is None:
        return NotImplemented

    def low(x):
        return x | 0x20 if 65 <= x <= 90 else x

    st.trace.append(fdai.Event("call", name, rname, (("K", a), ("K", b)), fr.bi, t.get("line"), len(st.frames), fr.body.npath))
    return K(low(a) == low(b))


def engine():
    P = D.prog()
    u = P.unit("scpi")
    models = dict(M.BYTE_MODELS)
    models["core::num::eq_ignore_ascii_case"] = m_eq_ignore_case
    models["core::num::<impl u8>::eq_ignore_ascii_case"] = m_eq_ignore_case
    return fdai.Engine(P, u, inline=lambda n, r: False, models=models, loop_limit=3)


def run(R, tier):
    R.configs.append("dflt")
    P = D.prog()
    u = P.unit("scpi")
    eng = engine()

    # ---- R03.1 frame of mnemonic_compare ----------------------------------------------------------
    mc = u.body(UTIL + "mnemonic_compare")
    res = eng.run(mc, [SymV("mnemonic", "mnemonic"), SymV("s", "s")])
    frame_ok = len(res) == 2
    closure_def = None
    for r in res:
        pi = D.PathInfo(r)
        names = [n.split("::")[-1] for n in pi.call_names]
        assume = [e for e in r.trace if e.kind == "assume" and e.name == "sym"]
        guard = assume[0] if assume else None
        gdesc = guard.args[0][2] if guard else None
        # guard must be Ge(len(mnemonic), len(s))
        def is_len(x, of):
            return isinstance(x, tuple) and x[0] == "sym" and isinstance(x[2], tuple) and x[2][0] == "ret" and x[2][1].endswith("::len") and ("'%s'" % of) in repr(x[2][3])
        gok = bool(gdesc) and gdesc[0] == "binop" and gdesc[1] == "Ge" and is_len(gdesc[2], "mnemonic") and is_len(gdesc[3], "s")
        if not gok:
            frame_ok = False
            continue
        if guard.args[1] is False:
            if not (isinstance(r.retval, K) and r.retval.v is False and "all" not in names):
                frame_ok = False
        else:
            alls = [e for e in pi.calls if e.name.endswith("Iterator::all")]
            if len(alls) != 1 or M.outcome(r) != "ret:all":
                frame_ok = False
                continue
            a = alls[0]
            # iterates over the *defined* mnemonic, draws candidates from one iterator over s, latch starts true
            it_ok = "'mnemonic'" in repr(a.args[0]) and "iter" in repr(a.args[0])
            clo = [x for x in a.args if isinstance(x, tuple) and x and x[0] == "closure"]
            if not it_ok or len(clo) != 1:
                frame_ok = False
            else:
                closure_def = clo[0][1]
    R.check(frame_ok and closure_def is not None, "R03.1", "mnemonic_compare:frame", "false unless len(mnemonic) >= len(s); otherwise Iterator::all over the defined mnemonic with the step closure", "mnemonic_compare must be `mnemonic.len() >= s.len() && mnemonic.iter().all(step)`: %s" % [D.PathInfo(r).describe() for r in res], where=mc.span)
    # captures of the step closure: candidate iterator over s and the latch initialised to true
    S = sym.Sym(mc.mir)
    cap_ok = False
    for bi in mc.mir.live_blocks():
        for st in mc.mir.blocks[bi]["stmts"]:
            if st["k"] == "assign" and st["rv"]["k"] == "aggr" and st["rv"].get("agg") == "closure":
                caps = [sym.norm(S.operand(f)) for f in st["rv"]["fields"]]
                it = latch = 0
                for c in caps:
                    ds = [sym.norm(x) for x in S.defs_of(c[1])] if c[0] == "var" else [c]
                    if len(ds) == 1 and ds[0][0] == "call" and ds[0][1].endswith("iter") and sym.norm(ds[0][3][0]) == ("arg", 2, "s"):
                        it += 1
                    elif len(ds) == 1 and ds[0] == ("bool", True):
                        latch += 1
                cap_ok = len(caps) == 2 and it == 1 and latch == 1
    R.check(cap_ok, "R03.1", "mnemonic_compare:captures", "step closure captures one iterator over the candidate and the latch (initially true)", "the step closure must draw candidate bytes from a single s.iter() and start with optional = true", where=mc.span)

    # ---- R03.1 step table ---------------------------------------------------------------------------------
    if closure_def is not None:
        cb = eng.find_body(closure_def)
        upv = [x["name"] for x in cb.mir.m.get("upvars", [])]
        if sorted(upv) != ["optional", "s_iter"] and len(upv) != 2:
            R.anchor_lost("R03.1", "step closure captures (%s)" % upv)
        else:
            # capture order as recorded by rustc
            order = upv if len(upv) == 2 else ["s_iter", "optional"]
            reps = {"U": (ord("A"), {"=": ord("a"), "==": ord("A"), "!": ord("b")}), "L": (ord("a"), {"=": ord("A"), "==": ord("a"), "!": ord("B")}), "D": (ord("1"), {"=": ord("1"), "==": ord("1"), "!": ord("2")}), "O": (ord("_"), {"=": ord("_"), "==": ord("_"), "!": ord("-")})}
            n = 0
            for cls, (m, xs) in reps.items():
                for xk in ("-", "=", "==", "!"):
                    for latch in (True, False):
                        st = fdai.State()
                        st.extra["bytes"] = [] if xk == "-" else [xs[xk]]
                        itcell = Cell(M.mk_bytes_iter(0), "s_iter")
                        lcell = Cell(K(latch), "optional")
                        caps = {}
                        for i, nm in enumerate(order):
                            caps[i] = RefV(itcell, (), True) if "iter" in nm else RefV(lcell, (), True)
                        env = AggV("closure-env", caps)
                        st.extra["cells"] = {"latch": lcell, "it": itcell}
                        res = eng.run(cb, [RefV(Cell(env, "env"), (), True), RefV(Cell(K(m), "m"))], st)
                        n += 1
                        key = "step[m=%s,x=%s,latch=%s]" % (cls, {"-": "absent", "=": "equal-other-case", "==": "equal", "!": "different"}[xk], latch)
                        if len(res) != 1 or res[0].outcome != "return" or not isinstance(res[0].retval, K):
                            R.violation("R03.1", key, "step function is not decided for this abstract state: %s" % [(r.outcome, r.retval) for r in res])
                            continue
                        r = res[0]
                        got = bool(r.retval.v)
                        l2 = r.extra["cells"]["latch"].v
                        l2 = l2.v if isinstance(l2, K) else None
                        pos = r.extra["cells"]["it"].v.fields[0].v
                        if xk == "-":
                            exp = (cls in ("L", "O")) and latch
                            exp_l = latch
                        else:
                            exp = xk in ("=", "==")
                            exp_l = False if cls == "L" else latch
                        exp_pos = 0 if xk == "-" else 1
                        R.check(got == exp and l2 == exp_l and pos == exp_pos, "R03.1", key, "-> (%s, latch=%s)" % (exp, exp_l),
                                "step(m class %s, candidate %s, latch %s) = (%s, latch=%s, consumed %s); the short/long-form rule requires (%s, latch=%s, consumed %s)" % (cls, xk, latch, got, l2, pos, exp, exp_l, exp_pos), where=cb.span)
            R.count("step_states", n)

    # ---- R03.2 suffix arms of mnemonic_match ----------------------------------------------------------------------
    mm = u.body(UTIL + "mnemonic_match")
    res = eng.run(mm, [SymV("mnemonic", "mnemonic"), SymV("s", "s")])
    arms = {}
    first_ok = True
    for r in res:
        pi = D.PathInfo(r)
        calls = pi.calls
        if not calls or not calls[0].name.endswith("mnemonic_compare") or "'mnemonic'" not in repr(calls[0].args[0]) or "'s'" not in repr(calls[0].args[1]):
            first_ok = False
            continue
        whole = D.assumed(pi, "mnemonic_compare", 1)
        if whole is True:
            if not (isinstance(r.retval, K) and r.retval.v is True and len(calls) == 1):
                first_ok = False
            continue
        # split results
        splits = [e for e in calls if e.name.endswith("mnemonic_split_index")]
        if len(splits) != 2 or "'mnemonic'" not in repr(splits[0].args[0]) or "'s'" not in repr(splits[1].args[0]):
            first_ok = False
            continue
        va = [e.args[1] for e in r.trace if e.kind == "assume" and e.name == "variant" and "mnemonic_split_index" in repr(e.args[0])]
        if len(va) != 2:
            first_ok = False
            continue
        arms.setdefault(tuple(va), []).append((r, pi))
    R.check(first_ok, "R03.2", "mnemonic_match:whole-first", "whole-mnemonic comparison first (true short-circuits), then both sides are split", "mnemonic_match must be `mnemonic_compare(mnemonic, s) || match (split(mnemonic), split(s))`: %s" % [D.PathInfo(r).describe() for r in res][:6], where=mm.span)

    def side(argsnap):
        s = repr(argsnap)
        which = "mnemonic" if "'mnemonic'" in s and "mnemonic_split_index" in s else "s" if "mnemonic_split_index" in s else None
        if which is None:
            return "whole-mnemonic" if "'mnemonic'" in s else "whole-s" if "'s'" in s else "?"
        # which tuple field of the split payload
        fld = "name" if "('field', 0," in s else "suffix" if "('field', 1," in s else "?"
        # the split of which input: the payload symbol derives from the call whose arg mentions the input
        src = "mnemonic" if "('sym', 'mnemonic', 'mnemonic')" in s else "s"
        return "%s.%s" % (src, fld)

    def arm_check(va, exp_compare, exp_eq):
        ps = arms.get(va, [])
        key = "arm[%s,%s]" % va
        if not ps:
            R.violation("R03.2", key, "no path for this arm")
            return
        good = True
        saw_true_path = False
        for r, pi in ps:
            tail = pi.calls[3:]
            if exp_compare is None:
                if tail or not (isinstance(r.retval, K) and r.retval.v is False):
                    good = False
                continue
            cmpc = [e for e in tail if e.name.endswith("mnemonic_compare")]
            eqs = [e for e in tail if e.name.endswith("PartialEq::eq") or "cmp::impls" in (e.rname or "")]
            if len(cmpc) != 1 or (side(cmpc[0].args[0]), side(cmpc[0].args[1])) != exp_compare:
                good = False
                continue
            cres = D.assumed(pi, "mnemonic_compare", 2)
            if cres is False:
                if eqs or not (isinstance(r.retval, K) and r.retval.v is False):
                    good = False
            else:
                saw_true_path = True
                if len(eqs) != 1:
                    good = False
                    continue
                a0, a1 = eqs[0].args[0], eqs[0].args[1]
                got = (side(a0) if "bytes" not in repr(a0) else "const", side(a1) if "('bytes'" not in repr(a1) else "const:%r" % _bytes_in(a1))
                if got != exp_eq or M.outcome(r) != "ret:eq":
                    good = False
                # equality must be byte-slice equality (so that `01` != `1`)
                st_ = eqs[0].extra or {}
                if "[u8" not in repr(st_.get("gargs")) and "[u8" not in repr(st_.get("self_ty")):
                    good = False
        if exp_compare is not None and not saw_true_path:
            good = False
        R.check(good, "R03.2", key, "compare%s && suffix-equality%s (byte-slice equality)" % (exp_compare, exp_eq) if exp_compare else "no suffix on either side: false",
                "suffix arm %s must be compare%s && %s == %s by byte-slice equality: %s" % (va, exp_compare, exp_eq[0] if exp_eq else "", exp_eq[1] if exp_eq else "", [pi.describe() for _, pi in ps]), where=mm.span)

    arm_check(("None", "None"), None, None)
    arm_check(("Some", "None"), ("mnemonic.name", "whole-s"), ("mnemonic.suffix", "const:b'1'"))
    arm_check(("None", "Some"), ("whole-mnemonic", "s.name"), ("s.suffix", "const:b'1'"))
    arm_check(("Some", "Some"), ("mnemonic.name", "s.name"), ("mnemonic.suffix", "s.suffix"))

    # ---- R03.3 split rule -----------------------------------------------------------------------------------------
    sp = u.body(UTIL + "mnemonic_split_index")
    res = eng.run(sp, [SymV("m", "m")])
    kinds = set()
    good = True
    pred_def = None
    for r in res:
        pi = D.PathInfo(r)
        rp = [e for e in pi.calls if e.name.endswith("Iterator::rposition")]
        if len(rp) != 1:
            good = False
            continue
        for a in rp[0].args:
            if isinstance(a, tuple) and a and a[0] == "closure":
                pred_def = a[1]
        var = [e.args[1] for e in r.trace if e.kind == "assume" and e.name == "variant" and "rposition" in repr(e.args[0])]
        if var == ["None"]:
            kinds.add("no-non-digit")
            good = good and isinstance(r.retval, EnumV) and r.retval.name == "None"
        elif var == ["Some"]:
            eq = [e for e in r.trace if e.kind == "assume" and e.name == "sym" and isinstance(e.args[0][2], tuple) and e.args[0][2][0] == "binop" and e.args[0][2][1] == "Eq"]
            if len(eq) != 1:
                good = False
                continue
            d = repr(eq[0].args[0][2])
            if not ("rposition" in d and "Sub" in d and "len" in d):
                good = False
            if eq[0].args[1] is True:
                kinds.add("no-trailing-digits")
                good = good and isinstance(r.retval, EnumV) and r.retval.name == "None"
            else:
                kinds.add("split")
                sa = [e for e in pi.calls if e.name.endswith("split_at")]
                ok = len(sa) == 1 and "Add" in repr(sa[0].args[1]) and "rposition" in repr(sa[0].args[1]) and ("K", 1) in _flat(sa[0].args[1])
                ok = ok and isinstance(r.retval, EnumV) and r.retval.name == "Some"
                good = good and ok
    R.check(good and kinds == {"no-non-digit", "no-trailing-digits", "split"}, "R03.3", "mnemonic_split_index", "splits after the last non-digit; None without trailing digits or without a name part", "mnemonic_split_index must split after the last non-digit byte (None if there are no trailing digits or only digits): %s" % [D.PathInfo(r).describe() for r in res], where=sp.span)
    if pred_def:
        pb = eng.find_body(pred_def)
        okp = True
        for b_, exp in ((ord("5"), False), (ord("A"), True), (ord("a"), True), (ord("_"), True)):
            rr = eng.run(pb, [RefV(Cell(AggV("closure-env", {}), "env"), (), True), RefV(Cell(K(b_), "b"))])
            if not (len(rr) == 1 and isinstance(rr[0].retval, K) and bool(rr[0].retval.v) == exp):
                okp = False
        R.check(okp, "R03.3", "split-predicate", "searches for the last byte that is not an ASCII digit", "the split predicate must be `!is_ascii_digit`", where=pb.span)
    else:
        R.anchor_lost("R03.3", "rposition predicate of mnemonic_split_index")

    # ---- R03.4 routing ----------------------------------------------------------------------------------------------------
    mph = u.body("scpi::parser::tokenizer::token::Token::match_program_header")
    eng2 = D.engine(inline=lambda n, r: False)
    for name in M.NONDATA + M.DATA:
        tok = M.token(eng2, name)
        rr = eng2.run(mph, [RefV(Cell(tok, "tok")), SymV("mnemonic", "mnemonic")])
        pis = [D.PathInfo(r) for r in rr]
        if name in ("ProgramMnemonic", "CharacterProgramData"):
            ok = len(pis) == 1 and [n.split("::")[-1] for n in pis[0].call_names] == ["mnemonic_match"] and "'mnemonic'" in repr(pis[0].calls[0].args[0]) and ("tok-%s-0" % name) in repr(pis[0].calls[0].args[1]) and pis[0].outcome == "ret:mnemonic_match"
            R.check(ok, "R03.4", "match_program_header(%s)" % name, "mnemonic_match(defined, payload)", "match_program_header(%s) must be mnemonic_match(mnemonic, payload) - with the default-1 suffix rule: %s" % (name, [p.describe() for p in pis]), where=mph.span)
        else:
            ok = len(pis) == 1 and not pis[0].calls and isinstance(rr[0].retval, K) and rr[0].retval.v is False
            R.check(ok, "R03.4", "match_program_header(%s)" % name, "false", "match_program_header(%s) must be false: %s" % (name, [p.describe() for p in pis]))
    # keyword literals are compared with mnemonic_compare (no suffix rule), everything else that matches uses mnemonic_match
    n_kw = 0
    for unit in P.units:
        for b in unit.bodies:
            if b.npath.startswith(UTIL):
                continue
            S = sym.Sym(b.mir)
            for c in b.calls():
                last = c.name.split("::")[-1]
                if last not in ("mnemonic_compare", "mnemonic_match"):
                    continue
                lit = None
                for a in c.args:
                    e = sym.norm(S.operand(a))
                    if e[0] == "bytes":
                        lit = e[1]
                if lit is not None and "option::ScpiEnum" in (b.impl_trait or ""):
                    continue  # derive-generated tables use mnemonic_match by design (property C20)
                if lit is not None and lit in KEYWORDS:
                    n_kw += 1
                    R.check(last == "mnemonic_compare", "R03.4", "keyword:%s@%s" % (lit.decode(), b.npath), "keyword compared with mnemonic_compare (short/long form, no numeric suffix)", "keyword %r is compared with %s in %s: a numeric suffix (e.g. %s1) would be accepted" % (lit, last, b.npath, lit.decode()), where=c.line)
                elif lit is not None:
                    R.violation("R03.4", "literal:%r@%s" % (lit, b.npath), "unexpected literal %r compared with %s" % (lit, last), where=c.line)
    R.floor("R03.4", "keyword guards", n_kw, 36)
    # public re-exports used by the derive and by contrib resolve to the util functions
    R.trust("core::iter::Iterator::all / rposition, slice::split_at and slice equality behave as documented")


def _bytes_in(t):
    for x in _flat(t):
        if isinstance(x, tuple) and x and x[0] == "bytes":
            return x[1]
    return None


def _flat(t):
    out = []
    if isinstance(t, tuple):
        out.append(t)
        for x in t:
            out.extend(_flat(x))
    return out
