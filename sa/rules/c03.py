"""C03 - mnemonics match only their short or long form, with the default-1 suffix rule."""
from .. import facts, fdai, scpi_models as M, sym
from ..fdai import EnumV, AggV, K, SymV, RefV, Cell, Loc, TOP, load
from . import dispatch as D

LEVEL = "other"
TECHNIQUE = "abstract interpretation (constant folding of the MIR of mnemonic_compare / mnemonic_match / mnemonic_split_index / Token::match_program_header, helpers analysed in place) over class-representative definition/candidate strings, compared with a reference statement of the SCPI rule; plus, for every conversion that recognises keywords (floats, integers, NumericValue, Auto), the conversion folded on the keyword and on the keyword with a numeric suffix appended (keywords take no suffix); candidates of the maximal length reach the matcher (named rows of the lexer's element tables)"
LEVEL_TEXT = "The three matching functions are folded by the analyser - not executed - on every candidate that agrees, differs in case or differs in letter per position (plus digit/underscore endings and one extra byte) for every SCPI-shaped definition up to 4 bytes, on every prefix / single-position deviation of four 12-byte definitions and on every library keyword; the suffix rule is folded over {absent,1,2,12}^2-style suffix pairs including leading-zero forms; the result must equal the reference rule on every point and must be decided (a single boolean) on every point. Keyword recognition is checked on the conversions themselves (36 keyword/type pairs): short and long form accepted alike, a numeric suffix not."
LEVEL_NOTE = "Not decided: definitions and candidates beyond the enumerated representatives (the extension to all strings up to 12 bytes rests on the matching loop treating every byte position alike); definitions outside SCPI shape. Trusted: rustc MIR, the analyser's models of core slice/iterator/Option APIs (sa/scpi_models.py), the reference rule in this file."

UTIL = "scpi::parser::tokenizer::util::"
KEYWORDS = {b"MAXimum", b"MINimum", b"DEFault", b"UP", b"DOWN", b"INFinity", b"NINFinity", b"NAN", b"ONCE"}


def tk_fn(u, name):
    """the free function `name` of the tokenizer (util, token, ... - wherever a refactoring put it)"""
    hits = [b for b in u.bodies if b.kind == "Fn" and b.npath.startswith("scpi::parser::tokenizer::") and b.npath.endswith("::" + name) and not b.parent_fn]
    if len(hits) != 1:
        raise facts.AnchorLost("function %s in scpi::parser::tokenizer (found %d)" % (name, len(hits)))
    return hits[0]


def engine():
    P = D.prog()
    u = P.unit("scpi")
    models = dict(M.FOLD_MODELS)
    # every function of the tokenizer's util/token modules is analysed in place, whatever helpers the code is split into
    inl = lambda n, r: r.startswith("scpi::parser::tokenizer::")
    return fdai.Engine(P, u, inline=inl, models=models, loop_limit=64, max_paths=64)


def sl(b):
    return RefV(Cell(fdai.BytesV(bytes(b)), "bytes"))


# ---- reference semantics (IEEE 488.2 7.6.1 / SCPI-99 6.2.1 as stated in the property) ---------------------------

def ref_split(x):
    """(alphabetic part, numeric suffix or None): the suffix is the maximal run of trailing digits; a string of
    digits only has no name part and is left whole"""
    i = len(x)
    while i > 0 and 48 <= x[i - 1] <= 57:
        i -= 1
    if i == len(x) or i == 0:
        return x, None
    return x[:i], x[i:]


def ref_short(name):
    """short form: the definition without its lower-case remainder"""
    i = len(name)
    while i > 0 and 97 <= name[i - 1] <= 122:
        i -= 1
    return name[:i]


def ref_form_match(name, cand):
    c = cand.lower()
    return c == name.lower() or c == ref_short(name).lower()


def ref_match(m, s):
    mn, ms = ref_split(m)
    sn, ss = ref_split(s)
    return ref_form_match(mn, sn) and (ms or b"1") == (ss or b"1")


def swap(b):
    return b ^ 0x20 if (65 <= b <= 90 or 97 <= b <= 122) else b


def candidates(m, extra=1):
    """strings that agree or disagree with m position by position: same byte, other case, a different letter;
    the last position additionally a digit and an underscore; up to `extra` bytes longer than m"""
    out = [b""]
    layer = [b""]
    for i in range(len(m) + extra):
        nxt = []
        for p in layer:
            if i < len(m):
                opts = [m[i], swap(m[i]), ord("x") if m[i] not in (ord("x"), ord("X")) else ord("y")]
            else:
                opts = [ord("x")]
            for o in opts:
                nxt.append(p + bytes([o]))
        # specials at the last position only
        for p in layer:
            for o in (ord("1"), ord("_")):
                out.append(p + bytes([o]))
        out.extend(nxt)
        layer = nxt
    seen = set()
    res = []
    for c in out:
        if c not in seen and len(c) <= 12:
            seen.add(c)
            res.append(c)
    return res


def decide(eng, body, args):
    """constant-fold a bool function; returns True/False or a description of why it is undecided"""
    try:
        res = eng.run(body, args)
    except fdai.TooManyPaths as e:
        return "undecided (%s)" % e
    vals = set()
    for r in res:
        if r.outcome != "return" or not isinstance(r.retval, K) or not isinstance(r.retval.v, bool):
            return "undecided (%s %r)" % (r.outcome, r.retval)
        vals.add(r.retval.v)
    if len(vals) != 1:
        return "undecided (paths disagree: %s)" % sorted(vals)
    return vals.pop()


def header_match_table(R, rule, eng=None):
    """Token::match_program_header over every token variant: mnemonic and character data are compared with the
    full mnemonic rule (default-1 suffix included), every other element never matches. Shared with C02 (routing)."""
    eng = eng or engine()
    u = eng.unit
    mph = u.body("scpi::parser::tokenizer::token::Token::match_program_header")
    pairs = [(b"ABc", b"ab"), (b"ABc", b"abc"), (b"ABc", b"a"), (b"ABc", b"ab1"), (b"ABc2", b"ab2"), (b"ABc2", b"ab"), (b"ABc", b"ab2"), (b"ABc1", b"abc"), (b"ABc", b"ab01"), (b"ABc", b"abcd")]
    for name in M.NONDATA + M.DATA:
        if name in ("ProgramMnemonic", "CharacterProgramData"):
            bad = []
            for m, s_ in pairs:
                tok = M.token(eng, name, [sl(s_)])
                got = decide(eng, mph, [RefV(Cell(tok, "tok")), sl(m)])
                if got is not ref_match(m, s_):
                    bad.append("%s(%r).match_program_header(%r) = %s, expected %s" % (name, s_, m, got, ref_match(m, s_)))
            R.check(not bad, rule, "match_program_header(%s)" % name, "the full mnemonic rule on the payload (%d definition/candidate pairs incl. default-1 suffix cases)" % len(pairs), "; ".join(bad[:4]), where=mph.span)
        else:
            tok = M.token(eng, name)
            got = decide(eng, mph, [RefV(Cell(tok, "tok")), sl(b"ABc")])
            R.check(got is False, rule, "match_program_header(%s)" % name, "false", "match_program_header on a %s element must be false, got %s" % (name, got), where=mph.span)


def run(R, tier):
    R.configs.append("dflt")
    P = D.prog()
    u = P.unit("scpi")
    eng = engine()
    thorough = tier == "thorough"

    # ---- R03.1 short/long form: mnemonic_compare over class-representative strings -----------------------------------
    mc = tk_fn(u, "mnemonic_compare")
    shorts = [b"A", b"AB"] + ([b"ABC"] if thorough else [])
    tails = [b"", b"c", b"cd"] + ([b"cde"] if thorough else [])
    defs = [a + t for a in shorts for t in tails]
    n = 0
    for m in defs:
        bad = []
        cands = candidates(m)
        for c in cands:
            got = decide(eng, mc, [sl(m), sl(c)])
            exp = ref_form_match(m, c)
            n += 1
            if got is not exp:
                bad.append("mnemonic_compare(%r, %r) = %s, the short/long-form rule gives %s" % (m, c, got, exp))
        R.check(not bad, "R03.1", "compare[%s]" % m.decode(), "matches exactly {short form, long form} ignoring case among %d candidates (agree/other-case/differ per position, digit/underscore endings, one byte longer)" % len(cands), "; ".join(bad[:5]), where=mc.span)
    # keywords the library itself compares with this function
    for kw in sorted(KEYWORDS):
        bad = []
        short = ref_short(kw)
        probes = [kw, kw.lower(), kw.upper(), short, short.lower(), short[:-1], kw[:-1] if kw[:-1] != short else kw + b"x", kw + b"x", short + b"1", kw + b"1", b""]
        for c in probes:
            got = decide(eng, mc, [sl(kw), sl(c)])
            exp = ref_form_match(kw, c)
            n += 1
            if got is not exp:
                bad.append("mnemonic_compare(%r, %r) = %s, expected %s" % (kw, c, got, exp))
        R.check(not bad, "R03.1", "compare[%s]" % kw.decode(), "keyword accepts only its short and long form", "; ".join(bad[:4]), where=mc.span)
    # definitions of full length: every prefix, every single-position deviation, one byte too long
    for m in (b"ABCDEFghijkl", b"ABCDefghijkl", b"ABCDEFGHIJKL", b"Abcdefghijkl"):
        cands = [m, m.upper(), m.lower(), ref_short(m), ref_short(m).lower(), m + b"x", ref_short(m) + b"x"]
        cands += [m[:i] for i in range(len(m))]
        cands += [m[:i] + (b"x" if m[i:i + 1] not in (b"x", b"X") else b"y") + m[i + 1:] for i in range(len(m))]
        cands += [m[:i] + b"1" for i in range(1, len(m))]
        bad = []
        for c in cands:
            got = decide(eng, mc, [sl(m), sl(c)])
            exp = ref_form_match(m, c)
            n += 1
            if got is not exp:
                bad.append("mnemonic_compare(%r, %r) = %s, the short/long-form rule gives %s" % (m, c, got, exp))
        R.check(not bad, "R03.1", "compare[%s]" % m.decode(), "12-byte definition: every prefix, every single-position deviation, one byte longer (%d candidates)" % len(cands), "; ".join(bad[:5]), where=mc.span)
    R.count("compare_evaluations", n)

    # ---- R03.2 numeric suffix: mnemonic_match ------------------------------------------------------------------------------
    mm = tk_fn(u, "mnemonic_match")
    names = [b"AB", b"ABc"]
    sufs = [b"", b"1", b"2", b"12"] + ([b"10", b"01"] if thorough else [])
    c_alpha = [b"AB", b"ab", b"ABC", b"abc", b"aBc", b"A", b"ABCD", b"ABX", b"abx", b""]
    c_suf = [b"", b"1", b"2", b"01", b"12", b"21", b"012"] + ([b"10", b"001", b"120"] if thorough else [])
    n = 0
    for nm in names:
        for sf in sufs:
            m = nm + sf
            bad = []
            for ca in c_alpha:
                for cs in c_suf:
                    c = ca + cs
                    got = decide(eng, mm, [sl(m), sl(c)])
                    exp = ref_match(m, c)
                    n += 1
                    if got is not exp:
                        bad.append("mnemonic_match(%r, %r) = %s, the rule gives %s" % (m, c, got, exp))
            R.check(not bad, "R03.2", "match[%s]" % m.decode(), "short or long form and equal suffix (absent = 1, compared digit for digit) over %d candidates" % (len(c_alpha) * len(c_suf)), "; ".join(bad[:5]), where=mm.span)
    R.count("match_evaluations", n)

    # ---- R03.3 split rule -----------------------------------------------------------------------------------------------------------
    sp = tk_fn(u, "mnemonic_split_index")
    bad = []
    probes = [b"", b"1", b"12", b"A", b"Ab", b"A1", b"A12", b"Ab12", b"1A", b"1A2", b"A1B", b"A1B2", b"_1", b"a0", b"A_", b"A_1"]
    for x in probes:
        try:
            res = eng.run(sp, [sl(x)])
        except fdai.TooManyPaths:
            res = []
        exp = ref_split(x)
        got = None
        if len(res) == 1 and res[0].outcome == "return" and isinstance(res[0].retval, EnumV):
            rv = res[0].retval
            if rv.name == "None":
                got = (x, None)
            elif rv.name == "Some" and isinstance(rv.fields.get(0), AggV):
                parts = [M._bytes_of(eng, res[0], rv.fields[0].fields.get(i)) for i in (0, 1)]
                if None not in parts:
                    got = (bytes(parts[0]), bytes(parts[1]))
        if got != exp:
            bad.append("mnemonic_split_index(%r) = %s, expected %s" % (x, got if got else [(r.outcome, r.retval) for r in res], exp))
    R.check(not bad, "R03.3", "mnemonic_split_index", "splits before the maximal run of trailing digits; None without trailing digits or without a name part (%d probes)" % len(probes), "; ".join(bad[:4]), where=sp.span)

    # ---- R03.4 routing ----------------------------------------------------------------------------------------------------
    header_match_table(R, "R03.4", eng)
    # the dispatcher itself: Node::exec on a branch with concretely named children selects the first child whose name the
    # received mnemonic matches by the rule above (no pre-filter on length or spelling may change that)
    names = [b"TRIGger", b"ABORt2", b"XY", b"COUNt12"]
    probes = [b"TRIG", b"trigger", b"TRIGGER1", b"trig1", b"trigg", b"TRIG2", b"ABOR", b"ABOR2", b"abort2", b"ABORT", b"ABORT02", b"XY", b"xy1", b"XY01", b"x", b"COUN12", b"count12", b"COUNT1", b"COUNT012", b"NONE"]
    bad = []
    for text in probes:
        exp = next((i for i, nm in enumerate(names) if ref_match(nm, text)), None)
        try:
            ps = D.exec_children_named(names, text)
        except (fdai.TooManyPaths, RecursionError) as e:
            bad.append("%r: undecided (%s)" % (text, type(e).__name__))
            continue
        execs = [e for p in ps for e in p.calls if e.name.endswith("Node::exec")]
        if len(ps) != 1:
            bad.append("%r: %d paths" % (text, len(ps)))
        elif exp is None:
            if ps[0].outcome != "Err(UndefinedHeader)" or execs:
                bad.append("%r matches no child but %s" % (text, ps[0].describe()))
        else:
            a0 = execs[0].args[0] if len(execs) == 1 else None
            if not (isinstance(a0, tuple) and a0[0] == "ref" and a0[1] == "child%d" % exp and ps[0].consumed == ["ProgramMnemonic"]):
                bad.append("%r must select %s: %s" % (text, names[exp].decode(), ps[0].describe()))
    R.check(not bad, "R03.4", "exec:child-selection", "a received mnemonic selects the first child whose definition it matches (short/long form, default-1 suffix) and only that (%d mnemonics x %d children)" % (len(probes), len(names)), "; ".join(bad[:4]))
    # derived enums (the witness crate and the workspace's own): the generated from_mnemonic applies the same rule
    try:
        from . import c20
        PW = facts.program("witness")
        R.configs.append("witness")
        progm = facts.Merged(PW, P)
        n_enum = 0
        for eu, self_ty, fm, mn, tf in c20.derived_enums(progm):
            adt_path, adt = c20.enum_adt(eu, self_ty)
            if adt is None or mn is None:
                continue
            engm = fdai.Engine(progm, eu, inline=lambda n, r: False, models={})
            ordered = []
            for v in sorted(adt["variants"], key=lambda v_: int(v_["discr"])):
                rr = engm.run(mn, [RefV(Cell(EnumV(adt_path, v["name"], int(v["discr"]), {i: TOP for i in range(len(v["fields"]))}), "self"))])
                lit = M._bytes_of(engm, rr[0], rr[0].retval) if len(rr) == 1 and rr[0].outcome == "return" else None
                if lit is None:
                    ordered = None
                    break
                ordered.append((v["name"], bytes(lit)))
            if not ordered:
                continue
            n_enum += 1
            badsel, nsel = c20.selection_mismatches(progm, eu, fm, ordered)
            R.check(not badsel, "R03.4", "derived:%s" % self_ty.split("::")[-1], "from_mnemonic selects by the mnemonic rule (%d texts)" % nsel, "; ".join(badsel[:4]), where=fm.span)
        R.floor("R03.4", "derived enums", n_enum, 5)
    except SystemExit as e:
        R.violation("R03.4", "derived:build", "witness crate does not build: %s" % e)
    # keywords (MIN/MAX/DEF/UP/DOWN/INF/NINF/NAN/ONCE) take no numeric suffix: every conversion that recognises a keyword is
    # folded on the keyword and on the keyword with a `1` appended - the two must not be treated alike (they would be if
    # the keyword were compared with the header rule mnemonic_match instead of mnemonic_compare)
    from . import convert as CV
    targets = []
    for uname in ("scpi", "scpi_contrib"):
        un = P.unit(uname)
        for ty, body in CV.conversions(un):
            if ty in CV.FLOATS:
                targets.append((uname, ty, body, [b"MAXimum", b"MINimum", b"INFinity", b"NINFinity", b"NAN"]))
            elif ty in CV.INTS:
                targets.append((uname, ty, body, [b"MAXimum", b"MINimum"]))
            elif "NumericValue<" in ty:
                targets.append((uname, "NumericValue", body, [b"MAXimum", b"MINimum", b"DEFault", b"UP", b"DOWN"]))
            elif ty.endswith("util::Auto"):
                targets.append((uname, "Auto", body, [b"ONCE"]))
    n_kw = 0
    for uname, ty, body, kws in targets:
        feng = CV.fold_engine("dflt", uname)
        bad = []

        def res_of(text):
            rs = CV.fold_character(feng, body, text)
            if rs is None:
                return "undecided"
            return sorted({(M.outcome(r), repr(fdai.snapshot(r.retval))[:200]) for r in rs})
        base = {}
        for kw in kws:
            base[kw] = res_of(kw)
            n_kw += 1
            if base[kw] == "undecided" or not all(o[0] == "Ok" for o in base[kw]):
                bad.append("%s is not recognised (%s)" % (kw.decode(), base[kw] if base[kw] == "undecided" else [o[0] for o in base[kw]]))
        if not bad:
            # every text around the keywords: recognised exactly when it is the short or the long form of one of them
            for text in CV.keyword_probes(kws):
                hits = [k for k in kws if ref_form_match(k, text)]
                got = res_of(text)
                if hits:
                    if got != base[hits[0]]:
                        bad.append("%r is not treated like %s" % (text, hits[0].decode()))
                else:
                    same = [k.decode() for k in kws if got == base[k]]
                    if same:
                        bad.append("%r is treated like %s (only the short and the long form may match; keywords take no numeric suffix)" % (text, same[0]))
        R.check(not bad, "R03.4", "keywords:%s" % ty, "%s recognised in exactly their short and long form (any letter case); near misses, extensions and numeric suffixes are not" % ", ".join(k.decode() for k in kws), "; ".join(bad[:4]), where=body.span)
    R.floor("R03.4", "keyword guards", n_kw, 36)
    # public re-exports used by the derive and by contrib resolve to the util functions
    R.trust("core::iter::Iterator::all / rposition, slice::split_at and slice equality behave as documented")

    # ---- R03.5 candidates of the maximal length reach the matcher -------------------------------------------------------------
    # The property quantifies over candidates up to 12 bytes; a lexer that refuses a 12-character mnemonic or character
    # datum takes those candidates away before they are compared (named rows of the element tables, see C04/R04.8).
    from . import lexer as LX
    tab, span_ = LX.element_table(("mnemonic", "chardata"), False)
    for kind, inputs in (("mnemonic", [b"ABCDEFGHIJKL", b"ABCDEFGHIJKL:X", b"*ABCDEFGHIJK", b"abcdefghijkl;"]), ("chardata", [b"ABCDEFGHIJKL", b"ABCDEFGHIJKL ,"])):
        rows = {d: (g, e) for d, g, e in tab[kind]}
        missing = [d for d in inputs if d not in rows]
        bad = ["%r: lexed as %s, expected %s" % (d, rows[d][0], rows[d][1]) for d in inputs if d in rows and rows[d][0] != rows[d][1]]
        R.check(not bad and not missing, "R03.5", "max-length:" + kind, "a 12-character %s is handed on whole" % ("header mnemonic" if kind == "mnemonic" else "character datum"), "; ".join(bad[:3]) or "rows missing: %r" % missing, where=span_)

