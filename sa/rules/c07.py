"""C07 - integer parameters convert to the exactly rounded value or a range error."""
from fractions import Fraction as F
from .. import facts, fdai, scpi_models as M, sym, ieee, cfg
from . import contrib as CB_
from ..fdai import EnumV, AggV, K, SymV, RefV, Cell, Loc, TOP, load
from . import dispatch as D, convert as C
from .c08 import keyword_paths, ok_value, C_bytes

LEVEL = "other"
TECHNIQUE = "guard/rounding analysis of the 10 float-fallback closures: idiom shape match (range guards monotone in the parsed value; truncate; exact remainder; checked +-1) plus exact evaluation of the closure's expression DAG, in the intermediate IEEE format (rational arithmetic, round-to-nearest-even), at the boundary floats of the required-accept and must-reject intervals and at NaN/infinities/zero/subnormals; FDAI tables for fast path, error map, non-decimal narrowing, keywords and element types; intermediate-precision check; NR1 value tables: each integer conversion folded on literals around its type's limits with lexical-core's integer parser modelled as audited (it lets literals with the maximal digit count wrap) and the integer TryFrom by contract; typed echo tables (sa/rules/echotable.py, witness/echo): `Node::run` folded end to end on messages to a witness command that pulls one parameter of the type (`next_data::<T>()` / `next_optional_data`) and writes it back - lexer, dispatcher, Parameters, the conversion, the ResponseData writer and the formatter analysed in place, lexical-core's parsers / integer writer by contract - the answer compared with a reference written from the property's statement: all ten integer types on NR1 / NR2 / NR3 literals at and around every bound and half-integer, non-decimal forms, keywords, look-alikes, suffixed and non-numeric elements, optional parameters; the lexer's non-decimal element table; the typed pulls hand a refused literal on as the unit's error; where the fallback's guards are organised differently the conversion is folded end to end on the boundary values and a dense sample instead (R07.1 by folding)"
LEVEL_TEXT = "Per target type the rule (1) matches the shape of the fallback (every range guard is a comparison of v or v-const with a constant, hence monotone in v; the result is trunc(v), corrected by checked +-1 under comparisons of the exact remainder v - trunc(v) with +-0.5), and (2) evaluates that expression DAG exactly, with IEEE rounding in the intermediate format, at the endpoints of the intervals the property fixes: just inside/outside (MIN-0.5, MAX+0.5), MIN-1, MAX+1, the half-integer neighbours of 0, 1 and of 2^(p-1), zero, subnormals, NaN and infinities - monotonicity extends the endpoint verdicts to the intervals. The remaining clauses (fast path, error mapping, non-decimal narrowing, keywords, element types, precision of the intermediate) are decided by FDAI tables."
LEVEL_NOTE = "Not decided: digit-level correctness of lexical-core's parsers (trusted); exact ties (either neighbour allowed by the property). The interpolation between evaluated endpoints rests on the checked monotone shape of the guards. Trusted: rustc MIR, exact rational model of IEEE-754 add/sub/compare/convert (sa/ieee.py)."

LEX_ERR = "lexical_core::Error"


# ---- float expression evaluation --------------------------------------------------------------------
class Unknown(Exception):
    pass


_V_ARG = [None]   # when the rounding code lives in a helper: index of the argument that carries the parsed float


def is_v(e):
    """e is the parsed float itself: Continue-payload of `?` applied to lexical_core::parse::<F>(..) - or, when the
    rounding code was moved into a helper function, that helper's float argument"""
    if _V_ARG[0] is not None:
        return e[0] == "arg" and e[1] == _V_ARG[0]
    if e[0] == "field" and e[1][0] == "downcast" and e[1][2] == "Continue":
        inner = e[1][1]
        if inner[0] == "call" and inner[1].endswith("Try::branch") and inner[3] and inner[3][0][0] == "call" and inner[3][0][1].startswith("lexical_core::parse"):
            return True
    return False


class Ev:
    def __init__(self, fmt, ity):
        self.fmt = fmt
        self.ity = ity
        self.lo, self.hi, self.bits = C.INTS[ity]

    def ev(self, e, v):
        e0 = e[0]
        if e0 == "var" and e[1] in getattr(self, "env", {}):
            return self.env[e[1]]
        if is_v(e):
            return ("f", v)
        if e0 == "float":
            return ("f", ieee.from_bits(e[1], e[2]))
        if e0 == "int":
            return ("i", e[1])
        if e0 == "bool":
            return ("b", e[1])
        if e0 == "cast":
            kind, inner, ty = e[1], self.ev(e[2], v), e[3]
            if kind == "IntToFloat":
                fmt = ty
                return ("f", ieee.rnd(F(inner[1]), fmt))
            if kind == "FloatToInt":
                lo, hi, _ = C.INTS[ty]
                return ("i", ieee.trunc_to_int(inner[1], lo, hi))
            if kind == "IntToInt":
                lo, hi, bits = C.INTS[ty]
                x = inner[1]
                if lo <= x <= hi:
                    return ("i", x)
                x &= (1 << bits) - 1
                if lo < 0 and x >= (1 << (bits - 1)):
                    x -= 1 << bits
                return ("i", x)
            if kind == "FloatToFloat":
                return ("f", ieee.rnd(inner[1], ty) if not ieee.is_special(inner[1]) else inner[1])
            raise Unknown("cast " + kind)
        if e0 == "binop":
            op = e[1]
            a, b = self.ev(e[2], v), self.ev(e[3], v)
            if a[0] == "f" and b[0] == "f":
                if op == "Add":
                    return ("f", ieee.add(a[1], b[1], self.fmt))
                if op == "Sub":
                    return ("f", ieee.sub(a[1], b[1], self.fmt))
                if op in ("Lt", "Le", "Gt", "Ge", "Eq", "Ne"):
                    return ("b", ieee.cmp(op, a[1], b[1]))
                raise Unknown("float op " + op)
            if a[0] == "i" and b[0] == "i":
                if op in ("Lt", "Le", "Gt", "Ge", "Eq", "Ne"):
                    return ("b", {"Lt": a[1] < b[1], "Le": a[1] <= b[1], "Gt": a[1] > b[1], "Ge": a[1] >= b[1], "Eq": a[1] == b[1], "Ne": a[1] != b[1]}[op])
                base = op.replace("WithOverflow", "")
                r = a[1] + b[1] if base == "Add" else a[1] - b[1] if base == "Sub" else None
                if r is None:
                    raise Unknown("int op " + op)
                if "WithOverflow" in op:
                    return ("t", (("i", r), ("b", not (self.lo <= r <= self.hi))))
                return ("i", r)
            if a[0] == "b" and b[0] == "b":
                if op == "BitAnd":
                    return ("b", a[1] and b[1])
                if op == "BitOr":
                    return ("b", a[1] or b[1])
            raise Unknown("binop %s on %s,%s" % (op, a[0], b[0]))
        if e0 == "unop":
            a = self.ev(e[2], v)
            if e[1] == "Not" and a[0] == "b":
                return ("b", not a[1])
            if e[1] == "Neg" and a[0] == "f":
                return ("f", ieee.neg(a[1]))
            raise Unknown("unop " + e[1])
        if e0 == "field" and e[1][0] == "binop" and "WithOverflow" in e[1][1]:
            t = self.ev(e[1], v)
            return t[1][int(e[2])]
        if e0 == "call":
            nm = e[1].split("::")[-1]
            args = [self.ev(sym.norm(a), v) for a in e[3]]
            if nm in ("is_nan", "is_finite", "is_infinite", "is_normal", "is_sign_positive", "is_sign_negative", "is_subnormal"):
                x = args[0][1]
                if nm == "is_nan":
                    return ("b", x == ieee.NAN)
                if nm == "is_infinite":
                    return ("b", x in (ieee.PINF, ieee.NINF))
                if nm == "is_finite":
                    return ("b", not ieee.is_special(x))
                if nm == "is_sign_positive":
                    return ("b", x == ieee.PINF or (not ieee.is_special(x) and x >= 0))
                if nm == "is_sign_negative":
                    return ("b", x == ieee.NINF or (not ieee.is_special(x) and x < 0))
                p, emin, emax = ieee.FORMATS[self.fmt]
                minnorm = F(2) ** emin
                if nm == "is_normal":
                    return ("b", not ieee.is_special(x) and abs(x) >= minnorm)
                if nm == "is_subnormal":
                    return ("b", not ieee.is_special(x) and x != 0 and abs(x) < minnorm)
            if nm in ("checked_add", "checked_sub"):
                r = args[0][1] + args[1][1] if nm == "checked_add" else args[0][1] - args[1][1]
                return ("opt", r if self.lo <= r <= self.hi else None)
            if nm == "ok_or":
                o = args[0]
                if o[0] == "opt":
                    return ("res", "Ok", o[1]) if o[1] is not None else ("res", "Err", args[1])
            if nm in ("to_int_unchecked",):
                x = args[0][1]
                if ieee.is_special(x):
                    return ("ub", "to_int_unchecked(%s)" % x)
                t = ieee.trunc_to_int(x, -(10**40), 10**40)
                if not (self.lo <= t <= self.hi):
                    return ("ub", "to_int_unchecked(%s) out of range" % t)
                return ("i", t)
            raise Unknown("call " + e[1])
        if e0 == "aggr" and e[1] == "adt":
            if e[2].endswith("result::Result"):
                return ("res", e[3], self.ev(sym.norm(e[4][0]), v)[1] if e[3] == "Ok" else self.ev(sym.norm(e[4][0]), v))
            if e[2].endswith("Error"):
                return ("lexerr", e[3])
            if e[2].endswith("option::Option"):
                return ("opt", self.ev(sym.norm(e[4][0]), v)[1] if e[3] == "Some" else None)
        if e0 == "aggr" and e[1] == "tuple" and not e[4]:
            return ("unit",)
        raise Unknown("expr %s" % (e[:2],))


def walk(cl, S, evr, v, invalid_digit_discr):
    """Follow the closure's CFG for the float value v; returns ('Ok', n) | ('Err', kind) | ('panic', msg) | ('ub', msg)"""
    mir = cl.mir
    bi = 0
    last0 = None
    evr.env = {}
    for _ in range(200):
        b = mir.blocks[bi]
        for st in b["stmts"]:
            if st["k"] == "assign" and st["place"]["l"] == 0 and not st["place"]["proj"]:
                last0 = ("rv", st["rv"])
            elif st["k"] == "assign" and not st["place"]["proj"] and st["rv"]["k"] == "use" and st["rv"]["a"]["k"] == "const":
                c = st["rv"]["a"]["c"]
                if "bool" in c:
                    evr.env[st["place"]["l"]] = ("b", bool(c["bool"]))
                elif "int" in c:
                    evr.env[st["place"]["l"]] = ("i", int(c["int"]))
        t = b["term"]
        k = t["k"]
        if k == "goto":
            bi = t["target"]
        elif k == "switch":
            e = sym.norm(S.operand(t["discr"]))
            if e[0] == "discr" and e[1] == ("arg", 2, "e"):
                val = invalid_digit_discr
            elif e[0] == "discr" and e[1][0] == "call" and e[1][1].endswith("Try::branch"):
                val = 0  # parse succeeded: Continue
            else:
                r = evr.ev(e, v)
                if r[0] == "ub":
                    return r
                val = int(r[1]) if r[0] in ("b", "i") else None
                if val is None:
                    raise Unknown("switch on %s" % (r,))
            nxt = t["otherwise"]
            for tv, bb in t["targets"]:
                if int(tv) == val:
                    nxt = bb
            bi = nxt
        elif k == "call":
            if t["dest"]["l"] == 0 and not t["dest"]["proj"]:
                last0 = ("call", t, bi)
            if t["target"] is None:
                return ("panic", t["callee"].get("path"))
            bi = t["target"]
        elif k == "assert":
            e = sym.norm(S.operand(t["cond"]))
            r = evr.ev(e, v)
            if bool(r[1]) != t["expected"]:
                return ("panic", "assert " + t["msg"])
            bi = t["target"]
        elif k == "return":
            if last0 is None:
                raise Unknown("no return value")
            if last0[0] == "rv":
                r = evr.ev(sym.norm(S.rvalue(last0[1])), v)
            else:
                r = evr.ev(sym.norm(S.call_expr(last0[1], last0[2])), v)
            if r[0] == "res":
                if r[1] == "Ok":
                    return ("Ok", r[2])
                er = r[2]
                return ("Err", er[1] if er[0] == "lexerr" else str(er))
            if r[0] == "ub":
                return r
            raise Unknown("return value %s" % (r,))
        else:
            raise Unknown("terminator " + k)
    raise Unknown("walk limit")


def nearest_ok(x, lo, hi):
    """set of acceptable outcomes for exact rational x: Ok(n) for nearest n (both at a tie) if representable, else Err"""
    fl = x.numerator // x.denominator
    frac = x - fl
    if frac < F(1, 2):
        cands = [fl]
    elif frac > F(1, 2):
        cands = [fl + 1]
    else:
        cands = [fl, fl + 1]
    out = set()
    for c in cands:
        out.add(("Ok", c) if lo <= c <= hi else ("Err",))
    return out


class Renamed:
    """a view of a Run that files everything under one rule id of another property (used by C08 for the integer
    conversion the boolean conversion delegates to)"""

    def __init__(self, R, rule, prefix):
        self.R, self.rule, self.prefix = R, rule, prefix
        self.configs = R.configs

    def check(self, cond, rule, key, detail_ok="", detail_bad="", where=None, **kw):
        return self.R.check(cond, self.rule, self.prefix + key, detail_ok, detail_bad, where=where, **kw)

    def violation(self, rule, key, detail, where=None, **kw):
        return self.R.violation(self.rule, self.prefix + key, detail, where=where, **kw)

    def ok(self, rule, key, detail="", sample=None):
        return self.R.ok(self.rule, self.prefix + key, detail, sample)

    def anchor_lost(self, rule, what):
        return self.R.anchor_lost(self.rule, what)

    def floor(self, rule, what, count, minimum):
        return None

    def count(self, what, n=1):
        return None

    def sample(self, s):
        return None

    def trust(self, *a):
        return self.R.trust(*a)

    def assume(self, *a):
        return self.R.assume(*a)


def _fold_point(ity, v):
    """the integer conversion folded end to end (echo command `*<TY>? <literal>`) on the decimal literal that denotes the float
    `v` exactly: ("Ok", n) | ("Err",) | "n/a" (no literal denotes v) | None (undecided)"""
    from . import echotable as ET
    if ieee.is_special(v):
        if v == ieee.NAN:
            return "n/a"
        text = b"1e999" if v == ieee.PINF else b"-1e999"
    else:
        text = repr(float(v)).encode()
        if b"." not in text and b"e" not in text:
            text += b".0"
    r = ET.run_message(b"*" + ity.upper().encode() + b"? " + text)
    if r[0] == "Ok" and r[1] is not None:
        try:
            return ("Ok", int(bytes(r[1]).strip()))
        except ValueError:
            return None
    if r[0] == "Err":
        return ("Err",)
    return None


def run(R, tier, only=None, project=None):
    if "dflt" not in R.configs:
        R.configs.append("dflt")
    P = facts.program("dflt")
    u = P.unit("scpi")
    eng = C.engine("dflt", "scpi")
    lex_tab = None
    for k_, t_ in eng.enum_tables.items():
        if k_.endswith("Error") and "InvalidDigit" in t_.values():
            lex_tab = t_
    if lex_tab is None:
        R.anchor_lost("R07.6", "variant table of lexical_core::Error")
        return
    inv_discr = [d for d, n in lex_tab.items() if n == "InvalidDigit"][0]
    convs = {ty: b for ty, b in C.conversions(u) if ty in C.INTS and (only is None or ty in only)}
    R.floor("R07.1", "integer conversions", len(convs), 10)
    for ity, b in sorted(convs.items()):
        lo, hi, bits = C.INTS[ity]
        closures = [c for c in u.bodies if c.path.startswith(b.path + "::{closure#")]
        fb = []
        for c in closures:
            for call in c.calls():
                if call.name.startswith("lexical_core::parse") and call.gargs() and call.gargs()[0] in ("f32", "f64"):
                    fb.append((c, call.gargs()[0], call))
        if len(fb) != 1:
            R.violation("R07.1", "%s:fallback" % ity, "expected exactly one float-fallback closure (lexical_core::parse::<f32|f64>) in the %s conversion, found %d" % (ity, len(fb)), where=b.span)
            continue
        cl, fmt, pcall = fb[0]
        p = ieee.FORMATS[fmt][0]
        # ---- R07.5 precision of the intermediate
        okp = p >= bits or (bits == 64 and fmt == "f64")
        R.check(okp, "R07.5", "%s:intermediate" % ity, "%s (p=%d) for a %d-bit target" % (fmt, p, bits), "%s is converted through %s whose %d-bit mantissa cannot hold every %d-bit value: literals above 2^%d that are not written as plain integers are mis-rounded" % (ity, fmt, p, bits, p), where=cl.span)
        R.check(pcall.name == "lexical_core::parse", "R07.1", "%s:fallback-parser" % ity, "complete parser on the literal", "fallback must parse the complete literal (lexical_core::parse), uses %s" % pcall.name, where=cl.span)
        # the rounding code: the fallback closure itself, or a helper it hands the parsed float to
        _V_ARG[0] = None
        closure_body = cl
        has_cast = any(st["k"] == "assign" and st["rv"]["k"] == "cast" and st["rv"]["kind"] == "FloatToInt" for bi in cl.mir.live_blocks() for st in cl.mir.blocks[bi]["stmts"])
        if not has_cast:
            Sc = sym.Sym(cl.mir)
            for call in cl.calls():
                dk = call.callee.get("resolved_dpath") or call.callee.get("dpath")
                hb = next((x for x in u.bodies if x.kind in ("Fn", "AssocFn") and (x.npath == call.rname or (dk and x.dpath == dk))), None)
                if hb is None:
                    continue
                for i, a in enumerate(call.args):
                    if is_v(sym.norm(Sc.operand(a))):
                        # the helper's result must be the closure's result (tail position)
                        rets = [sym.norm(Sc.local(0))] + [sym.norm(d_) for d_ in Sc.defs_of(0)]
                        if any(ret[0] == "call" and ret[2] == call.rname and ret[4] == call.bi for ret in rets):
                            cl = hb
                            _V_ARG[0] = i + 1
                        break
                if _V_ARG[0] is not None:
                    break
        S = sym.Sym(cl.mir)
        evr = Ev(fmt, ity)
        # ---- R07.1 shape: casts and rounding idiom
        f2i = []
        unsafe_calls = []
        cmps = []
        preds = []
        for bi in sorted(cl.mir.live_blocks()):
            for st in cl.mir.blocks[bi]["stmts"]:
                if st["k"] == "assign":
                    rv = st["rv"]
                    if rv["k"] == "cast" and rv["kind"] == "FloatToInt":
                        f2i.append((bi, sym.norm(S.rvalue(rv))))
                    if rv["k"] == "binop" and rv["op"] in ("Lt", "Le", "Gt", "Ge", "Eq", "Ne") and rv.get("ty") in ("f32", "f64"):
                        cmps.append(sym.norm(S.rvalue(rv)))
            t = cl.mir.blocks[bi]["term"]
            if t["k"] == "call":
                nm = t["callee"].get("path", "").split("::")[-1]
                if nm == "to_int_unchecked":
                    unsafe_calls.append(bi)
                if nm in ("is_normal", "is_subnormal", "classify"):
                    preds.append(nm)
        R.check(not preds, "R07.1", "%s:no-class-predicate" % ity, "no is_normal/is_subnormal test (zero and subnormal literals are valid numbers)", "the fallback tests %s: zero / subnormal literals such as 0.0 would be rejected" % preds, where=cl.span)
        R.check(not unsafe_calls, "R07.1", "%s:no-unchecked-cast" % ity, "no to_int_unchecked", "to_int_unchecked is used: its precondition (finite, in range after truncation) must hold on every path - use the checked shape", where=cl.span)
        shape_ok = len(f2i) == 1 and is_v(f2i[0][1][2]) and f2i[0][1][3] == ity
        trunc = f2i[0][1] if f2i else None
        # every float comparison: (v | v-const | const-free remainder) against a constant
        def is_const(e):
            return e[0] in ("float",) or (e[0] == "cast" and e[1] == "IntToFloat" and e[2][0] == "int") or (e[0] == "binop" and e[1] in ("Add", "Sub") and is_const(e[2]) and is_const(e[3]))

        def is_rem(e):
            return trunc is not None and e == ("binop", "Sub", trunc[2], ("cast", "IntToFloat", trunc, fmt, ity))

        def is_affine(e):
            return is_v(e) or (e[0] == "binop" and e[1] in ("Add", "Sub") and is_v(e[2]) and is_const(e[3]))

        guard_cmps = 0
        rem_cmps = 0
        for c in cmps:
            a, bb_ = c[2], c[3]
            if (is_rem(a) and is_const(bb_)) or (is_const(a) and is_rem(bb_)):
                rem_cmps += 1
            elif (is_affine(a) and is_const(bb_)) or (is_const(a) and is_affine(bb_)):
                guard_cmps += 1
            else:
                shape_ok = False
        shape_ok = shape_ok and guard_cmps >= 2 and rem_cmps == 2
        # results: Ok(trunc) | ok_or(checked_add(trunc,1)) | ok_or(checked_sub(trunc,1)) | Err(..)
        results = []
        for bi in sorted(cl.mir.live_blocks()):
            blk = cl.mir.blocks[bi]
            for st in blk["stmts"]:
                if st["k"] == "assign" and st["place"]["l"] == 0 and not st["place"]["proj"]:
                    results.append(sym.norm(S.rvalue(st["rv"])))
            t = blk["term"]
            if t["k"] == "call" and t["dest"]["l"] == 0 and not t["dest"]["proj"]:
                results.append(sym.norm(S.call_expr(t, bi)))
        kinds = set()
        for r_ in results:
            if r_[0] == "aggr" and r_[3] == "Ok" and trunc is not None and r_[4][0] == trunc:
                kinds.add("trunc")
            elif r_[0] == "aggr" and r_[3] == "Err":
                kinds.add("err")
            elif r_[0] == "call" and r_[1].endswith("ok_or") and r_[3][0][0] == "call" and r_[3][0][1].split("::")[-1] in ("checked_add", "checked_sub") and trunc is not None and r_[3][0][3][0] == trunc and r_[3][0][3][1][:2] == ("int", 1):
                kinds.add(r_[3][0][1].split("::")[-1])
            elif r_[0] == "call" and r_[1].endswith("from_residual"):
                kinds.add("err")
            else:
                kinds.add("other:%s" % sym.show(r_))
        shape_ok = shape_ok and kinds == {"trunc", "err", "checked_add", "checked_sub"}
        shape_args = ("R07.1", "%s:shape" % ity, "range guards compare v (or v - const) with constants; result = trunc(v), +-1 (checked) under remainder >= 0.5 / <= -0.5",
                "the float fallback for %s does not have the exact-rounding shape (monotone range guards on v; trunc(v); remainder v - trunc(v) compared with +-0.5; checked_add/checked_sub): results %s, %d range comparisons, %d remainder comparisons" % (ity, sorted(kinds), guard_cmps, rem_cmps))
        # ---- R07.1 endpoint evaluation
        mx = ieee.max_finite(fmt)
        sub_ = ieee.min_subnormal(fmt)
        pts = [
            ("zero", F(0)), ("+subnormal", sub_), ("-subnormal", -sub_),
            ("just-below-0.5", ieee.float_below(F(1, 2), fmt)), ("0.5", F(1, 2)), ("just-above-0.5", ieee.float_above(F(1, 2), fmt)),
            ("just-above--0.5", ieee.float_above(F(-1, 2), fmt)), ("-0.5", F(-1, 2)), ("just-below--0.5", ieee.float_below(F(-1, 2), fmt)),
            ("1.5-", ieee.float_below(F(3, 2), fmt)), ("1.5+", ieee.float_above(F(3, 2), fmt)), ("0.4", ieee.rnd(F(4, 10), fmt)), ("-0.4", ieee.rnd(F(-4, 10), fmt)),
            ("MAX", ieee.floor_float(F(hi), fmt)), ("just-below-MAX+0.5", ieee.float_below(F(hi) + F(1, 2), fmt)), ("MAX+0.5-or-above", ieee.ceil_float(F(hi) + F(1, 2), fmt)),
            ("just-above-MAX+0.5", ieee.float_above(F(hi) + F(1, 2), fmt)), ("MAX+1", ieee.ceil_float(F(hi) + 1, fmt)), ("just-above-MAX+1", ieee.float_above(F(hi) + 1, fmt)),
            ("MIN", ieee.ceil_float(F(lo), fmt)), ("just-above-MIN-0.5", ieee.float_above(F(lo) - F(1, 2), fmt)), ("MIN-0.5-or-below", ieee.floor_float(F(lo) - F(1, 2), fmt)),
            ("just-below-MIN-0.5", ieee.float_below(F(lo) - F(1, 2), fmt)), ("MIN-1", ieee.floor_float(F(lo) - 1, fmt)), ("just-below-MIN-1", ieee.float_below(F(lo) - 1, fmt)),
            ("max-finite", mx), ("-max-finite", -mx), ("+inf", ieee.PINF), ("-inf", ieee.NINF), ("NaN", ieee.NAN),
        ]
        # odd integers around the precision limit of the intermediate (exactness above 2^(p-1))
        for e_ in (p - 1, p):
            for d in (1, 3):
                x = F(2) ** e_ - d
                if lo <= x <= hi:
                    pts.append(("2^%d-%d" % (e_, d), ieee.rnd(x, fmt)))
                    if -x >= lo:
                        pts.append(("-(2^%d-%d)" % (e_, d), ieee.rnd(-x, fmt)))
            x = F(2) ** (e_ - 1) + F(1, 2)
            if lo <= x <= hi and ieee.rnd(x, fmt) == x:
                pts.append(("2^%d+0.5-" % (e_ - 1), ieee.float_below(x, fmt)))
                pts.append(("2^%d+0.5+" % (e_ - 1), ieee.float_above(x, fmt)))
        n_pts = 0
        n_folded = 0
        bad = []
        if not shape_ok:
            # The guards are not in the shape whose monotonicity lets the boundary values speak for every value. The
            # conversion is then decided by folding it end to end (typed echo machinery of R07.11: the literal through the
            # lexer, Parameters and TryFrom) on the boundary values and on a dense sample instead: every half-integer and
            # its two neighbours in windows around 0, MIN and MAX, and powers of two up to the intermediate's precision.
            for base_ in (F(0), F(lo), F(hi)):
                for k_ in range(-6, 7):
                    for x_ in (base_ + k_ + F(1, 2),):
                        if ieee.rnd(x_, fmt) == x_:
                            pts.extend([("dense %s" % x_, x_), ("dense %s-" % x_, ieee.float_below(x_, fmt)), ("dense %s+" % x_, ieee.float_above(x_, fmt))])
                        else:
                            pts.append(("dense ~%s" % x_, ieee.rnd(x_, fmt)))
            for e_ in range(1, p + 2):
                for sgn_ in (1, -1):
                    x_ = sgn_ * (F(2) ** e_)
                    pts.extend([("2^%d" % e_, ieee.rnd(x_, fmt)), ("2^%d+" % e_, ieee.float_above(ieee.rnd(x_, fmt), fmt)), ("2^%d-" % e_, ieee.float_below(ieee.rnd(x_, fmt), fmt))])
        for nm, v in pts:
            try:
                if not shape_ok:
                    raise Unknown("shape not recognised")
                got = walk(cl, S, evr, v, inv_discr)
            except Unknown as ex:
                got = _fold_point(ity, v)
                if got is None:
                    bad.append((nm, v, "undecidable: %s" % ex, None))
                    continue
                if got == "n/a":
                    continue          # (a NaN cannot be written as a decimal literal)
                n_folded += 1
            n_pts += 1
            if ieee.is_special(v):
                exp = {("Err",)}
            else:
                exp = nearest_ok(v, lo, hi)
            g = ("Ok", got[1]) if got[0] == "Ok" else ("Err",) if got[0] == "Err" else got
            if g not in exp:
                bad.append((nm, v, got, sorted(exp)))
        R.count("endpoint_evaluations", n_pts)
        # the shape argument, or - where the code is organised differently - every boundary value and the dense sample decided
        # by folding, all of them right
        by_folding = (not shape_ok) and n_folded == n_pts and n_pts >= 60 and not bad
        R.check(shape_ok or by_folding, shape_args[0], shape_args[1], shape_args[2] if shape_ok else "guards not in the monotone shape: decided by folding the whole conversion on %d boundary and densely sampled values instead" % n_pts, shape_args[3], where=cl.span)
        R.check(not bad, "R07.1", "%s:endpoints" % ity, "%d boundary values of the %s intermediate give the nearest integer or a range error" % (n_pts, fmt),
                "%s fallback mis-converts boundary values (in %s): %s" % (ity, fmt, "; ".join("%s=%s -> %s, required %s" % (nm, (float(v) if not ieee.is_special(v) else v), got, exp) for nm, v, got, exp in bad[:5])), where=cl.span)

        # ---- R07.7 NR1 value table ---------------------------------------------------------------------------------
        # The conversion is folded on NR1 texts around the type's limits, with lexical-core's integer parser as audited
        # (it lets some literals with the maximal digit count wrap) and the integer TryFrom by contract: a value in range
        # converts exactly, anything else is -222. This replaces the former "fast path" rule, which demanded that the
        # literal be parsed with lexical_core::parse::<T> - the very call whose overflow check is unreliable (F17).
        deng = C.decimal_engine("dflt", "scpi")
        badv = []
        nv = 0
        for text, val in C.nr1_probes(ity):
            nv += 1
            rr = C.fold_decimal(deng, b, text)
            if rr is None or len(rr) != 1 or rr[0].outcome != "return":
                badv.append("%s: undecided (%s)" % (text.decode(), "too many paths" if rr is None else [M.outcome(r) if r.outcome == "return" else r.outcome for r in rr][:3]))
                continue
            oc = M.outcome(rr[0])
            if lo <= val <= hi:
                v = ok_value(rr[0])
                if not (oc == "Ok" and isinstance(v, K) and v.v == val):
                    badv.append("%s -> %s%s, expected Ok(%d)" % (text.decode(), oc, "(%s)" % v.v if isinstance(v, K) else "", val))
            elif oc != "Err(DataOutOfRange)":
                v = ok_value(rr[0])
                badv.append("%s -> %s%s, expected -222 Data out of range" % (text.decode(), oc, "(%s)" % v.v if isinstance(v, K) else ""))
        R.check(not badv, "R07.7", "%s:nr1-values" % ity, "in-range NR1 literals convert exactly, out-of-range ones give -222 (%d literals incl. those a wrapping parser gets wrong)" % nv, "; ".join(badv[:4]), where=b.span)

        # ---- R07.6 fallback entry / error map ----------------------------------------------------------------------------
        # fallback closure on each lexical error variant
        emap = {}
        for d, vn in sorted(lex_tab.items()):
            rr = eng.run(closure_body, [AggV("closure-env", {0: SymV("lit", "literal")}), EnumV(LEX_ERR, vn, d, {0: SymV("pos", "pos")})])
            entered = any(e.kind == "call" and e.name.startswith("lexical_core::parse") for r in rr for e in r.trace)
            if vn == "InvalidDigit":
                if not entered:
                    emap[vn] = "not-entered"
            else:
                same = all(isinstance(r.retval, EnumV) and r.retval.name == "Err" and isinstance(r.retval.fields.get(0), EnumV) and r.retval.fields[0].name == vn for r in rr)
                if entered or not same:
                    emap[vn] = "entered" if entered else "error-changed"
        R.check(not emap, "R07.6", "%s:fallback-entry" % ity, "fallback entered only on InvalidDigit; every other parser error is passed on unchanged", "fallback entry table wrong: %s" % emap, where=cl.span)
        # error map: what the conversion returns when lexical-core reports each of its error variants
        emap2 = C.error_map("dflt", "scpi", b)
        bad_ = {vn: sorted(oc) for vn, oc in emap2.items() if oc != C.expected_error(vn)}
        R.check(not bad_, "R07.6", "%s:error-map" % ity, "Overflow/Underflow -> -222, InvalidDigit -> -121, anything else -> -120 (%d parser error variants)" % len(emap2),
                "numeric error mapping of the %s conversion is wrong for %s (out-of-range must be -222 Data out of range; a malformed number -121/-120)" % (ity, dict(list(bad_.items())[:4])), where=b.span)

        # ---- R07.2 non-decimal narrowing -----------------------------------------------------------------
        res = eng.run(b, [M.token(eng, "NonDecimalNumericProgramData")])
        good = bool(res)
        for r in res:
            tf = [e for e in r.trace if e.kind == "call" and e.name.endswith("TryFrom::try_from")]
            if len(tf) != 1 or not CB_.holds(tf[0].args[0], "tok-NonDecimalNumericProgramData-0") or ((tf[0].extra or {}).get("gargs") or ("", ""))[:2] != (ity, "u64"):
                good = False
            oc = M.outcome(r)
            if oc not in ("Ok", "Err(DataOutOfRange)"):
                good = False
            v = ok_value(r)
            if v is not None and "try_from" not in repr(getattr(v, "desc", "")):
                good = False
        R.check(good, "R07.2", "%s:non-decimal" % ity, "checked <%s as TryFrom<u64>>::try_from on the lexer's value; failure -> -222" % ity, "non-decimal literals must be narrowed with the checked TryFrom<u64> and map failure to -222: %s" % [D.PathInfo(r).describe() for r in res], where=b.span)
        casts = [(st["rv"]["kind"], st["rv"].get("from"), st["rv"]["ty"]) for bb in [b] + closures for m in bb.all_mirs() for bi in m.live_blocks() for st in m.blocks[bi]["stmts"] if st["k"] == "assign" and st["rv"]["k"] == "cast" and st["rv"]["kind"] == "IntToInt"]
        R.check(not casts, "R07.2", "%s:no-int-cast" % ity, "no `as` cast between integer types", "integer `as` cast %s in the %s conversion: a value could wrap or change sign" % (casts[:2], ity), where=b.span)

        # ---- R07.3 keywords ------------------------------------------------------------------------------------
        oc, res = C.outcome_set(eng, b, "CharacterProgramData")
        seen = {}
        dflt_ok = False
        for lit, order, r, ok in keyword_paths(res):
            if lit is None:
                dflt_ok = dflt_ok or M.outcome(r) == "Err(DataTypeError)"
                continue
            v = ok_value(r)
            seen[lit.decode()] = v.v if isinstance(v, K) else repr(v)
        R.check(seen == {"MAXimum": hi, "MINimum": lo} and dflt_ok, "R07.3", "%s:keywords" % ity, "MAXimum -> %d, MINimum -> %d, other character data -> -104" % (hi, lo), "keyword table of the %s conversion is %s (expected MAXimum=%d, MINimum=%d, otherwise -104)" % (ity, seen, hi, lo), where=b.span)

    # ---- R07.10 the typed pulls hand the conversion's verdict on: a literal the conversion refuses (-222, -138, -104) is the
    # unit's error through next_data and next_optional_data alike, never "parameter absent" (seed C07-L)
    if only is None:
        from . import c06 as _c06
        _c06.check_typed_pulls(R, "R07.10", ("DecimalNumericProgramData", "NonDecimalNumericProgramData", "DecimalNumericSuffixProgramData", "CharacterProgramData"))
    # ---- R07.9 the value a non-decimal literal carries is the lexer's: its whole-element table (shared with C04/R04.8) ------------
    if only is None:
        from . import lexer as LX
        LX.check_elements(R, "R07.9", ("non-decimal",), tier == "thorough")
    # ---- R07.11 typed echo tables: every integer type from the bytes of the message to the bytes of the answer ------------------
    if only is None:
        from . import echotable as ET
        ET.check(R, "R07.11", "integers", tier, "`*U8? <literal>` ... `*ISIZE? <literal>` through Node::run on the echo witness (handler: next_data::<T>() then data(value)): NR1 / NR2 / NR3 literals at and around every bound and half-integer, zero in every spelling, huge exponents, non-decimal forms, MAX / MIN in short and long form, look-alike keywords, suffixed and non-numeric elements, optional parameters - the answer is the nearest integer or -222, -138, -104 as C07 states", 300)
    # ---- R07.4 element types: rows of the accept matrix --------------------------------------------------------------
    rows = C.matrix("dflt", "scpi")
    for ity in sorted(convs):
        exp = C.expected(ity)
        for name in M.DATA:
            oc = rows[(ity, name)][0]
            must_ok, allowed = exp[name]
            R.check(oc <= allowed and (("Ok" in oc) == bool(must_ok)), "R07.4", "%s<-%s" % (ity, name), "%s" % sorted(oc), "conversion of %s into %s yields %s, allowed %s" % (name, ity, sorted(oc), sorted(allowed)))


def mapped_closures(closures, fallback):
    """closures of the conversion (other than the fallback) that take a lexical error and build an ErrorCode"""
    out = []
    for c in closures:
        if c is fallback:
            continue
        builds = any(st["k"] == "assign" and st["rv"]["k"] == "aggr" and st["rv"].get("agg") == "adt" and st["rv"]["adt"].endswith("error::ErrorCode") for m in c.all_mirs() for bi in m.live_blocks() for st in m.blocks[bi]["stmts"])
        takes = len(c.mir.locals) > 2 and c.mir.locals[2]["ty"].endswith("lexical_core::Error")
        if builds and takes:
            out.append(c)
    return out
