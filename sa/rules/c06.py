"""C06 - a handler sees exactly its own unit's parameters; wrong arity is an error."""
from .. import fdai, scpi_models as M, sym
from ..fdai import EnumV, SymV
from . import dispatch as D

LEVEL = "other"
TECHNIQUE = 'FDAI decision tables of Parameters::{next_optional_token,next_token,next_data,next_optional_data} and of the post-unit check in Node::run_tokens over all 13 token variants + lexer error + end of input (pairs after a data separator); Token::is_data variant table; lexer typestate for the data separator; whole-element tables of the six data kinds and of the separator (payload and bytes consumed vs a reference lexer); Node::run builds the tokenizer from the message bytes as given; whole-message tables (sa/rules/msgtable.py): Node::run folded end to end on concrete messages against a concrete tree with the real tokenizer, dispatcher, Parameters, ResponseUnit and formatter impl analysed in place and scripted handlers, compared with a reference execution written from SCPI-99 6.2.4 / IEEE 488.2 7-8 - handlers pulling k required + j optional parameters against units with 0..k+j+1 elements of every kind, alone and followed by units with elements of their own'
LEVEL_TEXT = "Exact decision tables over the finite token alphabet: for every token class (and every pair after `,`) the abstract interpreter enumerates what Parameters consumes from the shared cursor, what it returns, and which error arises; the post-unit table of run_tokens is enumerated the same way. Compared with the expected tables (consume only data / separator+data, -109 for a missing required parameter, None for a missing optional one, -108 for leftovers)."
LEVEL_NOTE = "Not decided: that a token's payload equals the input bytes it denotes (C04's value-level part); conduct of user handlers. Trusted: rustc MIR, FDAI models of Peekable and Option/Result combinators."


def tok_id(v):
    """identity of a token value: its variant + payload symbol ids"""
    if isinstance(v, EnumV) and (v.adt or "").endswith("Token"):
        return (v.name, tuple(getattr(v.fields.get(i), "id", None) for i in sorted(v.fields)))
    return None


def run(R, tier):
    R.configs.append("dflt")
    P = D.prog()
    u = P.unit("scpi")

    # ---- R06.6 is_data = the seven data variants -------------------------------------------------
    eng = D.engine(inline=lambda n, r: False)
    b = u.body("scpi::parser::tokenizer::token::Token::is_data")
    for name in M.NONDATA + M.DATA:
        tok = M.token(eng, name)
        res = eng.run(b, [fdai.RefV(fdai.Cell(tok, "tok"))])
        vals = {(r.outcome, getattr(r.retval, "v", None)) for r in res}
        R.check(vals == {("return", name in M.DATA)}, "R06.6", "is_data(%s)" % name, "= %s" % (name in M.DATA), "Token::is_data(%s) yields %s, expected %s" % (name, sorted(vals), name in M.DATA))

    # ---- R06.1 / R06.2 Parameters tables --------------------------------------------------------------
    opt = D.params_table("next_optional_token")
    req = D.params_table("next_token")
    R.count("parameter_table_rows", len(opt) + len(req))

    def some_token(p):
        v = p.r.retval
        if isinstance(v, EnumV) and v.name == "Ok":
            x = v.fields.get(0)
            if isinstance(x, EnumV) and x.name == "Some":
                return x.fields.get(0)
            if isinstance(x, EnumV) and (x.adt or "").endswith("Token"):
                return x
        return None

    def is_none(p):
        v = p.r.retval
        return isinstance(v, EnumV) and v.name == "Ok" and isinstance(v.fields.get(0), EnumV) and v.fields[0].name == "None"

    for table, label, required in ((opt, "next_optional_token", False), (req, "next_token", True)):
        for (first, second), ps in sorted(table.items(), key=lambda kv: repr(kv[0])):
            key = "%s[%s%s]" % (label, first, "," + second if second else "")
            desc = "; ".join(p.describe() for p in ps)
            if first in M.DATA:
                ok = len(ps) == 1 and ps[0].consumed == [first] and tok_id(some_token(ps[0])) == (first, tuple("tok-%s-%d" % (first, i) for i in range(len(some_token(ps[0]).fields)))) if len(ps) == 1 and some_token(ps[0]) is not None else False
                R.check(ok, "R06.1" if not required else "R06.2", key, "the data element is consumed and handed over unmodified", "a data element must be consumed and returned unmodified: %s" % desc)
            elif first == "ProgramDataSeparator":
                if second in M.DATA:
                    ok = len(ps) == 1 and ps[0].consumed == [first, second] and some_token(ps[0]) is not None and tok_id(some_token(ps[0]))[0] == second
                    R.check(ok, "R06.1", key, "separator and the following data element consumed; the element is returned", "`,` followed by data must yield that data element: %s" % desc)
                elif second == "ERR":
                    ok = ps and all(p.outcome == "Err(<lexer-error>)" and p.consumed == [first] for p in ps)
                    R.check(ok, "R06.1", key, "lexer error after `,` is propagated", "lexer error after `,` must be propagated: %s" % desc)
                elif second == "ProgramDataSeparator":
                    # `,,` - the lexer rejects it before it gets here; whatever happens, no non-data token may be returned
                    ok = all(some_token(p) is None or tok_id(some_token(p)) is None or tok_id(some_token(p))[0] in M.DATA for p in ps)
                    R.check(ok, "R06.1", key, "never returns a non-data token", "a non-data token is handed to the handler: %s" % desc)
                else:
                    ok = ps and all(p.outcome == "Err(MissingParameter)" and p.consumed == [first] for p in ps)
                    R.check(ok, "R06.1", key, "`,` with no data after it: -109, the following token is left in place", "`,` not followed by a data element must give -109 Missing parameter and must not consume (or return) the following token %s: %s" % (second, desc))
            elif first == "ERR":
                ok = ps and all(p.outcome == "Err(<lexer-error>)" and not p.consumed for p in ps)
                R.check(ok, "R06.1", key, "lexer error propagated, nothing consumed", "a lexer error must be propagated: %s" % desc)
            else:
                # non-data token or end: nothing consumed; optional -> None, required -> -109
                if required:
                    ok = ps and all(p.outcome == "Err(MissingParameter)" and not p.consumed for p in ps)
                    R.check(ok, "R06.2", key, "-109 Missing parameter, nothing consumed (not an element of the next unit)", "a missing required parameter must give -109 and leave %s in place: %s" % (first, desc))
                else:
                    ok = ps and all(is_none(p) and not p.consumed for p in ps)
                    R.check(ok, "R06.1", key, "absent: Ok(None), nothing consumed", "an absent optional parameter must give None and leave %s in place: %s" % (first, desc))

    # next_data / next_optional_data obtain their token through the token functions (never from the stream directly)
    # and treat an absent element like those do: -109 (required) / Ok(None) (optional), nothing consumed
    for fn, required in (("next_data", True), ("next_optional_data", False)):
        bb = u.body("scpi::parser::parameters::Parameters::" + fn)
        names = [c.name for c in bb.calls()]
        n_tok = sum(1 for n in names if n.endswith(("Parameters::next_token", "Parameters::next_optional_token")))
        ok = n_tok == 1 and not any("Peekable" in n for n in names)
        R.check(ok, "R06.2", fn, "obtains its token through one call of next_token / next_optional_token (conversion: R06.4)", "%s must take its token from next_token / next_optional_token exactly once and never from the stream directly: calls %s" % (fn, names))
        tb = D.params_table(fn)
        bad = []
        for (first, second), ps in sorted(tb.items(), key=lambda kv: repr(kv[0])):
            if first in M.DATA or first == "ProgramDataSeparator":
                continue
            for p in ps:
                if first == "ERR":
                    good = p.outcome == "Err(<lexer-error>)" and not p.consumed
                elif required:
                    good = p.outcome == "Err(MissingParameter)" and not p.consumed
                else:
                    good = is_none(p) and not p.consumed
                if not good:
                    bad.append("%s: %s" % (first, p.describe()))
        R.check(not bad, "R06.2", fn + ":absent", "no element: %s, nothing consumed" % ("-109 Missing parameter" if required else "Ok(None)"), "%s with no data element next: %s" % (fn, "; ".join(bad[:4])))

    # a failed conversion of a supplied element is the unit's error (never "absent", never dropped)
    check_typed_pulls(R, "R06.4", M.DATA)

    # ---- R06.3 post-unit table --------------------------------------------------------------------------
    rt = D.run_tokens_table()
    for h in ("ProgramMnemonic", "HeaderMnemonicSeparator"):
        for post in M.NONDATA + M.DATA + ["ERR", M.END]:
            ps = [p for p in rt[(h, post)] if p.has_call("Node::exec") and not any(e.kind == "assume" and e.name == "variant" and e.args[1] == "Err" and "Node::exec" in repr(e.args[0]) for e in p.trace)]
            ps = [p for p in ps if not any(e.kind == "assume" and e.name == "variant" and e.args[1] == "Err" and "message_start" in repr(e.args[0]) for e in p.trace)]
            key = "post-unit[%s;%s]" % (h[:7], post)
            desc = "; ".join(p.describe() for p in ps[:6])
            if post in M.DATA or post == "ProgramDataSeparator":
                ok = ps and all(p.outcome == "Err(ParameterNotAllowed)" and sum(1 for n in p.call_names if n.endswith("Node::exec")) == 1 for p in ps)
                R.check(ok, "R06.3", key, "unconsumed data -> -108 Parameter not allowed before the next unit", "a data element left over by the handler must fail the message with -108 before any further unit: %s" % desc)
            elif post == "ProgramMessageUnitSeparator":
                ok = ps and all(sum(1 for n in p.call_names if n.endswith("Node::exec")) >= 1 for p in ps)
                R.check(ok, "R06.3", key, "`;` starts the next unit", "after `;` the next unit must start: %s" % desc)
            elif post == M.END:
                ok = ps and all(p.outcome in ("Ok", "ret:message_end") or any(e.kind == "assume" and "message_end" in repr(e.args[0]) for e in p.trace) for p in ps)
                R.check(ok, "R06.3", key, "end of message: success", "end of input after a unit must end the message successfully: %s" % desc)
            elif post == "ERR":
                ok = ps and all(p.outcome == "Err(<lexer-error>)" for p in ps)
                R.check(ok, "R06.3", key, "lexer error returned", "lexer error after a unit must be returned: %s" % desc)
            else:
                ok = ps and all(p.outcome.startswith("Err(") and p.outcome != "Err(ParameterNotAllowed)" and sum(1 for n in p.call_names if n.endswith("Node::exec")) == 1 for p in ps)
                R.check(ok, "R06.3", key, "anything else after a unit is a syntax error", "a non-data token after a unit must be an error (not -108) and stop the message: %s" % desc)

    # ---- R06.5 separator needs a preceding data element (lexer typestate) ----------------------------------
    from . import lexer

    lexer.check_separator_typestate(R, "R06.5")

    # ---- R06.7 data elements reach the handler with unmodified content and the stream stands right after them ---------
    # Whole-element tables (sa/rules/lexer.py): Tokenizer::next folded on complete representative inputs of every data
    # kind; token kind, payload bytes and the position left behind are compared with the reference lexer. An element
    # that swallows part of its neighbour (or of the `,` / `;` after it) changes what the handler or the next unit sees.
    lexer.check_elements(R, "R06.7", ("chardata", "decimal", "string", "expression", "block", "non-decimal", "separator"), tier == "thorough")

    # ---- R06.8 the message reaches the lexer as it was given -----------------------------------------------------------------------
    # Node::run constructs the tokenizer from its `command` argument itself: trimming, re-slicing or copying it first
    # changes the content of a final data element (the payload of a block may end in white space or NL).
    bad = []
    n_new = 0
    for p in D.run_paths():
        news = [e for e in p.calls if e.name.endswith(("Tokenizer::new", "Tokenizer::new_params"))]
        for e in news:
            n_new += 1
            if not (e.args and e.args[0] == ("sym", "command", "command")):
                bad.append("Tokenizer::new(%s)" % (repr(e.args[0])[:120] if e.args else "?"))
        if len(news) != 1:
            bad.append("%d tokenizers constructed on one path" % len(news))
    R.check(not bad and n_new >= 1, "R06.8", "run:message-bytes", "the tokenizer is constructed once, from the message bytes as given", "; ".join(sorted(set(bad))[:3]))
    # ---- R06.9 whole messages: what each handler is handed, end to end -------------------------------------------------------------
    from . import msgtable as MT
    MT.check(R, "R06.9", "params", tier, "Node::run on whole messages: a handler pulling k required and j optional parameters is handed exactly the elements of its own unit (kind and payload bytes, strings / blocks / expressions with separators inside), -109 when a required one is missing, -108 when one is left over, and never an element of the next unit", 300)


def check_typed_pulls(R, rule, kinds):
    """Parameters::next_data / next_optional_data on a supplied element of each kind: the element is converted, a conversion
    error is the result (never `absent`, never dropped), success hands over the converted value (shared with C07's R07.10)"""
    for fn in ("next_data", "next_optional_data"):
        tb = D.params_table(fn)
        for first in kinds:
            ps = tb[(first, None)]
            conv = [p for p in ps if any(n.endswith(("TryInto::try_into", "TryFrom::try_from")) for n in p.call_names)]
            errs = [p for p in conv if p.outcome.startswith("Err(") and ("try_into" in repr(fdai.snapshot(p.r.retval)) or "try_from" in repr(fdai.snapshot(p.r.retval)))]
            oks = [p for p in conv if p.outcome == "Ok" and ("try_into" in repr(fdai.snapshot(p.r.retval)) or "try_from" in repr(fdai.snapshot(p.r.retval)))]
            tail = [p for p in conv if p.outcome in ("ret:try_into", "ret:try_from")]
            good = len(conv) == len(ps) and ((errs and oks and len(errs) + len(oks) == len(ps)) or (tail and len(tail) == len(ps))) and all(p.consumed == [first] for p in ps)
            R.check(good, rule, "%s[%s]" % (fn, first), "the supplied element is converted; a conversion error is returned as the unit's error, success hands over the converted value", "%s must convert the supplied element and return a conversion failure as an error (not swallow it): %s" % (fn, "; ".join(p.describe() for p in ps)))
